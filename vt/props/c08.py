"""C08 -- Every request gets a response; uncaught failures become the handler's 500.

Decided:
  R08.a  user code is always under a handler: on every call-graph path from Application.__call__ to the
         calls that run user code (route.execute -> inject(self._execute), execute_error ->
         inject(self.render_error)) some frame encloses the call in a handler catching Exception;
         RerouteWSGI is re-raised by an earlier, more specific handler and is caught in _dispatch_wsgi; the
         handler of route.execute keeps an HTTPException as the result (raised == returned) and routes
         everything else through err_handler.uncaught_to_response; the handler of execute_error falls
         back to default_render_error with the *same* parameters (same error);
  R08.b  non-Response results: the isinstance(ret, BaseResponse) test and its ``raise TypeError`` sit in
         the same protected region as route.execute;
  R08.c  re-raise only on request: in every uncaught_to_response of the ErrorHandler family a bare
         ``raise`` is dominated by self.reraise_uncaught (REPLErrorHandler, whose purpose is re-raising into
         the werkzeug debugger, is the one table entry); reraise_uncaught defaults to falsy;
  R08.d  a failed request leaves no trace: no function reachable from Application.__call__ in the core
         modules stores into a shared object (shared with C12).
  R08.e  the error serialisers never use error text as a format template;
  R08.f  URL converters run under a handler (conversion failure = no match);
  R08.g  no strict bytes<->text conversion (``.decode(codec)`` without an errors argument) on the part of the
         request path that no handler covers: the call-graph closure from Application.__call__ through call
         sites not enclosed in a handler catching UnicodeDecodeError (finding F13, DESIGN.md section 5).
Declined: exceptions raised by other primitive operations outside the protected region (arithmetic,
indexing, attribute access on werkzeug objects); completeness of werkzeug's response objects.
"""
import ast

from ..core import AnalysisError, norm, short
from ..loader import FuncInfo
from .dispatch import DispatchView, resolve_local, run_group
from .noninterf import RequestPath, path_text
from .common import (cfg_of, fkey, conds, has_cond, cond_texts, stmts_of, walk_body, call_tail, call_name, returns_of,
                     raises_of, raise_type, stmt_of, kwarg, protected_by, handler_reraises_always, isinstance_test)
from ..cfg import enclosing_tries
from ..astutil import handler_catches

APP, ROUTE, ERR = 'clastic.application', 'clastic.route', 'clastic.errors'


def must_catch(rp, target, exc='Exception', depth=0, seen=None):
    """Every call-graph path from the root to ``target`` has a frame whose call site is inside a handler
    catching ``exc``.  Returns (ok, [unprotected path texts])."""
    seen = seen or set()
    bad = []
    sites = [e for e in rp.cg.callers(target) if e.caller in rp.reach and e.kind != 'prop']
    if target is rp.root:
        return False, ['reaches the WSGI entry point unprotected']
    if not sites:
        return True, []
    for e in sites:
        if (e.caller, id(e.node)) in seen:
            continue
        seen.add((e.caller, id(e.node)))
        h = protected_by(e.caller, e.node, exc)
        if h is not None:
            continue
        if e.caller is rp.root or depth > 6:
            bad.append('%s calls %s outside any "except %s"' % (e.caller.qualname, target.qualname, exc))
            continue
        ok, sub = must_catch(rp, e.caller, exc, depth + 1, seen)
        if not ok:
            bad.extend('%s -> %s' % (s, target.qualname) for s in sub)
    return not bad, bad


def _layers(f, e):
    """Layers of the mapping passed as ``**e``: a local (assignment plus later .update / item stores) or an expression."""
    from .. import layers
    if isinstance(e, ast.Name):
        return layers.layers_of_var(f.node, e.id, 3)     # no expansion of source locals: the sources are compared by name
    return layers.layers_of_expr(e)


def _is_the_error(dv, cfg, h, asg, e, at):
    """``e`` (evaluated at statement ``at`` inside handler ``h``) is the exception being handled: the handler's name, or
    the result variable at a point where it is known to hold the exception."""
    if h.name is not None and norm(e) == h.name:
        return True
    if norm(e) == dv.ret_var and asg:
        src = cfg.nodes_of_all(asg)
        others = [n.id for n in cfg.nodes if n.kind == 'stmt' and isinstance(n.stmt, ast.Assign) and n.stmt not in asg and
                  any(norm(t) == dv.ret_var for t in n.stmt.targets)]
        # the binding dominates the use and no other assignment of the result variable lies in between
        return cfg.must_pass(src, cfg.handler_nodes(h), cfg.nodes_of(at)) and \
            not (set(others) & cfg.reach([m for x in src for m in cfg.succ[x]], avoid=cfg.nodes_of(at)) & cfg.coreach(cfg.nodes_of(at), avoid=src))
    return False


def run(rep):
    repo = rep.repo
    app, route, err = repo.mod(APP), repo.mod(ROUTE), repo.mod(ERR)
    rp = RequestPath(repo)
    rep.decide('R08.a user code under Exception handlers (interprocedural); R08.b non-Response results converted; '
               'R08.c re-raise only if configured; R08.d no shared store on the request path')
    rep.decide('R08.e error serialisers never format with error text; R08.f converters under a handler; R08.g no strict '
               'decode on the unprotected part of the request path')
    rep.decline('exceptions from other primitive operations outside the protected regions (arithmetic, indexing, attribute '
                'access on werkzeug objects); werkzeug response completeness')
    rep.assume('a bare raise re-raises the exception being handled (Python semantics)')
    rep.rule('R08.a', 'interprocedural must-catch over the call graph; handler shape in dispatch')
    rep.rule('R08.b', 'the non-Response TypeError is raised inside the protected region')
    rep.rule('R08.c', 'bare raise in uncaught_to_response dominated by self.reraise_uncaught')
    rep.rule('R08.d', 'effect classification of every store reachable from Application.__call__')


    def dispatch_rules():
        dv = DispatchView(repo)
        f, cfg = dv.fi, dv.cfg
        # ---- R08.a -----------------------------------------------------------
        for q in ('BoundRoute.execute', 'BoundRoute.execute_error'):
            tgt = route.func(q)
            inj = [c for c in walk_body(tgt.node) if isinstance(c, ast.Call) and call_name(c) == 'inject']
            if len(inj) != 1:
                raise AnalysisError('%s: expected one inject call' % q)
            # inject itself inside the target is unprotected (by design): protection must come from callers
            ok, bad = must_catch(rp, tgt)
            rep.check('R08.a', '%s::%s::callers protect' % (ROUTE, q), ok,
                      'every path from Application.__call__ to %s runs it under "except Exception"' % q if ok else
                      'user code can raise out to the WSGI server: %s' % '; '.join(bad), route, tgt.node)
        # shape of the execute handler
        h = protected_by(f, dv.exec_st, 'Exception')
        if h is None:
            rep.fail('R08.a', fkey(f, 'route.execute handler'), 'route.execute(...) is not inside a try with "except Exception"', app, dv.exec_st)
        else:
            tr = [t for t, part in enclosing_tries(app, dv.exec_st, f.node) if part == 'body' and h in t.handlers][0]
            idx = tr.handlers.index(h)
            earlier = tr.handlers[:idx]
            rr = [x for x in earlier if norm(x.type) == 'RerouteWSGI']
            ok = len(rr) == 1 and handler_reraises_always(f, rr[0])
            rep.check('R08.a', fkey(f, 'RerouteWSGI passes'), ok, 'RerouteWSGI is re-raised by an earlier, more specific handler' if ok else
                      'RerouteWSGI is swallowed by the generic handler (or not re-raised)', app, tr)
            hcfg_nodes = cfg.handler_nodes(h)
            inside = set(id(x) for x in ast.walk(h) if isinstance(x, ast.stmt))
            is_http = lambda t: isinstance_test(t, cls='HTTPException') and norm(t.args[0]) in (dv.ret_var, h.name or '')
            asg = [s for s in ast.walk(h) if isinstance(s, ast.Assign) and len(s.targets) == 1 and norm(s.targets[0]) == dv.ret_var and
                   h.name is not None and norm(s.value) == h.name]
            utr = [s for s in ast.walk(h) if isinstance(s, ast.Assign) and isinstance(s.value, ast.Call) and call_tail(s.value) == 'uncaught_to_response']
            bind_nodes = cfg.nodes_of_all(asg) + cfg.nodes_of_all([s for s in utr if norm(s.targets[0]) == dv.ret_var])
            # every way through the handler binds the result (to the exception itself or to its conversion) ...
            left = [n for n in cfg.reach(hcfg_nodes, avoid=bind_nodes, normal_only=True) if n not in hcfg_nodes and
                    (cfg.nodes[n].stmt is None or id(cfg.nodes[n].stmt) not in inside)]
            # ... and the exception itself is what an HTTPException is bound as: first thing, or on the isinstance-true side
            ok = h.name is not None and len(asg) == 1 and not left and \
                (h.body[0] is asg[0] or has_cond(conds(f, asg[0]), lambda t: is_http(t) and norm(t.args[0]) == h.name, True))
            rep.check('R08.a', fkey(f, 'raised == returned'), ok, 'a raised exception becomes the result (an HTTPException raised is treated like one returned)' if ok else
                      'the handler does not bind the raised exception as the result', app, h)

            def _not_http(st_):
                for t_, p_ in conds(f, st_):
                    if p_ is False and is_http(t_):
                        if norm(t_.args[0]) == h.name:
                            return True
                        # tested through the result variable: it must hold the exception at that point
                        if asg and cfg.must_pass(cfg.nodes_of_all(asg), hcfg_nodes, cfg.nodes_of(st_)):
                            return True
                return False
            ok = len(utr) == 1 and norm(utr[0].targets[0]) == dv.ret_var and _not_http(utr[0])
            rep.check('R08.a', fkey(f, 'uncaught_to_response'), ok,
                      'every non-HTTP exception is converted by err_handler.uncaught_to_response(...)' if ok else
                      'non-HTTP exceptions are not routed through uncaught_to_response into the result', app, utr[0] if utr else h)
            if utr:
                c = utr[0].value
                star = [k.value for k in c.keywords if k.arg is None]
                ok = len(star) == 1 and not c.args and norm(dv.resolve(c.func.value)) == 'self.error_handler'
                if ok:
                    lay = _layers(f, star[0])
                    lit = {}
                    for l in lay:
                        if l.kind == 'literal':
                            lit.update(l.values)
                    exec_star = [norm(k.value) for k in dv.exec_call.keywords if k.arg is None]
                    ok = bool(lay) and lay[0].kind == 'source' and [lay[0].text] == exec_star and \
                        all(l.kind == 'literal' for l in lay[1:]) and set(lit) == {'_route', '_error'} and \
                        norm(lit['_route']) == dv.route_var and _is_the_error(dv, cfg, h, asg, lit['_error'], utr[0])
                rep.check('R08.a', fkey(f, 'uncaught params'), ok, 'the handler gets the request parameters plus _route and _error' if ok else
                          'uncaught_to_response is not given (params, _route=route, _error=exc)', app, c)
        # _dispatch_wsgi catches RerouteWSGI around dispatch
        dw = app.func('Application._dispatch_wsgi')
        dc = [c for c in walk_body(dw.node) if isinstance(c, ast.Call) and norm(c.func) == 'self.dispatch']
        if len(dc) != 1:
            raise AnalysisError('_dispatch_wsgi: expected one self.dispatch call')
        hh = None
        for tr, part in enclosing_tries(app, dc[0], dw.node):
            if part == 'body':
                for x in tr.handlers:
                    if norm(x.type) == 'RerouteWSGI':
                        hh = x
        ok = hh is not None and hh.name is not None and any(isinstance(r.value, ast.Call) and norm(resolve_local(dw.node, r.value.func)) == '%s.wsgi_app' % hh.name
                                                            for r in ast.walk(hh) if isinstance(r, ast.Return))
        rep.check('R08.a', fkey(dw, 'RerouteWSGI caught'), ok, 'RerouteWSGI is caught at the WSGI boundary and its application is called' if ok else
                  'RerouteWSGI is not caught around self.dispatch(request)', app, dc[0])
        # error rendering
        eec = [c for c in walk_body(f.node) if isinstance(c, ast.Call) and call_tail(c) == 'execute_error']
        if len(eec) != 1:
            raise AnalysisError('dispatch: expected one execute_error call')
        eec = eec[0]
        ee = stmt_of(app, eec)
        if not ((isinstance(ee, ast.Assign) and len(ee.targets) == 1 and isinstance(ee.targets[0], ast.Name)) or isinstance(ee, ast.Return)) or ee.value is not eec:
            raise AnalysisError('dispatch: the result of execute_error(...) is neither bound to a local nor returned')
        eh = protected_by(f, ee, 'Exception')
        ok = eh is not None
        fb_ok = False
        fb = []
        if ok:
            fb = [s for s in eh.body if isinstance(s, (ast.Assign, ast.Return)) and isinstance(s.value, ast.Call) and call_name(s.value) == 'default_render_error']
            star1 = [norm(k.value) for k in eec.keywords if k.arg is None]
            star2 = [norm(k.value) for s in fb for k in s.value.keywords if k.arg is None]
            same_sink = len(fb) == 1 and type(fb[0]) is type(ee) and (isinstance(ee, ast.Return) or norm(fb[0].targets[0]) == norm(ee.targets[0]))
            fb_ok = same_sink and star1 == star2 and len(star1) == 1 and not eec.args and not fb[0].value.args and \
                len(eec.keywords) == 1 and len(fb[0].value.keywords) == 1
        rep.check('R08.a', fkey(f, 'render_error fallback'), ok and fb_ok,
                  'a failing error renderer falls back to default_render_error with the same parameters (same error)' if ok and fb_ok else
                  'a failing render_error is not replaced by default_render_error(**same params)', app, ee)
        star = [k.value for k in eec.keywords if k.arg is None]
        ok = len(star) == 1
        if ok:
            lay = _layers(f, star[0])
            lit = {}
            for l in lay:
                if l.kind == 'literal':
                    lit.update(l.values)
            exec_star = [norm(k.value) for k in dv.exec_call.keywords if k.arg is None]
            ok = '_error' in lit and norm(dv.resolve(lit['_error'])) == dv.ret_var and bool(lay) and lay[0].kind == 'source' and [lay[0].text] == exec_star
        rep.check('R08.a', fkey(f, '_error is the result'), ok, 'the error handed to the renderer is the HTTPException result itself' if ok else
                  '_error given to render_error is not the dispatch result', app, ee)
        cs = conds(f, ee)
        ok = has_cond(cs, lambda t: norm(t) == 'isinstance(%s, HTTPException)' % dv.ret_var, True)
        rep.check('R08.a', fkey(f, 'errors are rendered'), ok, 'every HTTPException result goes through the error renderer' if ok else
                  'execute_error is not conditioned on the result being an HTTPException', app, ee)
        recv = eec.func.value
        recv_ok = isinstance(recv, ast.Attribute) and recv.attr == 'source_route' and norm(dv.resolve(recv.value)) == dv.ret_var
        sr_store = [s for s in stmts_of(f.node) if isinstance(s, ast.Assign) and norm(s.targets[0]) == '%s.source_route' % dv.ret_var]
        ok = recv_ok and len(sr_store) == 1 and norm(sr_store[0].value) == dv.route_var and \
            has_cond(conds(f, sr_store[0]), lambda t: 'source_route' in norm(t), False)
        rep.check('R08.a', fkey(f, 'source_route'), ok, 'an error without a source route is attributed to the route that produced it before being rendered' if ok else
                  'ret.source_route may be unset when execute_error is called', app, sr_store[0] if sr_store else ee)
        # dispatch returns the result on every path: the result variable, or directly what the renderer / its fallback gave
        rets = [r for r in returns_of(f) if not (isinstance(r.value, ast.Call) and call_name(r.value) == 'redirect')]
        ok = bool(rets) and all(r.value is not None and (norm(r.value) == dv.ret_var or r is ee or r in fb) for r in rets) and \
            cfg.must_pass(cfg.nodes_of_all(returns_of(f)), cfg.entry, cfg.exit, normal_only=True)
        rep.check('R08.a', fkey(f, 'returns result'), ok, 'dispatch returns the (rendered) result' if ok else 'dispatch does not return the result variable', app, f.node)
        # the null route guarantees a result: loop iterates routes + [null route] (R06.a) and the null route matches everything
        rep.floor('R08.a', 10)

        # ---- R08.b -----------------------------------------------------------
        rz = [r for r in raises_of(f) if raise_type(r) == 'TypeError']
        ok = False
        for r in rz:
            cs = conds(f, r)
            if has_cond(cs, lambda t: norm(t) == 'isinstance(%s, BaseResponse)' % dv.ret_var, False):
                hh2 = protected_by(f, r, 'Exception')
                ok = hh2 is not None and hh2 is h
        rep.check('R08.b', fkey(f, 'non-Response => TypeError inside the region'), ok,
                  'a non-Response result raises TypeError inside the same try as route.execute, so it is converted like any uncaught error' if ok else
                  'a non-Response result is not turned into an error inside the protected region (None/str results escape as they are)', app,
                  rz[0] if rz else dv.exec_st)
        wz = repo.resolve(app, 'BaseResponse')
        ok = wz[0] == 'class' and wz[2].name == 'BaseResponse'
        rep.check('R08.b', '%s::BaseResponse' % APP, ok, 'BaseResponse is werkzeug\'s' if ok else 'BaseResponse is not werkzeug\'s class', app)


    def reraise_rules():
        # ---- R08.c -----------------------------------------------------------
        ehc = err.cls('ErrorHandler')
        fam = [ehc] + repo.subclasses(ehc, [err])
        TABLE = {'REPLErrorHandler': 're-raising into the werkzeug debugger is this handler\'s documented purpose'}
        n = 0
        for c in fam:
            m = c.methods.get('uncaught_to_response')
            if m is None:
                continue
            n += 1
            bare = [r for r in raises_of(m) if r.exc is None]
            if c.name in TABLE:
                rep.ok('R08.c', fkey(m), 'table entry: ' + TABLE[c.name], err, m.node)
                continue
            bad = [r for r in bare if not has_cond(conds(m, r), lambda t: norm(t) == 'self.reraise_uncaught', True)]
            other = [r for r in raises_of(m) if r.exc is not None]
            ok = not bad and not other
            rep.check('R08.c', fkey(m), ok,
                      're-raises only when self.reraise_uncaught is set (%d bare raise)' % len(bare) if ok else
                      'uncaught_to_response can raise without reraise_uncaught being set', err, (bad or other or [m.node])[0])
            rs = returns_of(m)
            ok = bool(rs) and all(isinstance(r.value, ast.Call) for r in rs)
            mcfg = cfg_of(m)
            falls = mcfg.exit in mcfg.reach([mcfg.entry], avoid=set(mcfg.nodes_of_all(rs)), normal_only=True)
            rep.check('R08.c', fkey(m, 'returns a response'), ok and not falls, 'returns a constructed server-error response on every other path' if ok and not falls else
                      'uncaught_to_response can return None', err, m.node)
        if n < 3:
            raise AnalysisError('ErrorHandler family: %d uncaught_to_response implementations (floor 3)' % n)
        ei = ehc.methods['__init__']
        ru = [s for s in stmts_of(ei.node) if isinstance(s, ast.Assign) and norm(s.targets[0]) == 'self.reraise_uncaught']
        ok = len(ru) == 1 and norm(ru[0].value) in ("kwargs.get('reraise_uncaught')", "kwargs.get('reraise_uncaught', False)",
                                                     "kwargs.pop('reraise_uncaught', False)", "kwargs.pop('reraise_uncaught', None)")
        rep.check('R08.c', fkey(ei, 'reraise_uncaught default'), ok, 'reraise_uncaught is off unless requested' if ok else
                  'reraise_uncaught does not default to a falsy value', err, ei.node)
        rep.floor('R08.c', 5)


    def store_rules():
        # ---- R08.d -----------------------------------------------------------
        check_no_shared_store(rep, 'R08.d', rp)


    def serialiser_rules():
        # ---- R08.e -----------------------------------------------------------
        rep.rule('R08.e', 'the error serialisers never use error text as a format template (the fallback renderer runs the same code, '
                          'so a raising serialiser cannot be rescued and the exception reaches the WSGI server)')
        from .c09 import check_template_constancy, check_escape_total
        if check_template_constancy(rep, 'R08.e') < 3:
            raise AnalysisError('format sinks in the to_* serialisers not found')
        check_escape_total(rep, 'R08.e')


    def converter_rules():
        dv = DispatchView(repo)
        f = dv.fi
        # ---- R08.f -----------------------------------------------------------
        rep.rule('R08.f', 'dispatch calls route.match_path outside its try: converters there must run under a handler (a segment that '
                          'matches the type pattern but fails conversion is "no match", not an exception escaping to the server)')
        from .c05 import check_match_path_no_raise
        check_match_path_no_raise(rep, 'R08.f')
        mp_h = protected_by(f, dv.match_st, 'Exception')
        rep.ok('R08.f', fkey(f, 'match_path call site'), 'route.match_path(...) is called %s the protected region of dispatch'
               % ('inside' if mp_h is not None else 'outside'), app, dv.match_st)


    def decoding_rules():
        # ---- R08.g -----------------------------------------------------------
        rep.rule('R08.g', 'no strict bytes<->text conversion on the part of the request path that no handler covers')
        check_total_decoding(rep, 'R08.g', rp)

    # each group is analysed on its own: a construct one group cannot follow does not hide the verdicts of the others
    for group in (dispatch_rules, reraise_rules, store_rules, serialiser_rules, converter_rules, decoding_rules):
        run_group(rep, group)


def _strict_codec_call(c):
    """``x.decode(...)`` / ``x.encode('ascii'|'latin-1')`` with strict error handling on a non-literal receiver."""
    if not (isinstance(c, ast.Call) and isinstance(c.func, ast.Attribute) and c.func.attr in ('decode', 'encode')):
        return None
    if isinstance(c.func.value, ast.Constant):
        return None
    if c.args and not (isinstance(c.args[0], ast.Constant) and isinstance(c.args[0].value, str)):
        return None      # not a codec call (e.g. a JSON encoder's .encode(obj))
    errs = c.args[1] if len(c.args) > 1 else kwarg(c, 'errors')
    if errs is not None:
        if isinstance(errs, ast.Constant) and errs.value != 'strict':
            return None
        return 'decode' if c.func.attr == 'decode' else 'encode'
    if c.func.attr == 'encode':
        codec = (c.args[0].value if c.args else 'utf-8').lower().replace('_', '-')
        if codec in ('utf8', 'utf-8', 'utf-16', 'utf-32'):
            return None      # total on text without lone surrogates (werkzeug decodes with errors="replace")
        return 'encode'
    return 'decode'


def check_total_decoding(rep, rule, rp):
    """Bytes that come from the client are arbitrary.  On the part of the request path that is *not* under a handler
    (everything reachable from Application.__call__ through call sites no ``except`` clause covers), a strict
    ``.decode`` raises UnicodeDecodeError for some request and that exception reaches the WSGI server."""
    ctl = ast.parse("def f(r):\n    a = r.q.decode('utf8')\n    b = r.q.decode('utf8', 'replace')\n    c = enc.encode(obj)\n")
    if [_strict_codec_call(c) for c in ast.walk(ctl) if isinstance(c, ast.Call)] != ['decode', None, None]:
        raise AnalysisError('positive control for the strict-codec detector failed')

    def covered(fi, node, kind):
        return protected_by(fi, node, 'UnicodeDecodeError' if kind == 'decode' else 'UnicodeEncodeError')
    unprot = rp.cg.reachable([rp.root], stop=lambda e: e.kind == 'prop' or protected_by(e.caller, e.node, 'UnicodeDecodeError') is not None)
    n = 0
    for fi, path in unprot.items():
        if fi.mod.external:
            continue
        n += 1
        for c in walk_body(fi.node):
            kind = _strict_codec_call(c)
            if kind is None:
                continue
            h = covered(fi, c, kind)
            rep.check(rule, fkey(fi, norm(c)[:80]), h is not None,
                      'strict %s is under "except %s"' % (kind, norm(h.type) if h is not None and h.type is not None else '<bare>') if h is not None else
                      '%s is strict and no handler on the way from Application.__call__ covers it (%s): a request whose bytes are '
                      'not valid in that codec raises Unicode%sError out to the WSGI server instead of getting a response'
                      % (short(c), path_text(path) or 'called directly', kind.capitalize()), fi.mod, c)
    rep.ok(rule, 'clastic::unprotected request path', '%d clastic functions are reachable from Application.__call__ through call '
           'sites that no handler covers; their strict byte/text conversions were checked' % n)
    if n < 5:
        raise AnalysisError('unprotected request path has only %d functions (floor 5)' % n)


def check_no_shared_store(rep, rule, rp=None):
    from .. import effects
    rp = rp or RequestPath(rep.repo)
    # positive control
    ctl = ast.parse('class A:\n    def dispatch(self, request):\n        self.last = request\n        request.x = 1\n')
    fn = ctl.body[0].body[0]
    effs = effects.effects_in(fn)
    if len(effs) != 2:
        raise AnalysisError('positive control for the effect detector failed')
    n_funcs = 0
    seen_funcs = set()
    for fi, e, cls, why, path in rp.effects():
        seen_funcs.add(fi)
        key = '%s::%s' % (fi.key, norm(e.node)[:90])
        rep.check(rule, key, cls != 'shared',
                  '%s (%s)' % (cls, why) if cls != 'shared' else
                  'store into a shared object on the request path (%s): per-request data would outlive the request / leak between '
                  'requests; reached via %s' % (why, path_text(path)), fi.mod, e.node)
    for ci, m, field, st_, fresh in rp.field_freshness():
        rep.check(rule, '%s::%s::self.%s = %s' % (ci.mod.name, m.qualname, field, norm(st_.value)[:60]), fresh,
                  'per-request field %s (mutated in place elsewhere) is assigned a freshly allocated object' % field if fresh else
                  '%s.%s is mutated in place by the class but is assigned %s here: the per-request object aliases a longer-lived '
                  'object (e.g. a route\'s own method set) and later mutates it -- a request would change state that outlives it'
                  % (ci.name, field, short(st_.value)), ci.mod, st_)
    for fi in rp.reach:
        if not fi.mod.external and fi not in seen_funcs:
            n_funcs += 1
    rep.ok(rule, 'clastic::request path', '%d functions reachable from Application.__call__ analysed (%d without any heap effect); '
           'dynamic roots: %s' % (len([x for x in rp.reach if not x.mod.external]), n_funcs,
                                  sorted(set(r for _, r in rp.dynamic_roots))[:4]))
    rep.floor(rule, 20)
