"""C08 -- Every request gets a response; uncaught failures become the handler's 500.

Decided:
  R08.a  (also) the last-resort renderer default_render_error is self-contained: outside a handler of its own it calls
         nothing reached through the application / the keyword arguments and runs no error renderer again; what runs
         inside dispatch's generic handler looks no module attribute up under a computed name without default or handler;
  R08.a  user code is always under a handler: on every call-graph path from Application.__call__ to the
         calls that run user code (route.execute -> inject(self._execute), execute_error ->
         inject(self.render_error)) some frame encloses the call in a handler catching Exception;
         RerouteWSGI is let out again by the first handler that can catch it (a handler of its own that always re-raises,
         or the generic handler: every way through it not known to handle something else -- no branch taken that says
         ``isinstance(exc, RerouteWSGI)`` is false -- ends in re-raising the handled exception) and is caught in
         _dispatch_wsgi; the handler of route.execute keeps an HTTPException as the result (raised == returned: on every way
         on which the exception is not known not to be one, the result is bound to the exception and not bound again) and routes
         everything else through err_handler.uncaught_to_response; the handler of execute_error falls
         back to default_render_error with the *same* parameters (same error);
  R08.b  non-Response results: the isinstance(ret, BaseResponse) test and its ``raise TypeError`` sit in
         the same protected region as route.execute;
  R08.c  re-raise only on request: in every uncaught_to_response of the ErrorHandler family whatever lets an
         exception out (a ``raise``, a call of a function that raises) is dominated by self.reraise_uncaught
         (REPLErrorHandler, whose purpose is re-raising into the werkzeug debugger, is the one table entry), and what
         it lets out is the *original* exception: a bare ``raise`` or ``raise <the exception being handled>``
         (``sys.exc_info()[1]``, ``_error``, through ``.with_traceback``), also inside a helper the parts are handed
         to -- never an object newly built from it; reraise_uncaught defaults to falsy;
  R08.d  a failed request leaves no trace: no function reachable from Application.__call__ in the core
         modules stores into a shared object (shared with C12).
  R08.e  the serialisers the fallback renderer shares with the primary renderer cannot raise on error data: no error
         text used as a format template; html_escape only on text or as an attempt; every JSON encoding goes through
         a total encoder (its hook for unknown values returns text instead of raising TypeError); an optional field of
         the error (filled from an optional constructor keyword, None otherwise) is dereferenced only under a test of it;
  R08.f  URL converters run under a handler (conversion failure = no match);
  R08.g  no strict bytes<->text conversion (``.decode(codec)`` without an errors argument) on the part of the
         request path that no handler covers: the call-graph closure from Application.__call__ through call
         sites not enclosed in a handler catching UnicodeDecodeError (finding F13, DESIGN.md section 5).
  R08.i  an HTTPException keeps its own status when it is non-breaking: the errors recorded while later routes were
         tried win over the null route's own 405 / 404 (the sentinel returns a recorded error whenever there is one; its
         405 and 404 are built only when none was recorded).
  R08.j  before dispatch is entered (``_dispatch_wsgi``, where no error handler is in charge yet) every store / delete on
         the request object -- an instance of the configurable request type, which may refuse assignment -- sits in a try
         whose handler for Exception lets nothing out, or runs only after such a contained store on the same object has
         completed (the ``else`` of that try) and is never reached through the handler;
  R08.k  the keywords the framework passes when it builds an error from one of the handler's ``*_type`` slots are accepted
         by every HTTPException class a handler of the family puts into that slot: along the constructors of the MRO each
         is declared or popped, or ends in a ** mapping nobody checks -- never at a constructor that refuses it.
Declined: exceptions raised by other primitive operations outside the protected region (arithmetic,
indexing, attribute access on werkzeug objects); completeness of werkzeug's response objects.
"""
import ast

from ..core import AnalysisError, norm, short
from ..loader import FuncInfo
from .dispatch import DispatchView, resolve_local, run_group
from .noninterf import RequestPath, path_text
from .common import (cfg_of, fkey, conds, has_cond, cond_texts, stmts_of, walk_body, call_tail, call_name, returns_of,
                     raises_of, raise_type, stmt_of, kwarg, protected_by, handler_reraises_always, isinstance_test)
from ..cfg import enclosing_tries
from ..astutil import handler_catches

APP, ROUTE, ERR = 'clastic.application', 'clastic.route', 'clastic.errors'


def must_catch(rp, target, exc='Exception', depth=0, seen=None):
    """Every call-graph path from the root to ``target`` has a frame whose call site is inside a handler
    catching ``exc``.  Returns (ok, [unprotected path texts])."""
    seen = seen or set()
    bad = []
    sites = [e for e in rp.cg.callers(target) if e.caller in rp.reach and e.kind != 'prop']
    if target is rp.root:
        return False, ['reaches the WSGI entry point unprotected']
    if not sites:
        return True, []
    for e in sites:
        if (e.caller, id(e.node)) in seen:
            continue
        seen.add((e.caller, id(e.node)))
        h = protected_by(e.caller, e.node, exc)
        if h is not None:
            continue
        if e.caller is rp.root or depth > 6:
            bad.append('%s calls %s outside any "except %s"' % (e.caller.qualname, target.qualname, exc))
            continue
        ok, sub = must_catch(rp, e.caller, exc, depth + 1, seen)
        if not ok:
            bad.extend('%s -> %s' % (s, target.qualname) for s in sub)
    return not bad, bad


def _layers(f, e):
    """Layers of the mapping passed as ``**e``: a local (assignment plus later .update / item stores) or an expression."""
    from .. import layers
    if isinstance(e, ast.Name):
        return layers.layers_of_var(f.node, e.id, 3)     # no expansion of source locals: the sources are compared by name
    return layers.layers_of_expr(e)


def _is_the_error(dv, cfg, h, asg, e, at):
    """``e`` (evaluated at statement ``at`` inside handler ``h``) is the exception being handled: the handler's name, or
    the result variable at a point where it is known to hold the exception."""
    if h.name is not None and norm(e) == h.name:
        return True
    if norm(e) == dv.ret_var and asg:
        src = cfg.nodes_of_all(asg)
        others = [n.id for n in cfg.nodes if n.kind == 'stmt' and isinstance(n.stmt, ast.Assign) and n.stmt not in asg and
                  any(norm(t) == dv.ret_var for t in n.stmt.targets)]
        # the binding dominates the use and no other assignment of the result variable lies in between
        return cfg.must_pass(src, cfg.handler_nodes(h), cfg.nodes_of(at)) and \
            not (set(others) & cfg.reach([m for x in src for m in cfg.succ[x]], avoid=cfg.nodes_of(at)) & cfg.coreach(cfg.nodes_of(at), avoid=src))
    return False


def reraises_of_handled(h):
    """The statements of handler ``h`` that raise the exception ``h`` is handling again: a bare ``raise`` that is not inside
    a handler nested in ``h`` (there it would re-raise the inner exception), ``raise <name>`` when ``h`` binds the exception
    to that name and nothing in ``h`` re-binds it."""
    from ..astutil import names_stored
    rebound = h.name is not None and any(h.name in names_stored(s) for s in h.body)
    out = []

    def visit(n):
        for c in ast.iter_child_nodes(n):
            if isinstance(c, (ast.ExceptHandler, ast.FunctionDef, ast.AsyncFunctionDef, ast.Lambda, ast.ClassDef)):
                continue
            if isinstance(c, ast.Raise) and (c.exc is None or (isinstance(c.exc, ast.Name) and c.exc.id == h.name and not rebound)):
                out.append(c)
            visit(c)
    visit(h)
    return out


def _http_ways_keep_the_exception(dv, h, asg, is_http, only_reroute):
    """On every way through handler ``h`` on which the handled exception is not known to be something else than an
    HTTPException (no branch taken that says ``isinstance(<exception>, HTTPException)`` is false -- tested on the handler's
    name, or on the result variable once it holds the exception), the result variable is bound to the exception (``asg``)
    and not bound again before the handler is left.  Ways on which only a RerouteWSGI is re-raised do not count."""
    from ..astutil import names_stored
    cfg = dv.cfg
    if h.name is None or any(h.name in names_stored(s) for s in h.body):
        return False
    hn = cfg.handler_nodes(h)
    inside = set(id(x) for x in ast.walk(h) if isinstance(x, ast.stmt))
    inside_nodes = set(hn) | set(n.id for n in cfg.nodes if n.stmt is not None and id(n.stmt) in inside)
    outside = set(n.id for n in cfg.nodes) - inside_nodes
    asg_nodes = set(cfg.nodes_of_all(asg))
    not_http = set(dv.branches_where(lambda t: is_http(t) and norm(t.args[0]) == h.name, False))
    for nid in dv.branches_where(lambda t: is_http(t) and norm(t.args[0]) == dv.ret_var, False):
        if nid in inside_nodes and cfg.must_pass(asg_nodes, hn, nid):
            not_http.add(nid)
    # every such way binds the exception ...
    if outside & cfg.reach(hn, avoid=asg_nodes | not_http | set(cfg.nodes_of_all(only_reroute)), normal_only=True):
        return False
    # ... and keeps it
    again = set(n.id for n in cfg.nodes if n.kind == 'stmt' and n.id in inside_nodes and n.id not in asg_nodes and
                dv.ret_var in names_stored(n.stmt))
    after = [m for x in asg_nodes for m in cfg.succ[x] if (x, m) not in cfg.exc_edges]
    return not (again & cfg.reach(after, avoid=not_http | outside))


def _is_reroute_test(t, name, exact=False):
    """``isinstance(<name>, RerouteWSGI)``; unless ``exact`` also ``isinstance(<name>, (.., RerouteWSGI, ..))`` (which, when
    false, still says the exception is not a RerouteWSGI)"""
    if name is None or not isinstance_test(t, var=name, cls='RerouteWSGI'):
        return False
    return not exact or not isinstance(t.args[1], ast.Tuple) or len(t.args[1].elts) == 1


def reroute_passes(dv, f, tr):
    """A RerouteWSGI raised under ``tr`` (the try around route.execute) leaves dispatch again: the first handler of ``tr``
    that can catch it is either one for RerouteWSGI alone that re-raises on every way through it, or a wider one (it binds
    the exception to a name it does not re-bind) in which every way that is not known to handle something else -- a way
    that took no branch saying ``isinstance(<exception>, RerouteWSGI)`` is false -- ends in re-raising the handled
    exception.  -> (ok, text naming the handler)"""
    from ..astutil import exc_names, names_stored
    cfg = dv.cfg
    first = None
    for x in tr.handlers:
        names = exc_names(x.type)
        tails = None if names is None else [n.rpartition('.')[2] for n in names]
        if tails is None or set(tails) & {'RerouteWSGI', 'Exception', 'BaseException'}:
            first = x
            break
    if first is None:
        return False, ''
    if tails == ['RerouteWSGI']:
        return handler_reraises_always(f, first), 'an earlier, more specific handler'
    if first.name is None or any(first.name in names_stored(s) for s in first.body):
        return False, ''
    again = reraises_of_handled(first)
    if not again:
        return False, ''
    not_reroute = dv.branches_where(lambda t: _is_reroute_test(t, first.name), False)
    hn = cfg.handler_nodes(first)
    if not hn:
        return False, ''
    inside = set(id(s) for s in ast.walk(first) if isinstance(s, ast.stmt))
    for n in cfg.reach(hn, avoid=set(not_reroute) | set(cfg.nodes_of_all(again)), normal_only=True):
        if n in hn or (cfg.nodes[n].stmt is not None and id(cfg.nodes[n].stmt) in inside):
            continue
        return False, ''           # a way out of the handler that neither re-raised nor is known not to handle a RerouteWSGI
    return True, 'the handler that catches it, before anything else is done with it'


def run(rep):
    repo = rep.repo
    app, route, err = repo.mod(APP), repo.mod(ROUTE), repo.mod(ERR)
    rp = RequestPath(repo)
    rep.decide('R08.a user code under Exception handlers (interprocedural); R08.b non-Response results converted; '
               'R08.c re-raise only if configured; R08.d no shared store on the request path')
    rep.decide('R08.e error serialisers never format with error text; R08.f converters under a handler; R08.g no strict '
               'decode on the unprotected part of the request path; R08.h error bodies are encoded by a total encoding')
    rep.decline('exceptions from other primitive operations outside the protected regions (arithmetic, indexing, attribute '
                'access on werkzeug objects); werkzeug response completeness')
    rep.assume('a bare raise re-raises the exception being handled (Python semantics)')
    rep.rule('R08.a', 'interprocedural must-catch over the call graph; handler shape in dispatch')
    rep.rule('R08.b', 'the non-Response TypeError is raised inside the protected region')
    rep.rule('R08.c', 'bare raise in uncaught_to_response dominated by self.reraise_uncaught')
    rep.rule('R08.d', 'effect classification of every store reachable from Application.__call__')


    def dispatch_rules():
        dv = DispatchView(repo, multi_exec=True)
        f, cfg = dv.fi, dv.cfg
        # ---- R08.a -----------------------------------------------------------
        for q in ('BoundRoute.execute', 'BoundRoute.execute_error'):
            tgt = route.func(q)
            inj = [c for c in walk_body(tgt.node) if isinstance(c, ast.Call) and call_name(c) == 'inject']
            if len(inj) != 1:
                raise AnalysisError('%s: expected one inject call' % q)
            # inject itself inside the target is unprotected (by design): protection must come from callers
            ok, bad = must_catch(rp, tgt)
            rep.check('R08.a', '%s::%s::callers protect' % (ROUTE, q), ok,
                      'every path from Application.__call__ to %s runs it under "except Exception"' % q if ok else
                      'user code can raise out to the WSGI server: %s' % '; '.join(bad), route, tgt.node)
        # shape of the execute handler
        h = protected_by(f, dv.exec_st, 'Exception')
        if h is None:
            rep.fail('R08.a', fkey(f, 'route.execute handler'), 'route.execute(...) is not inside a try with "except Exception"', app, dv.exec_st)
        else:
            tr = [t for t, part in enclosing_tries(app, dv.exec_st, f.node) if part == 'body' and h in t.handlers][0]
            exec_try = tr
            idx = tr.handlers.index(h)
            earlier = tr.handlers[:idx]
            ok, how = reroute_passes(dv, f, tr)
            rep.check('R08.a', fkey(f, 'RerouteWSGI passes'), ok, 'RerouteWSGI is re-raised by %s' % how if ok else
                      'RerouteWSGI is swallowed by the generic handler (or not re-raised)', app, tr)
            # (a re-raise inside the generic handler that only a RerouteWSGI reaches is not a way "through" the handler)
            only_reroute = [s for s in reraises_of_handled(h) if has_cond(dv.conds(s), lambda t: _is_reroute_test(t, h.name, exact=True), True)]
            hcfg_nodes = cfg.handler_nodes(h)
            inside = set(id(x) for x in ast.walk(h) if isinstance(x, ast.stmt))
            is_http = lambda t: isinstance_test(t, cls='HTTPException') and norm(t.args[0]) in (dv.ret_var, h.name or '')
            asg = [s for s in ast.walk(h) if isinstance(s, ast.Assign) and len(s.targets) == 1 and norm(s.targets[0]) == dv.ret_var and
                   h.name is not None and norm(s.value) == h.name]
            utr = [s for s in ast.walk(h) if isinstance(s, ast.Assign) and isinstance(s.value, ast.Call) and call_tail(s.value) == 'uncaught_to_response']
            bind_nodes = cfg.nodes_of_all(asg) + cfg.nodes_of_all([s for s in utr if norm(s.targets[0]) == dv.ret_var])
            # every way through the handler binds the result (to the exception itself or to its conversion) ...
            left = [n for n in cfg.reach(hcfg_nodes, avoid=bind_nodes + cfg.nodes_of_all(only_reroute), normal_only=True) if n not in hcfg_nodes and
                    (cfg.nodes[n].stmt is None or id(cfg.nodes[n].stmt) not in inside)]
            # ... and the exception itself is what an HTTPException is bound as: first thing, or on the isinstance-true side
            ok = h.name is not None and len(asg) == 1 and not left and \
                (h.body[0] is asg[0] or has_cond(conds(f, asg[0]), lambda t: is_http(t) and norm(t.args[0]) == h.name, True) or
                 _http_ways_keep_the_exception(dv, h, asg, is_http, only_reroute))
            rep.check('R08.a', fkey(f, 'raised == returned'), ok, 'a raised exception becomes the result (an HTTPException raised is treated like one returned)' if ok else
                      'the handler does not bind the raised exception as the result', app, h)

            def _not_http(st_):
                for t_, p_ in conds(f, st_):
                    if p_ is False and is_http(t_):
                        if norm(t_.args[0]) == h.name:
                            return True
                        # tested through the result variable: it must hold the exception at that point
                        if asg and cfg.must_pass(cfg.nodes_of_all(asg), hcfg_nodes, cfg.nodes_of(st_)):
                            return True
                return False
            ok = len(utr) == 1 and norm(utr[0].targets[0]) == dv.ret_var and _not_http(utr[0])
            rep.check('R08.a', fkey(f, 'uncaught_to_response'), ok,
                      'every non-HTTP exception is converted by err_handler.uncaught_to_response(...)' if ok else
                      'non-HTTP exceptions are not routed through uncaught_to_response into the result', app, utr[0] if utr else h)
            if utr:
                c = utr[0].value
                star = [k.value for k in c.keywords if k.arg is None]
                ok = len(star) == 1 and not c.args and norm(dv.resolve(c.func.value)) == 'self.error_handler'
                if ok:
                    lay = _layers(f, star[0])
                    lit = {}
                    for l in lay:
                        if l.kind == 'literal':
                            lit.update(l.values)
                    exec_star = [norm(k.value) for k in dv.exec_call.keywords if k.arg is None]
                    ok = bool(lay) and lay[0].kind == 'source' and [lay[0].text] == exec_star and \
                        all(l.kind == 'literal' for l in lay[1:]) and set(lit) == {'_route', '_error'} and \
                        norm(lit['_route']) == dv.route_var and _is_the_error(dv, cfg, h, asg, lit['_error'], utr[0])
                rep.check('R08.a', fkey(f, 'uncaught params'), ok, 'the handler gets the request parameters plus _route and _error' if ok else
                          'uncaught_to_response is not given (params, _route=route, _error=exc)', app, c)
        # every other call that runs a route (``<receiver>.execute(...)``: the null route run by name, a second call on the
        # loop variable): it runs an endpoint behind the application's middleware chain like the first one, so it is judged
        # like the first one -- inside the protected region whose handler was judged above, its result in the result variable
        extra_sites = []
        for c in dv.extra_exec:
            st = stmt_of(app, c)
            who = norm(c.func.value)
            h2 = protected_by(f, st, 'Exception')
            key = fkey(f, 'route.execute handler: %s' % who)
            if h2 is None:
                rep.fail('R08.a', key, '%s.execute(...) runs a route (its endpoint and the middleware chain in front of it) outside every try '
                         'with "except Exception": what it raises leaves dispatch and the WSGI callable instead of becoming the error '
                         'handler\'s 500' % who, app, st)
                continue
            if h is not None and h2 is not h:
                raise AnalysisError('Application.dispatch: %s.execute(...) is protected by a handler of its own, which is not followed' % who)
            rep.ok('R08.a', key, '%s.execute(...) runs in the same protected region as route.execute(...)' % who, app, st)
            extra_sites.append((c, st, who))

        # _dispatch_wsgi catches RerouteWSGI around dispatch
        dw = app.func('Application._dispatch_wsgi')
        dc = [c for c in walk_body(dw.node) if isinstance(c, ast.Call) and norm(c.func) == 'self.dispatch']
        if len(dc) != 1:
            raise AnalysisError('_dispatch_wsgi: expected one self.dispatch call')
        hh = None
        for tr, part in enclosing_tries(app, dc[0], dw.node):
            if part == 'body':
                for x in tr.handlers:
                    if norm(x.type) == 'RerouteWSGI':
                        hh = x
        ok = hh is not None and hh.name is not None and any(isinstance(r.value, ast.Call) and norm(resolve_local(dw.node, r.value.func)) == '%s.wsgi_app' % hh.name
                                                            for r in ast.walk(hh) if isinstance(r, ast.Return))
        rep.check('R08.a', fkey(dw, 'RerouteWSGI caught'), ok, 'RerouteWSGI is caught at the WSGI boundary and its application is called' if ok else
                  'RerouteWSGI is not caught around self.dispatch(request)', app, dc[0])
        # error rendering
        eec = [c for c in walk_body(f.node) if isinstance(c, ast.Call) and call_tail(c) == 'execute_error']
        if len(eec) != 1:
            raise AnalysisError('dispatch: expected one execute_error call')
        eec = eec[0]
        ee = stmt_of(app, eec)
        if not ((isinstance(ee, ast.Assign) and len(ee.targets) == 1 and isinstance(ee.targets[0], ast.Name)) or isinstance(ee, ast.Return)) or ee.value is not eec:
            raise AnalysisError('dispatch: the result of execute_error(...) is neither bound to a local nor returned')
        eh = protected_by(f, ee, 'Exception')
        ok = eh is not None
        fb_ok = False
        fb = []
        if ok:
            fb = [s for s in eh.body if isinstance(s, (ast.Assign, ast.Return)) and isinstance(s.value, ast.Call) and call_name(s.value) == 'default_render_error']
            star1 = [norm(k.value) for k in eec.keywords if k.arg is None]
            star2 = [norm(k.value) for s in fb for k in s.value.keywords if k.arg is None]
            same_sink = len(fb) == 1 and type(fb[0]) is type(ee) and (isinstance(ee, ast.Return) or norm(fb[0].targets[0]) == norm(ee.targets[0]))
            fb_ok = same_sink and star1 == star2 and len(star1) == 1 and not eec.args and not fb[0].value.args and \
                len(eec.keywords) == 1 and len(fb[0].value.keywords) == 1
        rep.check('R08.a', fkey(f, 'render_error fallback'), ok and fb_ok,
                  'a failing error renderer falls back to default_render_error with the same parameters (same error)' if ok and fb_ok else
                  'a failing render_error is not replaced by default_render_error(**same params)', app, ee)
        check_fallback_self_contained(rep, 'R08.a')
        check_conversion_lookups(rep, 'R08.a')
        star = [k.value for k in eec.keywords if k.arg is None]
        ok = len(star) == 1
        if ok:
            lay = _layers(f, star[0])
            lit = {}
            for l in lay:
                if l.kind == 'literal':
                    lit.update(l.values)
            exec_star = [norm(k.value) for k in dv.exec_call.keywords if k.arg is None]
            ok = '_error' in lit and norm(dv.resolve(lit['_error'])) == dv.ret_var and bool(lay) and lay[0].kind == 'source' and [lay[0].text] == exec_star
        rep.check('R08.a', fkey(f, '_error is the result'), ok, 'the error handed to the renderer is the HTTPException result itself' if ok else
                  '_error given to render_error is not the dispatch result', app, ee)
        cs = conds(f, ee)
        ok = has_cond(cs, lambda t: norm(t) == 'isinstance(%s, HTTPException)' % dv.ret_var, True)
        rep.check('R08.a', fkey(f, 'errors are rendered'), ok, 'every HTTPException result goes through the error renderer' if ok else
                  'execute_error is not conditioned on the result being an HTTPException', app, ee)
        recv = eec.func.value
        recv_ok = isinstance(recv, ast.Attribute) and recv.attr == 'source_route' and norm(dv.resolve(recv.value)) == dv.ret_var
        sr_store = [s for s in stmts_of(f.node) if isinstance(s, ast.Assign) and norm(s.targets[0]) == '%s.source_route' % dv.ret_var]
        # (one store per place that produces a result: after the loop's route.execute, after a further call that runs a route)
        ok = recv_ok and bool(sr_store) and len(sr_store) <= 1 + len(dv.extra_exec) and \
            all(norm(s_.value) == dv.route_var and has_cond(conds(f, s_), lambda t: 'source_route' in norm(t), False) for s_ in sr_store)
        rep.check('R08.a', fkey(f, 'source_route'), ok, 'an error without a source route is attributed to the route that produced it before being rendered' if ok else
                  'ret.source_route may be unset when execute_error is called', app, sr_store[0] if sr_store else ee)
        # dispatch returns the result on every path: the result variable, or directly what the renderer / its fallback gave
        def _is_redirect(r):
            """the statement returns a slash redirect: the call itself, or a local that can only hold one at this point"""
            if isinstance(r.value, ast.Call) and call_name(r.value) == 'redirect':
                return True
            if isinstance(r.value, ast.Name) and r.value.id != dv.ret_var:
                va = dv.value_at(r.value.id, r)
                return bool(va) and all(isinstance(dv.resolve(v_), ast.Call) and call_name(dv.resolve(v_)) == 'redirect' for st_, v_ in va)
            return False
        rets = [r for r in returns_of(f) if not _is_redirect(r)]
        ok = bool(rets) and all(r.value is not None and (norm(r.value) == dv.ret_var or r is ee or r in fb) for r in rets) and \
            cfg.must_pass(cfg.nodes_of_all(returns_of(f)), cfg.entry, cfg.exit, normal_only=True)
        rep.check('R08.a', fkey(f, 'returns result'), ok, 'dispatch returns the (rendered) result' if ok else 'dispatch does not return the result variable', app, f.node)
        # the null route guarantees a result: loop iterates routes + [null route] (R06.a) and the null route matches everything
        rep.floor('R08.a', 10)

        # ---- R08.b -----------------------------------------------------------
        rz = [r for r in raises_of(f) if raise_type(r) == 'TypeError']
        ok = False
        for r in rz:
            cs = conds(f, r)
            if has_cond(cs, lambda t: norm(t) == 'isinstance(%s, BaseResponse)' % dv.ret_var, False):
                hh2 = protected_by(f, r, 'Exception')
                ok = hh2 is not None and hh2 is h
        rep.check('R08.b', fkey(f, 'non-Response => TypeError inside the region'), ok,
                  'a non-Response result raises TypeError inside the same try as route.execute, so it is converted like any uncaught error' if ok else
                  'a non-Response result is not turned into an error inside the protected region (None/str results escape as they are)', app,
                  rz[0] if rz else dv.exec_st)
        # ... and that for every call site that runs a route: its result is in the result variable, and no way from the call
        # leaves the protected region without the test
        if h is not None:
            is_resp = lambda t: norm(t) == 'isinstance(%s, BaseResponse)' % dv.ret_var
            tests = set(dv.branches_where(is_resp, True)) | set(dv.branches_where(is_resp, False))
            body_ids = set(id(x) for s_ in exec_try.body for x in ast.walk(s_) if isinstance(x, ast.stmt))
            for c, st, who in [(dv.exec_call, dv.exec_st, dv.route_var)] + extra_sites:
                bound = isinstance(st, ast.Assign) and st.value is c and len(st.targets) == 1 and norm(st.targets[0]) == dv.ret_var
                after = [m for n in cfg.nodes_of(st) for m in cfg.succ[n] if (n, m) not in cfg.exc_edges]
                leaves = [n for n in cfg.reach(after, avoid=tests, normal_only=True) if id(cfg.nodes[n].stmt) not in body_ids]
                ok = bound and bool(tests) and not leaves
                rep.check('R08.b', fkey(f, 'result of %s.execute is tested' % who), ok,
                          'what %s.execute(...) returns is tested for being a Response before the protected region is left' % who if ok else
                          'what %s.execute(...) returns leaves the protected region without the isinstance(.., BaseResponse) test '
                          '(a None / str result is handed to the WSGI server as it is)' % who, app, st)
        for c in dv.extra_exec:
            if not any(c is c2 for c2, _, _ in extra_sites) and protected_by(f, stmt_of(app, c), 'Exception') is None:
                rep.fail('R08.b', fkey(f, 'result of %s.execute is tested' % norm(c.func.value)),
                         'what %s.execute(...) returns is never tested for being a Response: the call is outside the protected region '
                         'in which a non-Response result becomes a TypeError' % norm(c.func.value), app, stmt_of(app, c))
        wz = repo.resolve(app, 'BaseResponse')
        ok = wz[0] == 'class' and wz[2].name == 'BaseResponse'
        rep.check('R08.b', '%s::BaseResponse' % APP, ok, 'BaseResponse is werkzeug\'s' if ok else 'BaseResponse is not werkzeug\'s class', app)


    def reraise_rules():
        # ---- R08.c -----------------------------------------------------------
        ehc = err.cls('ErrorHandler')
        fam = [ehc] + repo.subclasses(ehc, [err])
        TABLE = {'REPLErrorHandler': 're-raising into the werkzeug debugger is this handler\'s documented purpose'}
        n = 0
        for c in fam:
            m = c.methods.get('uncaught_to_response')
            if m is None:
                continue
            n += 1
            bare = [r for r in raises_of(m) if r.exc is None]
            # what leaves on purpose: raise statements and calls of functions that raise; each must hand on the *original*
            # exception -- the one being handled -- not a new object built from it
            escapes = exception_escapes(repo, m)
            wrong = [(st_, why) for st_, why in escapes if why is not None]
            rep.check('R08.c', fkey(m, 'the original exception'), not wrong,
                      'what a re-raising handler lets out is the exception being handled itself (%d re-raising statement(s))' % len(escapes) if not wrong else
                      '%s.uncaught_to_response lets out something else than the exception being handled: %s -- the WSGI server / debugger '
                      'gets a different object (other identity, args and attributes; a TypeError when the type cannot be built from one '
                      'argument)' % (c.name, '; '.join(why for st_, why in wrong)), err, wrong[0][0] if wrong else m.node)
            if c.name in TABLE:
                rep.ok('R08.c', fkey(m), 'table entry: ' + TABLE[c.name], err, m.node)
                continue
            bad = [st_ for st_, why in escapes if not has_cond(conds(m, st_), lambda t: norm(t) == 'self.reraise_uncaught', True)]
            ok = not bad
            rep.check('R08.c', fkey(m), ok,
                      're-raises only when self.reraise_uncaught is set (%d bare raise)' % len(bare) if ok else
                      'uncaught_to_response can raise without reraise_uncaught being set', err, (bad or [m.node])[0])
            rs = returns_of(m)
            ok = bool(rs) and all(isinstance(r.value, ast.Call) for r in rs)
            mcfg = cfg_of(m)
            falls = mcfg.exit in mcfg.reach([mcfg.entry], avoid=set(mcfg.nodes_of_all(rs)), normal_only=True)
            rep.check('R08.c', fkey(m, 'returns a response'), ok and not falls, 'returns a constructed server-error response on every other path' if ok and not falls else
                      'uncaught_to_response can return None', err, m.node)
        if n < 3:
            raise AnalysisError('ErrorHandler family: %d uncaught_to_response implementations (floor 3)' % n)
        ei = ehc.methods['__init__']
        ru = [s for s in stmts_of(ei.node) if isinstance(s, ast.Assign) and norm(s.targets[0]) == 'self.reraise_uncaught']
        ok = len(ru) == 1 and norm(ru[0].value) in ("kwargs.get('reraise_uncaught')", "kwargs.get('reraise_uncaught', False)",
                                                     "kwargs.pop('reraise_uncaught', False)", "kwargs.pop('reraise_uncaught', None)")
        rep.check('R08.c', fkey(ei, 'reraise_uncaught default'), ok, 'reraise_uncaught is off unless requested' if ok else
                  'reraise_uncaught does not default to a falsy value', err, ei.node)
        rep.floor('R08.c', 5)


    def store_rules():
        # ---- R08.d -----------------------------------------------------------
        check_no_shared_store(rep, 'R08.d', rp)


    def serialiser_rules():
        # ---- R08.e -----------------------------------------------------------
        rep.rule('R08.e', 'the error serialisers never use error text as a format template (the fallback renderer runs the same code, '
                          'so a raising serialiser cannot be rescued and the exception reaches the WSGI server)')
        from .c09 import check_template_constancy, check_escape_total
        if check_template_constancy(rep, 'R08.e') < 3:
            raise AnalysisError('format sinks in the to_* serialisers not found')
        check_escape_total(rep, 'R08.e')
        check_json_encoder_total(rep, 'R08.e')
        check_optional_fields_guarded(rep, 'R08.e')


    def converter_rules():
        dv = DispatchView(repo, multi_exec=True)
        f = dv.fi
        # ---- R08.f -----------------------------------------------------------
        rep.rule('R08.f', 'dispatch calls route.match_path outside its try: converters there must run under a handler (a segment that '
                          'matches the type pattern but fails conversion is "no match", not an exception escaping to the server)')
        from .c05 import check_match_path_no_raise
        check_match_path_no_raise(rep, 'R08.f')
        mp_h = protected_by(f, dv.match_st, 'Exception')
        rep.ok('R08.f', fkey(f, 'match_path call site'), 'route.match_path(...) is called %s the protected region of dispatch'
               % ('inside' if mp_h is not None else 'outside'), app, dv.match_st)


    def decoding_rules():
        # ---- R08.g -----------------------------------------------------------
        rep.rule('R08.g', 'no strict bytes<->text conversion on the part of the request path that no handler covers')
        check_total_decoding(rep, 'R08.g', rp)

    def deferred_error_rules():
        # ---- R08.i -----------------------------------------------------------
        rep.rule('R08.i', 'a non-breaking HTTPException that was raised / returned and recorded is the answer when no later route gives '
                          'one: the null route returns a recorded error before it considers its own 405 / 404')
        from .c06 import check_sentinel_priority
        check_sentinel_priority(rep, 'R08.i', repo, app, route, most_recent=False)

    def body_encoding_rules():
        # ---- R08.h -----------------------------------------------------------
        rep.rule('R08.h', 'the body of an error response is bytes from an encoding that cannot fail: the 500 for an uncaught exception '
                          'is built inside the except clause of dispatch from text the application controls, and werkzeug encodes a '
                          'str body strictly (a lone surrogate would let UnicodeEncodeError out of the WSGI callable)')
        from .bodytext import check_total_body_encoding
        check_total_body_encoding(rep, 'R08.h')

    def boundary_rules():
        # ---- R08.j -----------------------------------------------------------
        rep.rule('R08.j', 'before dispatch is entered nothing is stored on the request object -- an instance of the configurable request '
                          'type, which may refuse assignment -- outside a handler, except after such a store has been seen to succeed')
        check_boundary_stores(rep, 'R08.j')

    def constructor_keyword_rules():
        # ---- R08.k -----------------------------------------------------------
        rep.rule('R08.k', 'every keyword the framework passes when it builds an error from a handler\'s *_type slot is accepted by every '
                          'class a handler of the family puts into that slot (declared / popped along the MRO, never refused)')
        check_error_constructor_keywords(rep, 'R08.k')

    # each group is analysed on its own: a construct one group cannot follow does not hide the verdicts of the others
    for group in (dispatch_rules, reraise_rules, store_rules, serialiser_rules, converter_rules, decoding_rules, deferred_error_rules,
                  body_encoding_rules, boundary_rules, constructor_keyword_rules):
        run_group(rep, group)


# ---------------------------------------------------------------------------------------------- R08.a: the last-resort renderer
RENDERERS = ('render_error', 'execute_error', 'render')


def check_fallback_self_contained(rep, rule):
    """default_render_error is what dispatch falls back to when the error renderer itself failed, and it runs outside any
    handler.  It is the thing that must not fail: outside a handler of its own it works only on the two objects it is
    about -- the request and the error -- and on the module's own constants.  A call that is reached through anything else
    it is handed (the application, its error handler, the route, the remaining keyword arguments) or that runs an error
    renderer again is application-supplied code -- the very code that has just failed -- and needs a handler around it."""
    repo = rep.repo
    app = repo.mod(APP)
    fi = app.func('default_render_error')
    ps = fi.params()
    if len(ps) < 2:
        raise AnalysisError('default_render_error(request, _error, ..): parameters not found')
    safe = set(ps[:2])
    a = fi.node.args
    tainted = set(x.arg for x in a.posonlyargs + a.args + a.kwonlyargs if x.arg not in safe) | set(x.arg for x in (a.vararg, a.kwarg) if x)
    grew = True
    while grew:
        grew = False
        for st in stmts_of(fi.node):
            tg = []
            if isinstance(st, ast.Assign):
                tg = [n.id for t in st.targets for n in ast.walk(t) if isinstance(n, ast.Name)]
                src = st.value
            elif isinstance(st, (ast.For, ast.With)):
                continue
            else:
                continue
            if tg and any(isinstance(n, ast.Name) and n.id in tainted for n in ast.walk(src)):
                for t in tg:
                    if t not in tainted and t not in safe:
                        tainted.add(t)
                        grew = True
    from ..effects import chain_of
    bad = []
    n_calls = 0
    for c in walk_body(fi.node):
        if not isinstance(c, ast.Call):
            continue
        n_calls += 1
        if protected_by(fi, c, 'Exception') is not None:
            continue
        ch = chain_of(c.func) or []
        if a.kwarg is not None and ch[:1] == [a.kwarg.arg] and len(ch) == 2 and ch[1] in ('get', 'pop', 'items', 'keys', 'values', 'setdefault', 'copy'):
            continue          # the ``**kwargs`` mapping is a dict of this call's own
        if ch and ch[0] in tainted:
            bad.append((c, 'reached through %s, which the caller supplies' % ch[0]))
        elif call_tail(c) in RENDERERS and not (isinstance(c.func, ast.Name)):
            bad.append((c, 'an error renderer is run again'))
        elif not ch and any(isinstance(n, ast.Name) and n.id in tainted for n in ast.walk(c.func)):
            bad.append((c, 'the callee is computed from what the caller supplies'))
    rep.check(rule, fkey(fi, 'self-contained'), not bad,
              'outside a handler the last-resort renderer only works on the request, the error and module constants (%d calls)' % n_calls if not bad else
              'default_render_error -- what dispatch falls back to after the error renderer failed, outside any handler -- calls %s (%s): '
              'application-supplied rendering code runs on the path that must not fail, and its exception reaches the WSGI server'
              % (short(bad[0][0], 70), bad[0][1]), app, bad[0][0] if bad else fi.node)


# ---------------------------------------------------------------------------------------------- the conversion of an uncaught exception is total
def conversion_closure(repo):
    """The functions that run inside dispatch's generic handler to turn an uncaught exception into a response, as far as no
    handler (catching AttributeError / KeyError) of their own covers the call: every ``uncaught_to_response`` of the
    ErrorHandler family, the constructors of the classes the family names in a class attribute and instantiates there
    (``eh.server_error_type(..)``, ``eh.exc_info_type.from_current()`` when in the tree) with the base-class constructors
    they delegate to, and the functions of the tree those call."""
    from ..effects import callee_of
    err = repo.mod(ERR)
    ehc = err.cls('ErrorHandler')
    fam = [ehc] + repo.subclasses(ehc, [err])
    type_attrs = {}
    for c in fam:
        for name, v in c.class_attrs.items():
            if isinstance(v, ast.Name):
                k, m, obj = repo.resolve(c.mod, v.id)
                if k == 'class' and m is not None and not m.external:
                    type_attrs.setdefault(name, []).append(obj)
    todo = [(c.methods['uncaught_to_response'], 0) for c in fam if 'uncaught_to_response' in c.methods]
    seen = []
    while todo:
        fi, d = todo.pop()
        if any(fi is x for x in seen) or d > 4:
            continue
        seen.append(fi)
        for c in walk_body(fi.node):
            if not isinstance(c, ast.Call) or protected_by(fi, c, 'AttributeError') is not None:
                continue
            f = resolve_local(fi.node, c.func)
            nxt = []
            if isinstance(f, ast.Attribute) and f.attr in type_attrs:
                for cls in type_attrs[f.attr]:
                    init = repo.find_method(cls, '__init__')
                    if init is not None and not init.mod.external:
                        nxt.append(init)
            elif isinstance(f, ast.Attribute) and f.attr == '__init__' and 'super' in norm(f.value) and fi.cls is not None:
                mro = [k for k in repo.mro(fi.cls) if hasattr(k, 'methods')]
                for k in mro[1:]:
                    if '__init__' in k.methods and not k.mod.external:
                        nxt.append(k.methods['__init__'])
                        break
            else:
                g = callee_of(repo, fi, c)
                if g is not None:
                    nxt.append(g)
            todo.extend((g, d + 1) for g in nxt)
    return seen


def check_conversion_lookups(rep, rule):
    """The exception an endpoint dies with is arbitrary (any class of any module).  What runs inside dispatch's generic
    handler to build the server-error response must not depend on the exception's type being one it knows: looking an
    attribute of a *module* up under a computed name (``getattr(builtins, type_name)``, ``vars(mod)[name]``,
    ``globals()[name]``) succeeds only for the names that module happens to define, so outside a handler -- and without a
    default -- it raises for every other exception type, inside the handler that was the last line of defence."""
    repo = rep.repo
    fns = conversion_closure(repo)
    if len(fns) < 3:
        raise AnalysisError('conversion of uncaught exceptions: only %d functions found (floor 3)' % len(fns))
    n = 0
    for fi in fns:
        def is_module(e):
            return isinstance(e, ast.Name) and repo.resolve(fi.mod, e.id)[0] == 'module' and \
                not any(isinstance(x, ast.Name) and x.id == e.id and isinstance(x.ctx, ast.Store) for x in walk_body(fi.node))
        for c in walk_body(fi.node):
            what, exc = None, None
            if isinstance(c, ast.Call) and isinstance(c.func, ast.Name) and c.func.id == 'getattr' and len(c.args) == 2 and not c.keywords and \
                    not isinstance(c.args[1], ast.Constant) and is_module(c.args[0]):
                what, exc = c, 'AttributeError'
            elif isinstance(c, ast.Subscript) and isinstance(c.ctx, ast.Load) and not isinstance(c.slice, ast.Constant):
                v = c.value
                if (isinstance(v, ast.Attribute) and v.attr == '__dict__' and is_module(v.value)) or \
                        (isinstance(v, ast.Call) and isinstance(v.func, ast.Name) and
                         ((v.func.id == 'vars' and len(v.args) == 1 and is_module(v.args[0])) or (v.func.id == 'globals' and not v.args))):
                    what, exc = c, 'KeyError'
            if what is None:
                continue
            n += 1
            h = protected_by(fi, what, exc)
            rep.check(rule, fkey(fi, norm(what)[:70]), h is not None,
                      'the lookup by computed name is an attempt (under "except %s")' % (norm(h.type) if h is not None and h.type is not None else '<bare>')
                      if h is not None else
                      '%s looks a module attribute up under a computed name (%s) with no default and no handler, while converting an uncaught '
                      'exception inside dispatch\'s generic handler: for an exception type the module does not define this raises %s there, and '
                      'the request gets no response at all' % (fi.qualname, short(what, 60), exc), fi.mod, what)
    rep.ok(rule, '%s::conversion of uncaught exceptions' % ERR, '%d function(s) run inside dispatch\'s generic handler; %d lookup(s) of module '
           'attributes by computed name inspected' % (len(fns), n))


# ---------------------------------------------------------------------------------------------- R08.c: what a re-raise lets out
_KNOWN_RERAISERS = {'six.reraise': 1, 'future.utils.raise_': 1}       # external helpers raising their argument number <n> as it is


def _exc_info_part(e):
    """``sys.exc_info()[i]`` -> i; the call itself -> 'all'; else None"""
    def is_call(c):
        return isinstance(c, ast.Call) and not c.args and not c.keywords and norm(c.func) in ('sys.exc_info', 'exc_info')
    if is_call(e):
        return 'all'
    if isinstance(e, ast.Subscript) and is_call(e.value) and isinstance(e.slice, ast.Constant) and e.slice.value in (0, 1, 2):
        return e.slice.value
    return None


def _exc_role(fi, e, roles, depth=0):
    """What expression ``e`` of function ``fi`` denotes: 'value' -- the exception being handled itself; 'type' / 'tb' -- its
    type / traceback; None -- anything else (in particular a newly built object).  ``roles``: parameter name -> role."""
    from ..astutil import assigned_value
    if depth > 5:
        return None
    if isinstance(e, ast.Call) and isinstance(e.func, ast.Attribute) and e.func.attr == 'with_traceback' and len(e.args) == 1 and not e.keywords:
        return 'value' if _exc_role(fi, e.func.value, roles, depth + 1) == 'value' else None      # returns the exception itself
    part = _exc_info_part(e)
    if part in (0, 1, 2):
        return ('type', 'value', 'tb')[part]
    if isinstance(e, ast.Name):
        av = assigned_value(fi.node, e.id)
        stored = any(isinstance(n, ast.Name) and n.id == e.id and isinstance(n.ctx, (ast.Store, ast.Del)) for n in walk_body(fi.node))
        if e.id in roles and not stored:
            return roles[e.id]
        if e.id == '_error' and e.id in fi.params() and not stored:
            return 'value'            # the keyword dispatch passes the exception under
        if len(av) == 1 and isinstance(av[0][0], ast.Assign) and e.id not in fi.params():
            st, val, idx = av[0]
            if idx is None:
                return _exc_role(fi, val, roles, depth + 1)
            if isinstance(idx, int) and _exc_info_part(val) == 'all' and idx in (0, 1, 2):
                return ('type', 'value', 'tb')[idx]           # ``tp, value, tb = sys.exc_info()``
            if isinstance(idx, int) and isinstance(val, (ast.Tuple, ast.List)) and idx < len(val.elts) and \
                    not any(isinstance(x, ast.Starred) for x in val.elts):
                return _exc_role(fi, val.elts[idx], roles, depth + 1)
        return None
    kw = fi.node.args.kwarg.arg if fi.node.args.kwarg is not None else None
    if kw is not None:
        if isinstance(e, ast.Subscript) and norm(e.value) == kw and isinstance(e.slice, ast.Constant) and e.slice.value == '_error':
            return 'value'
        if isinstance(e, ast.Call) and norm(e.func) in ('%s.get' % kw, '%s.pop' % kw) and len(e.args) == 1 and \
                isinstance(e.args[0], ast.Constant) and e.args[0].value == '_error':
            return 'value'
    if isinstance(e, ast.Call) and isinstance(e.func, ast.Name) and e.func.id == 'type' and len(e.args) == 1 and not e.keywords:
        return 'type' if _exc_role(fi, e.args[0], roles, depth + 1) == 'value' else None
    if isinstance(e, ast.Attribute) and e.attr in ('__class__', '__traceback__'):
        return {'__class__': 'type', '__traceback__': 'tb'}[e.attr] if _exc_role(fi, e.value, roles, depth + 1) == 'value' else None
    return None


def _raise_lets_out(fi, r, roles):
    """None when raise statement ``r`` of ``fi`` re-raises the exception being handled (bare ``raise``, or ``raise <that
    exception>`` -- also through ``.with_traceback(..)``); else a text saying what it raises"""
    if r.exc is None:
        return None
    if _exc_role(fi, r.exc, roles) == 'value':
        return None
    return '%s raises %s' % (fi.qualname, short(r.exc, 60))


def exception_escapes(repo, m):
    """[(statement of ``m``, None | what is wrong)] for every statement of ``m`` (an ``uncaught_to_response``) through which an
    exception leaves on purpose: its own ``raise`` statements, and calls of functions of the tree (or known external
    re-raisers) that raise -- followed one level, the exception's parts matched to the callee's parameters by position,
    keyword and ``*sys.exc_info()``."""
    out = []
    for r in raises_of(m):
        if protected_by(m, r, 'Exception') is None:
            out.append((r, _raise_lets_out(m, r, {})))
    for c in walk_body(m.node):
        if not isinstance(c, ast.Call):
            continue
        callee, known = None, None
        f = c.func
        if isinstance(f, ast.Name):
            kind, mod2, obj = repo.resolve(m.mod, f.id)
            if kind == 'func' and mod2 is not None and not mod2.external:
                callee = obj
            elif kind == 'external' and obj in _KNOWN_RERAISERS:
                known = _KNOWN_RERAISERS[obj]
        elif isinstance(f, ast.Attribute) and isinstance(f.value, ast.Name):
            if f.value.id in ('self', 'cls') and m.cls is not None:
                callee = repo.find_method(m.cls, f.attr)
                if callee is not None and callee.mod.external:
                    callee = None
            else:
                kind, mod2, obj = repo.resolve(m.mod, f.value.id)
                if kind == 'module':
                    dotted = '%s.%s' % (obj, f.attr)
                    if dotted in _KNOWN_RERAISERS:
                        known = _KNOWN_RERAISERS[dotted]
                    elif mod2 is not None and not mod2.external and f.attr in mod2.functions:
                        callee = mod2.functions[f.attr]
        if callee is None and known is None:
            continue
        # the roles of the arguments, in order
        pos = []
        for a in c.args:
            if isinstance(a, ast.Starred):
                pos.extend(['type', 'value', 'tb'] if _exc_info_part(a.value) == 'all' else [None, None, None, None])
            else:
                pos.append(_exc_role(m, a, {}))
        st = stmt_of(m.mod, c)
        if known is not None:
            ok = len(pos) > known and pos[known] == 'value'
            out.append((st, None if ok else '%s is not given the exception being handled' % norm(f)))
            continue
        rz = [r for r in raises_of(callee) if protected_by(callee, r, 'Exception') is None]
        if not rz:
            continue
        ps = callee.params()
        if callee.cls is not None and not any(isinstance(d, ast.Name) and d.id == 'staticmethod' for d in callee.node.decorator_list):
            ps = ps[1:]
        roles = dict(zip(ps, pos))
        for k in c.keywords:
            if k.arg is not None:
                roles[k.arg] = _exc_role(m, k.value, {})
        roles = dict((k, v) for k, v in roles.items() if v is not None)
        whys = [w for w in (_raise_lets_out(callee, r, roles) for r in rz) if w is not None]
        out.append((st, '; '.join(whys) if whys else None))
    return out


# ---------------------------------------------------------------------------------------------- R08.e: optional fields of an error
def _maybe_none(init, v):
    """the value a constructor stores can be None: ``kw.pop(name, None)`` / ``kw.get(name)`` / ``None`` / a parameter
    whose default is None"""
    if isinstance(v, ast.Constant):
        return v.value is None
    if isinstance(v, ast.Call) and isinstance(v.func, ast.Attribute) and v.func.attr in ('pop', 'get') and v.args and not v.keywords:
        return len(v.args) == 1 and v.func.attr == 'get' or (len(v.args) == 2 and isinstance(v.args[1], ast.Constant) and v.args[1].value is None)
    if isinstance(v, ast.Name):
        a = init.node.args
        pos = a.posonlyargs + a.args
        dflt = dict(zip([x.arg for x in pos][len(pos) - len(a.defaults):], a.defaults))
        dflt.update((x.arg, d) for x, d in zip(a.kwonlyargs, a.kw_defaults) if d is not None)
        d = dflt.get(v.id)
        return isinstance(d, ast.Constant) and d.value is None and \
            not any(isinstance(n, ast.Name) and n.id == v.id and isinstance(n.ctx, ast.Store) for n in walk_body(init.node))
    return False


def optional_fields(repo, ci):
    """Fields of class ``ci`` that an instance can hold as None: every store to ``self.<f>`` in the class family's methods is
    in a constructor and stores a maybe-None value (see _maybe_none): {field: (constructor, statement)}"""
    stores = {}
    for c in repo.mro(ci):
        if not hasattr(c, 'methods') or c.mod.external:
            continue
        for m in c.methods.values():
            for st in stmts_of(m.node):
                tg = st.targets if isinstance(st, ast.Assign) else [st.target] if isinstance(st, (ast.AugAssign, ast.AnnAssign)) else []
                for t in tg:
                    for x in (t.elts if isinstance(t, (ast.Tuple, ast.List)) else [t]):
                        if isinstance(x, ast.Attribute) and isinstance(x.value, ast.Name) and x.value.id == 'self':
                            v = st.value if isinstance(st, ast.Assign) and x is t else None
                            stores.setdefault(x.attr, []).append((m, st, v))
    out = {}
    for f, lst in stores.items():
        if all(m.name == '__init__' and v is not None and _maybe_none(m, v) for m, st, v in lst):
            out[f] = (lst[0][0], lst[0][1])
    return out


def check_optional_fields_guarded(rep, rule):
    """An error's optional fields -- those its constructors fill from an optional keyword (``kwargs.pop('exc_info', None)``)
    and nothing else assigns -- are None for an error that application code builds itself (``raise BadGateway()``).  In the
    to_* serialisers of the HTTPException family (and the functions of the module they call) such a field is therefore
    not dereferenced -- attribute / method / item access, membership, len() -- unless the access is guarded by a test of
    the field, short-circuited by it, or under a handler: the renderer and its default_render_error fallback run the
    same serialiser, so an AttributeError there reaches the WSGI server."""
    from .c09 import _escape_scope
    from .c15_nullable import _deref_kind, _short_circuited
    from .common import implies_present
    repo = rep.repo
    err = repo.mod(ERR)
    base = err.cls('HTTPException')
    fam = [base] + repo.subclasses(base, [err])
    seen, n_reads, n_fields = set(), 0, set()
    for c in fam:
        opt = optional_fields(repo, c)
        if not opt:
            continue
        for name, m in sorted(c.methods.items()):
            if not name.startswith('to_'):
                continue
            for fi in _escape_scope(repo, err, m):
                if fi.cls is None or not any(fi.cls is k for k in repo.mro(c)):
                    continue
                # locals that hold exactly such a field's value (``info = self.exc_info``)
                carriers = {}
                for s_ in stmts_of(fi.node):
                    if isinstance(s_, ast.Assign) and len(s_.targets) == 1 and isinstance(s_.targets[0], ast.Name):
                        v_ = s_.value
                        carriers.setdefault(s_.targets[0].id, []).append(
                            v_.attr if isinstance(v_, ast.Attribute) and isinstance(v_.value, ast.Name) and v_.value.id == 'self' and v_.attr in opt else None)
                carriers = dict((k, v[0]) for k, v in carriers.items() if len(v) == 1 and v[0] is not None and k not in fi.params())
                for n in walk_body(fi.node):
                    field = None
                    if isinstance(n, ast.Attribute) and isinstance(n.value, ast.Name) and n.value.id == 'self' and n.attr in opt and \
                            isinstance(n.ctx, ast.Load):
                        field = n.attr
                    elif isinstance(n, ast.Name) and n.id in carriers and isinstance(n.ctx, ast.Load):
                        field = carriers[n.id]
                    if field is None or (id(n), c.name) in seen:
                        continue
                    seen.add((id(n), c.name))
                    kind = _deref_kind(fi.mod, n)
                    if kind is None:
                        continue
                    n_reads += 1
                    n_fields.add(field)
                    text = norm(n)
                    ok = implies_present(conds(fi, n), text) or _short_circuited(fi.mod, n, text) or \
                        protected_by(fi, n, 'AttributeError') is not None
                    init, st = opt[field]
                    rep.check(rule, fkey(fi, '%s %s in %s' % (text, kind, c.name)), ok,
                              '%s (%s) only where the optional field is known to be set' % (text, kind) if ok else
                              '%s.%s uses %s as %s, but the field is None unless the error was built with it (%s: %s): for a %s that '
                              'application code raises or returns itself the serialiser raises -- in render_error and again in its '
                              'default_render_error fallback -- and the exception reaches the WSGI server'
                              % (fi.cls.name, fi.name, text, kind, init.qualname, short(st, 60), c.name), fi.mod, n)
    rep.ok(rule, '%s::optional fields of errors' % ERR, '%d dereference(s) of optional error fields (%s) in the to_* serialisers inspected'
           % (n_reads, ', '.join(sorted(n_fields)) or 'none'))


# ---------------------------------------------------------------------------------------------- R08.e: total JSON encoding
TEXT_HOOKS = ('repr', 'str', 'ascii')
_TOTAL, _PARTIAL = 'total', 'partial'


class _Unknown(Exception):
    """the construct is there but this analysis cannot tell (reported as an analysis gap, never as a verdict)"""


def _is_json_encoder_class(repo, c):
    if c is None:
        return False
    if isinstance(c, str):
        return c.rpartition('.')[2] == 'JSONEncoder'
    return repo.is_subclass(c, 'JSONEncoder')


def _callee_class(repo, mod, func):
    """ClassInfo / dotted external name the call target ``func`` denotes, else None"""
    if isinstance(func, ast.Name):
        kind, m, obj = repo.resolve(mod, func.id)
        if kind == 'class':
            return obj
        if kind == 'external':
            return obj
        return None
    if isinstance(func, ast.Attribute) and isinstance(func.value, ast.Name):
        kind, m, obj = repo.resolve(mod, func.value.id)
        if kind == 'module':
            if m is not None:
                r = repo.resolve(m, func.attr)
                if r[0] == 'class':
                    return r[2]
                if r[0] == 'external':
                    return r[2]
            return '%s.%s' % (obj, func.attr)
    return None


def _hook_is_text(e):
    """the ``default=`` hook of the stock encoder turns anything into text: repr / str / ascii, or a lambda returning one of them"""
    if isinstance(e, ast.Name):
        return e.id in TEXT_HOOKS
    if isinstance(e, ast.Lambda) and isinstance(e.body, ast.Call) and isinstance(e.body.func, ast.Name) and e.body.func.id in TEXT_HOOKS:
        return len(e.args.args) == 1 and len(e.body.args) == 1 and norm(e.body.args[0]) == e.args.args[0].arg
    return False


def _construction_keywords(repo, mod, fnode, call, skip=()):
    """(explicit keyword -> value expr, opaque): the keywords a construction passes, ``**mapping`` resolved through literal
    layers; opaque = some ``**`` source whose keys are not known here"""
    from .. import layers
    kws, opaque = {}, False
    for k in call.keywords:
        if k.arg is not None:
            if k.arg not in skip:
                kws[k.arg] = k.value
            continue
        if isinstance(k.value, ast.Name):
            lay = layers.layers_of_var(fnode, k.value.id) if fnode is not None else []
            if not lay:
                # a mapping kept at module level (single assignment)
                kind, m2, vals = repo.resolve(mod, k.value.id)
                lay = layers.layers_of_expr(vals[0]) if kind == 'value' and len(vals) == 1 and isinstance(vals[0], ast.expr) else []
            if not lay:
                opaque = True
        else:
            lay = layers.layers_of_expr(k.value)
        for l in lay:
            if l.kind == 'literal':
                for key in l.keys:
                    if key not in skip and key not in kws:
                        kws[key] = (l.values or {}).get(key)
            else:
                opaque = True
    return kws, opaque


def _truth(repo, mod, e):
    """True / False when the truth value of ``e`` is a constant of the source, else None"""
    if e is None:
        return None
    if isinstance(e, ast.Constant):
        return bool(e.value)
    sentinel = object()
    v = repo.try_fold(e, mod, sentinel)
    if v is sentinel or not isinstance(v, (bool, int, str, type(None))):
        return None
    return bool(v)


def _encoder_class_flags(repo, ci):
    """What makes ``ci().default(obj)`` raise: [(raising node, [flag attribute whose truth excludes it])], and for every
    flag how the constructor sets it: flag -> (keyword, default expr or None, module) or None when not followed."""
    d = repo.find_method(ci, 'default')
    if d is None or d.mod.external:
        return None, {}          # the stock hook: raises TypeError for everything it is asked about
    raising = [r for r in raises_of(d) if protected_by(d, r, 'Exception') is None]
    for c in walk_body(d.node):
        # delegating to the stock hook raises as well
        if isinstance(c, ast.Call) and call_tail(c) == 'default' and isinstance(c.func, ast.Attribute) and \
                ('super' in norm(c.func.value) or norm(c.func.value).endswith('JSONEncoder')) and protected_by(d, c, 'Exception') is None:
            raising.append(stmt_of(d.mod, c))
    out = []
    for r in raising:
        flags = [t.attr for t, p in conds(d, r) if p is False and isinstance(t, ast.Attribute) and isinstance(t.value, ast.Name) and t.value.id == 'self']
        out.append((r, flags))
    setters = {}
    init = repo.find_method(ci, '__init__')
    for flag in set(f for _, fl in out for f in fl):
        setters[flag] = None
        if init is None or init.mod.external:
            continue
        asg = [s for s in stmts_of(init.node) if isinstance(s, ast.Assign) and any(norm(t) == 'self.' + flag for t in s.targets)]
        others = [m for c in repo.mro(ci) if hasattr(c, 'methods') and not c.mod.external for m in c.methods.values() if m is not init and
                  any(isinstance(s, (ast.Assign, ast.AugAssign)) and any(norm(t) == 'self.' + flag for t in (s.targets if isinstance(s, ast.Assign) else [s.target]))
                      for s in stmts_of(m.node))]
        icfg = cfg_of(init)
        if len(asg) != 1 or others or not icfg.must_pass(icfg.nodes_of(asg[0]), icfg.entry, icfg.exit, normal_only=True):
            continue
        v = asg[0].value
        kwname = init.node.args.kwarg.arg if init.node.args.kwarg is not None else None
        a = init.node.args
        pos = [x.arg for x in a.posonlyargs + a.args]
        dflt = dict(zip(pos[len(pos) - len(a.defaults):], a.defaults))
        dflt.update((x.arg, dv_) for x, dv_ in zip(a.kwonlyargs, a.kw_defaults) if dv_ is not None)
        if isinstance(v, ast.Call) and isinstance(v.func, ast.Attribute) and v.func.attr in ('pop', 'get') and kwname is not None and \
                norm(v.func.value) == kwname and v.args and isinstance(v.args[0], ast.Constant) and isinstance(v.args[0].value, str) and not v.keywords:
            setters[flag] = (v.args[0].value, v.args[1] if len(v.args) > 1 else ast.Constant(value=None), init.mod)
        elif isinstance(v, ast.Name) and v.id in pos + [x.arg for x in a.kwonlyargs] and v.id != 'self' and \
                not any(isinstance(n, ast.Name) and n.id == v.id and isinstance(n.ctx, ast.Store) for n in walk_body(init.node)):
            setters[flag] = (v.id, dflt.get(v.id), init.mod)
    return out, setters


def _judge_encoder_construction(repo, mod, fnode, call, cls, skip=()):
    """(verdict, why) for ``cls(**keywords of call)``: _TOTAL when its hook for values JSON does not know returns text for
    everything, _PARTIAL when it can raise TypeError.  Raises _Unknown when the source does not say."""
    kws, opaque = _construction_keywords(repo, mod, fnode, call, skip)
    if not skip and call.args:
        # positional arguments of the construction, by the constructor's parameter names
        init = repo.find_method(cls, '__init__') if not isinstance(cls, str) else None
        names = [x.arg for x in init.node.args.posonlyargs + init.node.args.args][1:] if init is not None else []
        for i, a_ in enumerate(call.args):
            if isinstance(a_, ast.Starred) or i >= len(names):
                opaque = True
                break
            kws.setdefault(names[i], a_)
    raising, setters = _encoder_class_flags(repo, cls) if not isinstance(cls, str) and not cls.mod.external else (None, {})
    cname = cls if isinstance(cls, str) else cls.name
    if raising is None:
        hook = kws.get('default')
        if hook is None:
            if opaque:
                raise _Unknown('%s: cannot tell whether a default= hook is passed' % short(call, 60))
            return _PARTIAL, 'the stock JSONEncoder raises TypeError for every value it does not know and no default= hook is given'
        if _hook_is_text(hook):
            return _TOTAL, 'default=%s turns unknown values into text' % norm(hook)
        raise _Unknown('%s: the default= hook %s is not followed' % (short(call, 60), norm(hook)))
    for r, flags in raising:
        if not flags:
            return _PARTIAL, '%s.default() raises at line %d whatever the encoder was built with' % (cname, r.lineno)
        established = False
        unknown = None
        for flag in flags:
            st = setters.get(flag)
            if st is None:
                unknown = 'how %s.%s is set is not followed' % (cname, flag)
                continue
            key, dflt, imod = st
            if key in kws:
                tv = _truth(repo, mod, kws[key])
                if tv is None:
                    unknown = 'the value passed for %s (%s) is not a constant' % (key, norm(kws[key]) if kws[key] is not None else '?')
                established = established or tv is True
            elif opaque:
                unknown = 'cannot tell whether %s is passed' % key
            else:
                tv = _truth(repo, imod, dflt) if dflt is not None else None
                if dflt is None or tv is None:
                    unknown = '%s is not passed and has no constant default' % key
                established = established or tv is True
        if established:
            continue
        if unknown:
            raise _Unknown('%s: %s' % (short(call, 60), unknown))
        keys = sorted(set(setters[f][0] for f in flags if setters.get(f)))
        return _PARTIAL, '%s.default() raises TypeError (line %d) for a value it cannot convert unless %s is set, and this encoder is built without it' \
            % (cname, r.lineno, ' / '.join(keys))
    return _TOTAL, '%s.default() falls back to text for unknown values (%s)' % (
        cname, ', '.join(sorted(set('%s=%s' % (setters[f][0], norm(kws[setters[f][0]]) if setters[f][0] in kws and kws[setters[f][0]] is not None else 'default')
                                     for _, fl in raising for f in fl if setters.get(f))) or 'it never raises'))


def _encoder_constructions(repo, mod, fnode, cls, e, depth=0):
    """[(module, function node or None, construction call, encoder class)] the expression ``e`` (the receiver of an
    ``.encode(obj)`` / ``.iterencode(obj)``) can denote; [] when it is not a JSON encoder; _Unknown when it may be one but
    is not followed."""
    if depth > 5:
        raise _Unknown('%s: too many steps to the encoder' % norm(e))
    if isinstance(e, ast.Call):
        c = _callee_class(repo, mod, e.func)
        if _is_json_encoder_class(repo, c):
            return [(mod, fnode, e, c)]
        return []
    if isinstance(e, ast.IfExp):
        return _encoder_constructions(repo, mod, fnode, cls, e.body, depth + 1) + _encoder_constructions(repo, mod, fnode, cls, e.orelse, depth + 1)
    if isinstance(e, ast.Name):
        from ..astutil import assigned_value
        if fnode is not None:
            a = fnode.args
            if e.id in [x.arg for x in a.posonlyargs + a.args + a.kwonlyargs]:
                return []
            av = assigned_value(fnode, e.id)
            if av:
                out = []
                for st, val, idx in av:
                    if idx is not None or not isinstance(st, ast.Assign):
                        return []
                    out.extend(_encoder_constructions(repo, mod, fnode, cls, val, depth + 1))
                return out
        kind, m2, vals = repo.resolve(mod, e.id)
        if kind == 'value':
            out = []
            for v in vals:
                if v is None or not isinstance(v, ast.expr):
                    return []
                out.extend(_encoder_constructions(repo, m2, None, None, v, depth + 1))
            return out
        return []
    if isinstance(e, ast.Attribute) and isinstance(e.value, ast.Name) and e.value.id in ('self', 'cls') and cls is not None:
        dc, val = repo.class_attr(cls, e.attr)
        if dc is not None and isinstance(val, ast.expr):
            return _encoder_constructions(repo, dc.mod, None, None, val, depth + 1)
        # set per instance: every assignment in the class family must be a followed construction
        out, n = [], 0
        for c in repo.mro(cls):
            if not hasattr(c, 'methods') or c.mod.external:
                continue
            for m in c.methods.values():
                for s in stmts_of(m.node):
                    if isinstance(s, ast.Assign) and any(norm(t) == 'self.' + e.attr for t in s.targets):
                        n += 1
                        out.extend(_encoder_constructions(repo, c.mod, m.node, c, s.value, depth + 1))
        if n and len(out) < n:
            if out:
                raise _Unknown('self.%s is not always bound to a followed encoder construction' % e.attr)
            return []
        return out
    return []


def check_json_encoder_total(rep, rule):
    """The fallback renderer (default_render_error) adapts the error with the same to_* serialisers as the primary
    renderer, so a serialiser that raises on the error's data cannot be rescued.  JSON: the fields of an error (detail,
    error_type, the request context of the debug pages) are arbitrary objects; every JSON encoding in a to_* serialiser
    of the HTTPException family must therefore go through a *total* encoder -- one whose hook for values JSON does not
    know (``default``) returns text instead of raising TypeError.  Decided from the encoder's class (which conditions
    guard the ``raise`` in ``default``), its constructor (which keyword sets that flag) and the construction the
    serialiser uses (what it passes), wherever that construction lives (local, module constant, class attribute)."""
    repo = rep.repo
    err = repo.mod(ERR)
    from .c09 import _escape_scope
    base = err.cls('HTTPException')
    fam = [base] + repo.subclasses(base, [err])
    n, gaps, seen = 0, [], set()
    for c in fam:
        for name, m in sorted(c.methods.items()):
            if not name.startswith('to_'):
                continue
            for fi in _escape_scope(repo, err, m):
                for call in walk_body(fi.node):
                    if not isinstance(call, ast.Call) or id(call) in seen:
                        continue
                    cons = None
                    try:
                        if isinstance(call.func, ast.Attribute) and call.func.attr in ('encode', 'iterencode') and len(call.args) == 1 and \
                                not (isinstance(call.args[0], ast.Constant) and isinstance(call.args[0].value, str)):
                            cons = _encoder_constructions(repo, fi.mod, fi.node, fi.cls, call.func.value)
                            cons = [(m_, f_, cc, k_, ()) for m_, f_, cc, k_ in cons]
                        elif call_tail(call) in ('dumps', 'dump') and call.args:
                            tgt = _callee_class(repo, fi.mod, call.func) if not isinstance(call.func, ast.Name) else repo.resolve(fi.mod, call.func.id)[2]
                            if isinstance(tgt, str) and tgt.split('.')[0] in ('json', 'simplejson'):
                                kc = kwarg(call, 'cls')
                                k_ = _callee_class(repo, fi.mod, kc) if kc is not None else 'json.JSONEncoder'
                                if kc is not None and not _is_json_encoder_class(repo, k_):
                                    raise _Unknown('%s: the encoder class %s is not followed' % (short(call, 60), norm(kc)))
                                cons = [(fi.mod, fi.node, call, k_, ('cls',))]
                        if not cons:
                            continue
                        seen.add(id(call))
                        verdicts = [_judge_encoder_construction(repo, m_, f_, cc, k_, skip) + (cc,) for m_, f_, cc, k_, skip in cons]
                    except _Unknown as u:
                        gaps.append('%s: %s' % (fi.qualname, u))
                        n += 1
                        continue
                    n += 1
                    bad = [(why, cc) for v, why, cc in verdicts if v != _TOTAL]
                    rep.check(rule, fkey(fi, 'json encoder of ' + norm(call)[:60]), not bad,
                              'JSON encoding of error data cannot raise on an unknown value: ' + '; '.join(sorted(set(why for v, why, cc in verdicts))) if not bad else
                              '%s.%s encodes the error\'s data with %s: %s -- a detail / error_type / request value that is not JSON-native makes the '
                              'JSON rendering raise TypeError inside render_error and again inside its default_render_error fallback, so the exception '
                              'reaches the WSGI server' % (c.name, name, short(bad[0][1], 70), bad[0][0]), fi.mod, call)
    if gaps:
        raise AnalysisError('JSON encoding in the error serialisers not followed: ' + '; '.join(gaps))
    if n < 1:
        raise AnalysisError('no JSON encoding found in the to_* serialisers of the HTTPException family')


def _strict_codec_call(c):
    """``x.decode(...)`` / ``x.encode('ascii'|'latin-1')`` with strict error handling on a non-literal receiver."""
    if not (isinstance(c, ast.Call) and isinstance(c.func, ast.Attribute) and c.func.attr in ('decode', 'encode')):
        return None
    if isinstance(c.func.value, ast.Constant):
        return None
    if c.args and not (isinstance(c.args[0], ast.Constant) and isinstance(c.args[0].value, str)):
        return None      # not a codec call (e.g. a JSON encoder's .encode(obj))
    errs = c.args[1] if len(c.args) > 1 else kwarg(c, 'errors')
    if errs is not None:
        if isinstance(errs, ast.Constant) and errs.value != 'strict':
            return None
        return 'decode' if c.func.attr == 'decode' else 'encode'
    if c.func.attr == 'encode':
        codec = (c.args[0].value if c.args else 'utf-8').lower().replace('_', '-')
        if codec in ('utf8', 'utf-8', 'utf-16', 'utf-32'):
            return None      # total on text without lone surrogates (werkzeug decodes with errors="replace")
        return 'encode'
    return 'decode'


def check_total_decoding(rep, rule, rp):
    """Bytes that come from the client are arbitrary.  On the part of the request path that is *not* under a handler
    (everything reachable from Application.__call__ through call sites no ``except`` clause covers), a strict
    ``.decode`` raises UnicodeDecodeError for some request and that exception reaches the WSGI server."""
    ctl = ast.parse("def f(r):\n    a = r.q.decode('utf8')\n    b = r.q.decode('utf8', 'replace')\n    c = enc.encode(obj)\n")
    if [_strict_codec_call(c) for c in ast.walk(ctl) if isinstance(c, ast.Call)] != ['decode', None, None]:
        raise AnalysisError('positive control for the strict-codec detector failed')

    def covered(fi, node, kind):
        return protected_by(fi, node, 'UnicodeDecodeError' if kind == 'decode' else 'UnicodeEncodeError')
    unprot = rp.cg.reachable([rp.root], stop=lambda e: e.kind == 'prop' or protected_by(e.caller, e.node, 'UnicodeDecodeError') is not None)
    n = 0
    for fi, path in unprot.items():
        if fi.mod.external:
            continue
        n += 1
        for c in walk_body(fi.node):
            kind = _strict_codec_call(c)
            if kind is None:
                continue
            h = covered(fi, c, kind)
            rep.check(rule, fkey(fi, norm(c)[:80]), h is not None,
                      'strict %s is under "except %s"' % (kind, norm(h.type) if h is not None and h.type is not None else '<bare>') if h is not None else
                      '%s is strict and no handler on the way from Application.__call__ covers it (%s): a request whose bytes are '
                      'not valid in that codec raises Unicode%sError out to the WSGI server instead of getting a response'
                      % (short(c), path_text(path) or 'called directly', kind.capitalize()), fi.mod, c)
    rep.ok(rule, 'clastic::unprotected request path', '%d clastic functions are reachable from Application.__call__ through call '
           'sites that no handler covers; their strict byte/text conversions were checked' % n)
    if n < 5:
        raise AnalysisError('unprotected request path has only %d functions (floor 5)' % n)


def check_no_shared_store(rep, rule, rp=None):
    from .. import effects
    rp = rp or RequestPath(rep.repo)
    # positive control
    ctl = ast.parse('class A:\n    def dispatch(self, request):\n        self.last = request\n        request.x = 1\n')
    fn = ctl.body[0].body[0]
    effs = effects.effects_in(fn)
    if len(effs) != 2:
        raise AnalysisError('positive control for the effect detector failed')
    n_funcs = 0
    seen_funcs = set()
    for fi, e, cls, why, path in rp.effects():
        seen_funcs.add(fi)
        key = '%s::%s' % (fi.key, norm(e.node)[:90])
        rep.check(rule, key, cls != 'shared',
                  '%s (%s)' % (cls, why) if cls != 'shared' else
                  'store into a shared object on the request path (%s): per-request data would outlive the request / leak between '
                  'requests; reached via %s' % (why, path_text(path)), fi.mod, e.node)
    for ci, m, field, st_, fresh in rp.field_freshness():
        rep.check(rule, '%s::%s::self.%s = %s' % (ci.mod.name, m.qualname, field, norm(st_.value)[:60]), fresh,
                  'per-request field %s (mutated in place elsewhere) is assigned a freshly allocated object' % field if fresh else
                  '%s.%s is mutated in place by the class but is assigned %s here: the per-request object aliases a longer-lived '
                  'object (e.g. a route\'s own method set) and later mutates it -- a request would change state that outlives it'
                  % (ci.name, field, short(st_.value)), ci.mod, st_)
    for fi in rp.reach:
        if not fi.mod.external and fi not in seen_funcs:
            n_funcs += 1
    rep.ok(rule, 'clastic::request path', '%d functions reachable from Application.__call__ analysed (%d without any heap effect); '
           'dynamic roots: %s' % (len([x for x in rp.reach if not x.mod.external]), n_funcs,
                                  sorted(set(r for _, r in rp.dynamic_roots))[:4]))
    rep.floor(rule, 20)


# ---------------------------------------------------------------------------------------------- R08.j: before dispatch is entered
def check_boundary_stores(rep, rule):
    """Between the WSGI entry point and the call of dispatch no error handler is in charge yet: whatever raises there reaches
    the WSGI server.  The request object is an instance of the application's configurable request type, which may refuse
    assignment (read-only properties, slots, a ``__setattr__`` of its own) -- so every attribute / item store or delete on
    it in that stretch is *contained*: it sits in the body of a ``try`` whose handler for Exception lets nothing out, or it
    runs only when such a contained store on the same object has completed (the ``else`` of that try, or further down its
    body) and is never reached through the handler."""
    from ..astutil import names_stored
    repo = rep.repo
    app = repo.mod(APP)
    dw = app.func('Application._dispatch_wsgi')
    dc = [c for c in walk_body(dw.node) if isinstance(c, ast.Call) and norm(c.func) == 'self.dispatch']
    if len(dc) != 1 or not dc[0].args or not isinstance(dc[0].args[0], ast.Name):
        raise AnalysisError('_dispatch_wsgi: the request handed to self.dispatch(...) is not a plain local')
    names = {dc[0].args[0].id}
    grew = True
    while grew:
        grew = False
        for s in stmts_of(dw.node):
            if isinstance(s, ast.Assign) and len(s.targets) == 1 and isinstance(s.targets[0], ast.Name) and isinstance(s.value, ast.Name) and \
                    s.value.id in names and s.targets[0].id not in names:
                names.add(s.targets[0].id)
                grew = True

    def on_request(t):
        while isinstance(t, (ast.Attribute, ast.Subscript)):
            t = t.value
            if isinstance(t, ast.Name):
                return t.id in names
        return False

    def flat(ts):
        for t in ts:
            if isinstance(t, (ast.Tuple, ast.List)):
                for x in flat(t.elts):
                    yield x
            elif isinstance(t, ast.Starred):
                for x in flat([t.value]):
                    yield x
            else:
                yield t
    stores = []
    for s in stmts_of(dw.node):
        ts = []
        if isinstance(s, ast.Assign):
            ts = list(flat(s.targets))
        elif isinstance(s, (ast.AugAssign, ast.AnnAssign)):
            ts = [s.target] if getattr(s, 'value', None) is not None else []
        elif isinstance(s, ast.Delete):
            ts = list(flat(s.targets))
        elif isinstance(s, (ast.For, ast.AsyncFor)):
            ts = list(flat([s.target]))
        elif isinstance(s, (ast.With, ast.AsyncWith)):
            ts = list(flat([i.optional_vars for i in s.items if i.optional_vars is not None]))
        hit = [t for t in ts if on_request(t)]
        if not hit and isinstance(s, ast.Expr) and isinstance(s.value, ast.Call) and call_name(s.value) in ('setattr', 'delattr') and \
                s.value.args and isinstance(s.value.args[0], ast.Name) and s.value.args[0].id in names:
            hit = [s.value]
        for t in hit:
            stores.append((s, t))
    cfg = cfg_of(dw)
    disp = cfg.nodes_of(stmt_of(app, dc[0]))
    contained = {}
    for s, t in stores:
        h = protected_by(dw, s, 'Exception')
        if h is not None and not any(isinstance(x, ast.Raise) for x in ast.walk(h)):
            contained[id(s)] = h
    for s, t in stores:
        if not (set(disp) & cfg.reach(cfg.nodes_of(s), include_src=False)):
            continue          # dispatch does not follow it (a store after dispatch returned): not this rule's stretch
        ok = id(s) in contained
        how = 'inside a try whose handler for Exception lets nothing out'
        if not ok:
            for s0, t0 in stores:
                h0 = contained.get(id(s0))
                if h0 is None or s0 is s:
                    continue
                if cfg.must_pass(cfg.nodes_of(s0), cfg.entry, cfg.nodes_of(s)) and \
                        not (set(cfg.nodes_of(s)) & cfg.reach(cfg.handler_nodes(h0), avoid=cfg.nodes_of(s0))):
                    ok, how = True, 'only after the contained store %s has completed' % short(s0, 50)
                    break
        rep.check(rule, fkey(dw, 'store before dispatch: ' + norm(t)[:60]), ok,
                  '%s runs %s' % (short(s, 60), how) if ok else
                  '%s runs before dispatch outside every handler, also when the request object has just refused a store: a request type that '
                  'does not take the assignment (read-only property, slots) makes it raise, and nothing between the WSGI entry point and '
                  'dispatch turns that into a response -- the exception reaches the WSGI server' % short(s, 60), app, s)
    if not stores:
        rep.ok(rule, fkey(dw, 'no store before dispatch'), 'nothing is stored on the request object before dispatch is entered', app, dw.node)


# ---------------------------------------------------------------------------------------------- R08.k: keywords of the error constructors
def _keyword_fate(repo, cls, key):
    """What happens to keyword ``key`` handed to ``cls(...)``, followed along the constructors of the MRO:
    ('taken', init)    a constructor declares it as a parameter or pops it from its ** mapping;
    ('ignored', init)  it arrives in a ** mapping that is neither handed on nor checked for leftovers;
    ('rejected', init or None)  it arrives at a constructor without ** mapping that does not declare it (None: a
                       builtin's), or at one that raises when its ** mapping has leftovers."""
    from ..loader import ClassInfo
    mro = repo.mro(cls)
    i = 0
    for _ in range(len(mro) + 2):
        j = next((x for x in range(i, len(mro)) if isinstance(mro[x], ClassInfo) and '__init__' in mro[x].methods), None)
        if j is None:
            return 'rejected', None
        init = mro[j].methods['__init__']
        a = init.node.args
        if key in [x.arg for x in a.args[1:] + a.kwonlyargs]:
            return 'taken', init
        if a.kwarg is None:
            return 'rejected', init
        kwn = a.kwarg.arg
        for c in walk_body(init.node):
            if isinstance(c, ast.Call) and norm(c.func) == '%s.pop' % kwn and c.args and isinstance(c.args[0], ast.Constant) and c.args[0].value == key:
                return 'taken', init
        for s in stmts_of(init.node):
            if isinstance(s, ast.If) and norm(s.test) in (kwn, 'len(%s)' % kwn, 'len(%s) > 0' % kwn, '%s != {}' % kwn) and \
                    any(isinstance(x, ast.Raise) for b in s.body for x in ast.walk(b)):
                return 'rejected', init
        fwd = [c for c in walk_body(init.node) if isinstance(c, ast.Call) and call_tail(c) == '__init__' and
               any(k.arg is None and norm(k.value) == kwn for k in c.keywords)]
        if not fwd:
            return 'ignored', init
        recv = fwd[0].func.value
        if isinstance(recv, ast.Call) and call_name(recv) == 'super':
            i = j + 1
        else:
            base = repo.resolve_class(init.mod, recv)
            idx = [x for x in range(len(mro)) if mro[x] is base]
            if not idx:
                raise AnalysisError('%s: the constructor it hands its keywords to (%s) is not a base of %s' % (init.qualname, norm(recv), cls.name))
            i = idx[0]
    raise AnalysisError('%s: constructor chain not followed' % cls.name)


def _star_keys(repo, fi, e, depth=0):
    """The keys of the mapping ``fi`` passes as ``**e``: a dict display / dict(..) call, a local built from such (plus
    item stores / .update with literal keys), or the function's own ** parameter -- then the keywords its callers in the
    package pass beyond its declared parameters.  AnalysisError when a part of the mapping has keys that are not literal."""
    from .. import layers
    from ..astutil import names_stored
    if depth > 3:
        raise AnalysisError('%s: the ** mapping is handed on too many times to be followed' % fi.qualname)
    a = fi.node.args
    if isinstance(e, ast.Name) and a.kwarg is not None and e.id == a.kwarg.arg and \
            not any(e.id in names_stored(s) for s in stmts_of(fi.node)):
        declared = set(x.arg for x in a.posonlyargs + a.args + a.kwonlyargs)
        keys, n = [], 0
        for m in repo.all_internal_modules():
            for caller in m.functions.values():
                for c in walk_body(caller.node):
                    if not (isinstance(c, ast.Call) and call_tail(c) == fi.node.name and caller is not fi):
                        continue
                    n += 1
                    for k in c.keywords:
                        if k.arg is None:
                            keys.extend(_star_keys(repo, caller, k.value, depth + 1))
                        elif k.arg not in declared:
                            keys.append(k.arg)
        if not n:
            raise AnalysisError('%s: no caller found from which its ** parameter could be followed' % fi.qualname)
        return sorted(set(keys))
    lay = layers.layers_of_var(fi.node, e.id, 3) if isinstance(e, ast.Name) else layers.layers_of_expr(e)
    keys = []
    for l in lay:
        if l.kind != 'literal':
            raise AnalysisError('%s: the ** mapping %s takes keys from %s (not followed)' % (fi.qualname, norm(e)[:40], l.text[:40]))
        keys.extend(l.keys or [])
    if not lay:
        raise AnalysisError('%s: the ** mapping %s is not a dict built in this function' % (fi.qualname, norm(e)[:40]))
    return sorted(set(keys))


def check_error_constructor_keywords(rep, rule):
    """The error handler names, in class attributes (``server_error_type``, ``not_found_type``, ...), the HTTPException
    classes the framework builds its own errors from, and the framework hands each of them a fixed set of keywords --
    whatever class the slot holds.  Building the error happens where no handler is left to catch a TypeError (inside the
    conversion of an uncaught exception, in the null route, in dispatch's strict-slash branch).  So every keyword a call of
    such a slot passes is accepted by every class any handler of the family puts into that slot: along the constructors of
    the MRO it is declared, popped, or ends in a ** mapping nobody checks -- never at a constructor that refuses it."""
    repo = rep.repo
    err = repo.mod(ERR)
    ehc = err.cls('ErrorHandler')
    http = err.cls('HTTPException')
    fam = [ehc] + repo.subclasses(ehc)
    slots = {}
    for c in fam:
        for name, val in c.class_attrs.items():
            if isinstance(val, ast.Name):
                k, m, obj = repo.resolve(c.mod, val.id)
                if k == 'class' and any(x is http for x in repo.mro(obj)):
                    if not any(o is obj for _, o in slots.get(name, [])):
                        slots.setdefault(name, []).append((c, obj))
    if not slots:
        raise AnalysisError('ErrorHandler family: no class attribute naming an HTTPException class found')
    n_sites = 0
    for m in repo.all_internal_modules():
        for fi in m.functions.values():
            for c in walk_body(fi.node):
                if not isinstance(c, ast.Call):
                    continue
                f = resolve_local(fi.node, c.func)
                if not (isinstance(f, ast.Attribute) and f.attr in slots):
                    continue
                n_sites += 1
                keys = [k.arg for k in c.keywords if k.arg is not None]
                for k in c.keywords:
                    if k.arg is None:
                        keys.extend(x for x in _star_keys(repo, fi, k.value) if x not in keys)
                for hc, ec in slots[f.attr]:
                    bad = []
                    for key in keys:
                        fate, init = _keyword_fate(repo, ec, key)
                        if fate == 'rejected':
                            bad.append('%s (refused by %s)' % (key, init.qualname if init is not None else 'a builtin constructor'))
                    rep.check(rule, '%s::%s(..)::%s' % (fi.key, f.attr, ec.name), not bad,
                              '%s accepts the keywords %s passes to %s (%s)' % (ec.name, fi.qualname, f.attr, ', '.join(keys) or 'none') if not bad else
                              '%s builds its error with %s(%s), and %s -- the %s of %s -- refuses %s: with that handler configuration the '
                              'TypeError is raised while the error response is being built, where nothing is left to catch it, and reaches the '
                              'WSGI server instead of a 500 / 404 / 405' % (fi.qualname, f.attr, ', '.join('%s=' % k_ for k_ in keys), ec.name, f.attr, hc.name,
                                                                          '; '.join(bad)), m, c)
    if n_sites < 3:
        raise AnalysisError('calls of the error type slots (%s) not found (%d, floor 3)' % (', '.join(sorted(slots)), n_sites))
