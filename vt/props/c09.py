"""C09 -- Error responses: right status, negotiated format, everything escaped.

Decided:
  R09.a  status table: every HTTPException subclass with a literal code carries the standard code of its
         name (matched against http.HTTPStatus), 4xx derive from BadRequest, 5xx from InternalServerError,
         no two classes share a code; the status handed to BaseResponse is the instance code
         (kwargs.pop('code', self.code)): the read of self.code that produces it -- in the call, in a local, in a
         **dict -- is evaluated after the one override of self.code; renderings made inside the constructor
         (default body, adapt) come after the writes of the fields they read;
  R09.b  format table: every format of MIME_SUPPORT_MAP has a to_<fmt> method; DEFAULT_MIME is a key; in
         adapt() body and Content-Type come from the same (format, mimetype) pair on both branches (the
         fallback for an unsupported type -- KeyError handler, ``not in`` branch, ``.get() is None`` branch, or ``.get(key, D)``
         with D a private marker object / a constant no format of the table equals and the branch that tells D --
         is a pair of the table); render_error and default_render_error negotiate over the same table and adapt
         the error to the winner;
  R09.c  escaping: to_html / to_xml interpolate only the result of to_escaped_dict(), in which every
         stored value is '' or html_escape(x, True) on every path (quote=True because error_type is placed
         inside an attribute) -- or they render a shipped ashes template (R09.d);
  R09.d  templates: the 500/404 debug templates escape every reference under ashes' filter semantics and
         nothing switches autoescaping off; the template names rendered are the ones registered;
  R09.e  the JSON body carries code/message/detail/error_type: to_json encodes self.to_dict(), the base
         to_dict has the four keys, overrides extend the super() result; base / override agreement on the other keys: a key an
         override deletes, reads by subscript or pops without default from the mapping its base class's to_dict() returned is a
         key that method stores on every path (or the access tolerates the missing key: pop(K, d), ``K in ret``, KeyError handler).
Also decided (necessary conditions found clause by clause):
  R09.a  the handler's slots not_found_type / method_not_allowed_type / server_error_type hold error types with status 404 / 405 /
         500 in ErrorHandler and every subclass; every uncaught_to_response answers with an instance of a server_error_type slot;
         a constructor of an error type hands its **kwargs (none of the keys HTTPException.__init__ reads taken out or overwritten),
         *args and detail to the next constructor, once, on every path; nothing writes code / message / detail / error_type on a class;
  R09.b  best_match(table, default): the default is None or a plain-text type of the table; the charset of the Content-Type is
         self.charset; the format table is never modified (stores, mutating methods, global re-binding, in any module that sees it);
         an adapt() of a subclass defers to the inherited one or obeys the same pairing rule; every render_error of the ErrorHandler
         family negotiates like the base one; the way an error takes to those renderers: every value a route's execute_error()
         returns is the result of running its render_error (never the error it was given, never nothing -- anything else is an
         exception), and where the application calls execute_error() a handler catching Exception answers, on every normal path,
         with the default renderer; the response returned is one of those two results; and no error leaves that function
         unrendered: wherever it returns the variable it renders, every path from the last binding of the variable has run a
         renderer or passed a test that the value is no HTTPException -- whichever way the loop over the routes ends (break,
         return, exhaustion; the non-breaking error a later route hands back included);
  R09.c  to_html / to_xml are the methods each class of the family *resolves* to (mixins outside the family included); a
         to_escaped_dict() of a subclass obeys the same rule (or extends the inherited mapping with escaped values); placeholders of
         the constant templates never stand in a tag outside quotes; the folded template of to_xml, placeholders replaced by text,
         is one well-formed XML element (xml.etree on a constant of the source).
Declined: well-formedness of produced bytes, Accept negotiation inside werkzeug, JSON parseability.

Constructs are located by role: values are followed through single-assignment locals (``local_value``; also a local that is
encoded in place, ``t = V`` / ``if not isinstance(t, bytes): t = t.encode(cs, ..)``, which stands for the encoded form of V), through
straight-line helper functions the loader could not inline (``call_result_expr``, ``value_leaves``), through
``**local_dict`` (``call_keywords``), loops over literal tables and comprehension / loop spellings.  A template is
constant when it folds from literals and module constants (``fold_in_function``: a template generated from a constant
table of field names); the (format, mimetype) lookup of adapt() may be one parallel assignment; a renderer may hand
its error to the one function -- of this or another module -- that negotiates, adapts and returns it (``adapt_site``).
"""
import ast
import copy
import http
import re

from ..core import AnalysisError, norm, short
from ..loader import ClassInfo, Unfoldable
from ..astutil import assigned_value, argn, names_stored
from ..layers import layers_of_var, layers_of_expr
from .c20 import check_template_escaping, autoescape_writes
from ..cfg import expand_conds
from .common import (cfg_of, fkey, conds, has_cond, implies_absent, cond_texts, stmts_of, walk_body, call_tail, call_name,
                     returns_of, raises_of, raise_type, stmt_of, kwarg, protected_by)

ERR = 'clastic.errors'
TABLE = 'MIME_SUPPORT_MAP'
ALIASES = {}   # class name -> HTTPStatus member name, for names the CamelCase rule cannot derive


def snake(name):
    s = re.sub(r'(?<=[a-z0-9])(?=[A-Z])|(?<=[A-Z])(?=[A-Z][a-z])', '_', name)
    return s.upper()


# ---------------------------------------------------------------------------------------------- value following
def _param_names(fi):
    a = fi.node.args
    out = [x.arg for x in a.posonlyargs + a.args + a.kwonlyargs]
    if a.vararg:
        out.append(a.vararg.arg)
    if a.kwarg:
        out.append(a.kwarg.arg)
    return out


def _name_stores(fi, name):
    """Every binding occurrence of a local name in the function (assignment targets, loop / with / comprehension
    targets, handler names, imports, nested definitions)."""
    out = []
    for n in walk_body(fi.node):
        if isinstance(n, ast.Name) and n.id == name and isinstance(n.ctx, (ast.Store, ast.Del)):
            out.append(n)
        elif isinstance(n, ast.ExceptHandler) and n.name == name:
            out.append(n)
        elif isinstance(n, (ast.FunctionDef, ast.AsyncFunctionDef, ast.ClassDef)) and n.name == name:
            out.append(n)
        elif isinstance(n, (ast.Import, ast.ImportFrom)) and any((a.asname or a.name).split('.')[0] == name for a in n.names):
            out.append(n)
    return out


def local_value(fi, name, use_stmt=None):
    """The expression a local holds at ``use_stmt``: the local has exactly one binding in the function, a plain
    ``name = expr``, which dominates the use, and nothing in between re-binds a name the expression reads.
    None otherwise (parameters, loop variables, re-assigned locals, globals)."""
    if name in _param_names(fi):
        return None
    stores = _name_stores(fi, name)
    if len(stores) == 2 and all(isinstance(x, ast.Name) for x in stores):
        # ``if isinstance(t, bytes): name = t / else: name = t.encode(cs, ..)``: one value, the encoded form of ``t``
        enc = _encoded_arms(fi, [stmt_of(fi.mod, x) for x in stores], lambda s_: s_.value if isinstance(s_, ast.Assign) and
                            len(s_.targets) == 1 and isinstance(s_.targets[0], ast.Name) and s_.targets[0].id == name else None)
        if enc is not None:
            st, val = enc
            return _dominating_value(fi, st, val, use_stmt)
        # ``name = V`` / ``if not isinstance(name, bytes): name = name.encode(cs, ..)``: after the test the local holds the encoded
        # form of V (V itself when it is bytes already), before it V
        own = _self_encoded(fi, name, [stmt_of(fi.mod, x) for x in stores])
        if own is not None:
            first, test, second, val = own
            if use_stmt is None:
                return val
            if use_stmt is test or use_stmt is second:
                return _dominating_value(fi, first, first.value, use_stmt)
            if use_stmt is first or _dominating_value(fi, first, first.value, test) is None:
                return None
            return _dominating_value(fi, test, val, use_stmt)
    if len(stores) != 1 or not isinstance(stores[0], ast.Name):
        return None
    st = stmt_of(fi.mod, stores[0])
    if not isinstance(st, ast.Assign) or not any(t is stores[0] for t in st.targets):
        return None
    val = st.value
    return _dominating_value(fi, st, val, use_stmt)


def strip_encode(e):
    """``x.encode(cs, ..)`` -> ``x`` (the text a body expression encodes)."""
    while isinstance(e, ast.Call) and isinstance(e.func, ast.Attribute) and e.func.attr == 'encode' and \
            (e.args or any(k.arg in ('encoding', 'errors') for k in e.keywords)):
        e = e.func.value
    return e


def _encoded_arms(fi, stmts, value_of):
    """Two statements that are the two arms of ``if isinstance(T, bytes): <store T> / else: <store T.encode(..)>`` (each arm
    exactly that statement): -> (the if statement, the encode call); None otherwise.  ``value_of(stmt)`` gives the stored
    expression of an arm (or None)."""
    if len(stmts) != 2:
        return None
    pa, pb = fi.mod.parents.get(stmts[0]), fi.mod.parents.get(stmts[1])
    if pa is not pb or not isinstance(pa, ast.If) or len(pa.body) != 1 or len(pa.orelse) != 1:
        return None
    t = pa.test
    neg = False
    if isinstance(t, ast.UnaryOp) and isinstance(t.op, ast.Not):
        t, neg = t.operand, True
    if not (isinstance(t, ast.Call) and isinstance(t.func, ast.Name) and t.func.id == 'isinstance' and len(t.args) == 2 and
            isinstance(t.args[0], ast.Name) and norm(t.args[1]) == 'bytes'):
        return None
    x = t.args[0].id
    raw_arm, enc_arm = (pa.orelse[0], pa.body[0]) if neg else (pa.body[0], pa.orelse[0])
    rv, ev = value_of(raw_arm), value_of(enc_arm)
    if rv is None or ev is None or not (isinstance(rv, ast.Name) and rv.id == x):
        return None
    if not (isinstance(ev, ast.Call) and isinstance(ev.func, ast.Attribute) and ev.func.attr == 'encode' and
            isinstance(ev.func.value, ast.Name) and ev.func.value.id == x):
        return None
    return pa, ev


def _bytes_test(t):
    """(x, negated) for the test ``isinstance(x, bytes)`` / ``not isinstance(x, bytes)`` on a name x; None otherwise."""
    neg = False
    if isinstance(t, ast.UnaryOp) and isinstance(t.op, ast.Not):
        t, neg = t.operand, True
    if isinstance(t, ast.Call) and isinstance(t.func, ast.Name) and t.func.id == 'isinstance' and len(t.args) == 2 and not t.keywords and \
            isinstance(t.args[0], ast.Name) and norm(t.args[1]) == 'bytes':
        return t.args[0].id, neg
    return None


def _self_encoded(fi, name, stmts):
    """The two bindings of a local that is encoded in place: ``name = V`` followed, in the same statement list, by
    ``if not isinstance(name, bytes): name = name.encode(cs, ..)`` (that statement alone in its arm, nothing in the other arm; the
    arguments of encode read nothing the function re-binds) -> (first binding, the if statement, second binding, the expression
    ``V.encode(cs, ..)`` that stands for what the local holds after the if statement); None otherwise.  The expression is built
    from the nodes of the tree; ``_vt_stmt`` names the statement its text part is evaluated in."""
    if len(stmts) != 2:
        return None
    plain = lambda s: isinstance(s, ast.Assign) and len(s.targets) == 1 and isinstance(s.targets[0], ast.Name) and s.targets[0].id == name
    first, second = stmts
    if not (plain(first) and plain(second)):
        return None
    e = second.value
    if not (isinstance(e, ast.Call) and isinstance(e.func, ast.Attribute) and e.func.attr == 'encode' and isinstance(e.func.value, ast.Name) and
            e.func.value.id == name and strip_encode(e) is e.func.value):
        return None
    test = fi.mod.parents.get(second)
    if not isinstance(test, ast.If):
        return None
    bt = _bytes_test(test.test)
    if bt is None or bt[0] != name:
        return None
    idle = lambda arm: all(isinstance(s, ast.Pass) for s in arm)
    if not ((bt[1] and test.body == [second] and idle(test.orelse)) or (not bt[1] and test.orelse == [second] and idle(test.body))):
        return None
    holder = fi.mod.parents.get(first)
    block = [b for b in (getattr(holder, f, None) for f in ('body', 'orelse', 'finalbody')) if isinstance(b, list) and first in b]
    if holder is not fi.mod.parents.get(test) or not block or test not in block[0] or block[0].index(first) > block[0].index(test):
        return None
    for a in list(e.args) + [k.value for k in e.keywords]:
        for n in ast.walk(a):
            if isinstance(n, ast.Name) and _name_stores(fi, n.id):
                return None
    if any(isinstance(n, ast.Name) and n.id == name for n in ast.walk(first.value)):
        return None
    val = ast.copy_location(ast.Call(func=ast.copy_location(ast.Attribute(value=first.value, attr='encode', ctx=ast.Load()), e.func),
                                     args=list(e.args), keywords=list(e.keywords)), e)
    val._vt_stmt = first
    return first, test, second, val


def _dominating_value(fi, st, val, use_stmt):
    if use_stmt is None or use_stmt is st:
        return val if use_stmt is None else None
    cfg = cfg_of(fi)
    ids, uses = cfg.nodes_of(st), cfg.nodes_of(use_stmt)
    if not ids or not uses:
        return None
    for u in uses:
        if not cfg.must_pass(ids, cfg.entry, u):
            return None
        after = [m for x in ids for m in cfg.succ[x]]
        mid = (cfg.reach(after, avoid=ids) & cfg.coreach([u], avoid=ids)) - {u}
        if cfg._kills(val, mid):
            return None
    return val


def _use_stmt(fi, node):
    try:
        return stmt_of(fi.mod, node)
    except Exception:
        return None


def expand_expr(fi, expr, use_stmt=None, depth=0, keep=()):
    """A copy of ``expr`` in which single-assignment locals are replaced by the expressions they name (``body =
    self.to_text(); f(response=body)`` reads as ``f(response=self.to_text())``).  ``use_stmt``: the statement the
    expression belongs to (found through the parent map when omitted); ``keep``: names left as they are."""
    if expr is None:
        return None
    if use_stmt is None:
        use_stmt = _use_stmt(fi, expr)
    if use_stmt is None or depth > 6:
        return copy.deepcopy(expr)
    shadowed = set(keep)
    for n in ast.walk(expr):
        if isinstance(n, ast.comprehension):
            shadowed |= names_stored(n.target)
        elif isinstance(n, ast.Lambda):
            shadowed |= set(_param_names_of_args(n.args))

    class X(ast.NodeTransformer):
        def visit_Name(self, node):
            if isinstance(node.ctx, ast.Load) and node.id not in shadowed:
                v = local_value(fi, node.id, use_stmt)
                if v is not None:
                    return ast.copy_location(expand_expr(fi, v, getattr(v, '_vt_stmt', None) or _use_stmt(fi, v), depth + 1, keep), node)
            return node
    return X().visit(copy.deepcopy(expr))


def _param_names_of_args(a):
    out = [x.arg for x in a.posonlyargs + a.args + a.kwonlyargs]
    if a.vararg:
        out.append(a.vararg.arg)
    if a.kwarg:
        out.append(a.kwarg.arg)
    return out


def _mod_of(repo, node, default):
    """Module whose globals the names of an expression refer to (expressions taken out of a helper of another module
    are tagged with that module's name)."""
    name = getattr(node, '_vt_mod', None)
    return repo.mod(name) if name else default


def _resolve_callee(repo, mod, fi, call):
    """FuncInfo of the analysed tree a call names: a module-level function (possibly imported from another clastic
    module) or a method reached through self / cls; None for everything else."""
    f = call.func
    if isinstance(f, ast.Name):
        if fi is not None and (f.id in _param_names(fi) or _name_stores(fi, f.id)):
            return None
        kind, m, obj = repo.resolve(mod, f.id)
        if kind == 'func' and m is not None and not m.external:
            return obj
        return None
    if isinstance(f, ast.Attribute) and isinstance(f.value, ast.Name) and f.value.id in ('self', 'cls') and fi is not None \
            and isinstance(fi.cls, ClassInfo):
        m = repo.find_method(fi.cls, f.attr)
        if m is not None and not m.mod.external:
            return m
    return None


def _is_generator(fnode):
    return any(isinstance(n, (ast.Yield, ast.YieldFrom)) for n in walk_body(fnode))


def _falls_off(fi):
    """Can the function end without executing a ``return``?"""
    cfg = cfg_of(fi)
    rn = cfg.nodes_of_all(returns_of(fi))
    return not cfg.must_pass(rn, cfg.entry, cfg.exit, normal_only=True)


def call_result_expr(repo, mod, fi, call):
    """``helper(a, b)`` -> the expression the helper returns, its parameters replaced by the argument expressions, when
    the helper is a function of the analysed tree with a single ``return`` that every call reaches and whose locals
    are single assignments.  Nodes taken from the helper carry ``_vt_mod`` (the module their global names live in).
    None when the call cannot be read that way."""
    g = _resolve_callee(repo, mod, fi, call)
    if g is None:
        return None
    rets = returns_of(g)
    if len(rets) != 1 or rets[0].value is None or _falls_off(g) or rets[0] not in g.node.body:
        return None
    binding = call_binding(g, call)
    if binding is None:
        return None
    body = expand_expr(g, rets[0].value, rets[0])
    return substitute_params(body, binding, g, mod, fi)


def call_binding(g, call):
    """parameter name -> argument expression (or ``('default', expression)``) of a call of the plain function / method
    ``g`` (no decorators but staticmethod, no * / ** on either side, not a generator, parameters never re-bound in the
    body); None when the call cannot be read that way."""
    if _is_generator(g.node) or g.node.decorator_list and not all(
            isinstance(d, ast.Name) and d.id == 'staticmethod' for d in g.node.decorator_list):
        return None
    a = g.node.args
    if a.vararg or a.kwarg or any(isinstance(x, ast.Starred) for x in call.args) or any(k.arg is None for k in call.keywords):
        return None
    params = [x.arg for x in a.posonlyargs + a.args]
    static = any(isinstance(d, ast.Name) and d.id == 'staticmethod' for d in g.node.decorator_list)
    binding = {}
    if g.cls is not None and not static:
        if not params or not isinstance(call.func, ast.Attribute):
            return None
        binding[params[0]] = call.func.value
        params = params[1:]
    if len(call.args) > len(params):
        return None
    for p, v in zip(params, call.args):
        binding[p] = v
    allp = params + [x.arg for x in a.kwonlyargs]
    for k in call.keywords:
        if k.arg in binding or k.arg not in allp:
            return None
        binding[k.arg] = k.value
    defaults = dict(zip((a.posonlyargs + a.args)[len(a.posonlyargs + a.args) - len(a.defaults):], a.defaults))
    defaults = dict((x.arg, d) for x, d in defaults.items())
    defaults.update((x.arg, d) for x, d in zip(a.kwonlyargs, a.kw_defaults) if d is not None)
    for p in allp:
        if p not in binding:
            if p not in defaults:
                return None
            binding[p] = ('default', defaults[p])
    if any(_name_stores(g, p) for p in binding):
        return None
    return binding


def substitute_params(body, binding, g, mod, caller=None):
    """The expression ``body`` of function ``g`` (already expanded: a fresh tree) with g's parameters replaced by the
    argument expressions of a call made in module ``mod`` (by function ``caller``).  Every node is tagged with the
    module its global names live in (``_vt_mod``) and with the function its local names live in (``_vt_fn``, a
    qualified name); only names of ``g`` itself are replaced (an expression that went through several helpers keeps the
    names of the other frames)."""
    for n in ast.walk(body):
        if not hasattr(n, '_vt_mod'):
            n._vt_mod = g.mod.name
        if not hasattr(n, '_vt_fn'):
            n._vt_fn = g.qualname

    class S(ast.NodeTransformer):
        def visit_Name(self, node):
            if isinstance(node.ctx, ast.Load) and node.id in binding and node._vt_fn == g.qualname and node._vt_mod == g.mod.name:
                v = binding[node.id]
                if isinstance(v, tuple):
                    new, m, f = copy.deepcopy(v[1]), g.mod.name, g.qualname + '.<defaults>'
                else:
                    new, m, f = copy.deepcopy(v), mod.name, caller.qualname if caller is not None else '<module>'
                for n in ast.walk(new):
                    if not hasattr(n, '_vt_mod'):
                        n._vt_mod = m
                    if not hasattr(n, '_vt_fn'):
                        n._vt_fn = f
                return ast.copy_location(new, node)
            return node
    return S().visit(body)


def _fn_of(repo, node, default):
    """Function whose locals the names of a tagged expression node refer to (None: unknown)."""
    q = getattr(node, '_vt_fn', None)
    if q is None:
        return default
    return _mod_of(repo, node, default.mod).functions.get(q)


def call_keywords(fi, call, pos_names=()):
    """(name -> value expression, [unreadable parts]) of the arguments of a call, looking through ``**local`` when the
    local is a dict assembled in this function from literal keys."""
    out, opaque = {}, []
    for i, a in enumerate(call.args):
        if isinstance(a, ast.Starred):
            opaque.append(norm(a))
            break
        if i < len(pos_names):
            out[pos_names[i]] = a
    for k in call.keywords:
        if k.arg is not None:
            out[k.arg] = k.value
            continue
        if isinstance(k.value, ast.Name) and k.value.id not in _param_names(fi):
            try:
                ls = layers_of_var(fi.node, k.value.id)
            except AnalysisError as e:
                opaque.append('%s (%s)' % (k.value.id, e))
                continue
            for l in ls:
                if l.kind == 'literal':
                    for kk, vv in l.values.items():
                        if l.below and kk in out:
                            continue
                        out[kk] = vv
                else:
                    opaque.append(l.text)
        elif isinstance(k.value, ast.Dict):
            for l in layers_of_expr(k.value):
                if l.kind == 'literal':
                    out.update(l.values)
                else:
                    opaque.append(l.text)
        else:
            opaque.append(norm(k.value))
    return out, opaque


# ---------------------------------------------------------------------------------------------- constants of a function
_IN_PLACE = ('append', 'extend', 'insert', 'sort', 'reverse', 'pop', 'remove', 'clear', 'update', 'setdefault', 'popitem', 'add',
             'discard', '__setitem__', '__delitem__', '__iadd__')


def _free_names(e):
    """Names an expression reads from the scope around it: the variables of its own comprehensions / lambdas are not
    among them (the first ``for`` clause's iterable is evaluated outside the comprehension)."""
    out = []

    def go(n, bound):
        if isinstance(n, ast.Name):
            if isinstance(n.ctx, ast.Load) and n.id not in bound:
                out.append(n.id)
        elif isinstance(n, (ast.ListComp, ast.SetComp, ast.GeneratorExp, ast.DictComp)):
            inner = set(bound)
            for i, g in enumerate(n.generators):
                go(g.iter, bound if i == 0 else set(inner))
                inner |= names_stored(g.target)
                for c in g.ifs:
                    go(c, set(inner))
            for part in ([n.key, n.value] if isinstance(n, ast.DictComp) else [n.elt]):
                go(part, inner)
        elif isinstance(n, ast.Lambda):
            for d in list(n.args.defaults) + [d for d in n.args.kw_defaults if d is not None]:
                go(d, bound)
            go(n.body, set(bound) | set(_param_names_of_args(n.args)))
        else:
            for ch in ast.iter_child_nodes(n):
                go(ch, bound)
    go(e, frozenset())
    return out


def _changed_in_place(fi, name):
    for n in walk_body(fi.node):
        if isinstance(n, ast.Subscript) and isinstance(n.ctx, (ast.Store, ast.Del)) and norm(n.value) == name:
            return True
        if isinstance(n, ast.Call) and isinstance(n.func, ast.Attribute) and norm(n.func.value) == name and n.func.attr in _IN_PLACE:
            return True
    return False


def fold_in_function(repo, fi, e, depth=0):
    """Constant value of an expression of function ``fi``: it folds from literals and module-level constants
    (``repo.fold``: comprehensions over constant tables, ``.format`` / ``%`` / ``join`` of constants, ...).  No name it
    reads is a parameter of the function; a local it reads is bound once, by a plain assignment of such a constant,
    and never changed in place.  Raises Unfoldable: the value (may) depend on data."""
    if depth > 4:
        raise Unfoldable('depth')
    if any(isinstance(n, (ast.NamedExpr, ast.Await, ast.Yield, ast.YieldFrom)) for n in ast.walk(e)):
        raise Unfoldable('binding / suspending expression')
    params = _param_names(fi)
    env = {}
    for nm in sorted(set(_free_names(e))):
        if nm in params:
            raise Unfoldable('parameter %s' % nm)
        stores = _name_stores(fi, nm)
        if not stores:
            continue
        if len(stores) != 1 or not isinstance(stores[0], ast.Name):
            raise Unfoldable('local %s' % nm)
        st = _use_stmt(fi, stores[0])
        if not (isinstance(st, ast.Assign) and any(t is stores[0] for t in st.targets)) or _changed_in_place(fi, nm):
            raise Unfoldable('local %s' % nm)
        env[nm] = fold_in_function(repo, fi, st.value, depth + 1)
    try:
        return repo.fold(e, fi.mod, env or None)
    except Unfoldable:
        raise
    except Exception as ex:       # an operation of the folder failed on these constants: not a constant we know
        raise Unfoldable('%s: %s' % (type(ex).__name__, ex))


def is_function_constant(repo, fi, e, accept=None):
    """Does ``e`` fold to a constant inside ``fi`` (see fold_in_function) -- one that ``accept`` admits?"""
    try:
        v = fold_in_function(repo, fi, e)
    except Unfoldable:
        return False
    return accept is None or bool(accept(v))


def inside_constant(repo, fi, node):
    """Is the node (part of) an expression of the function that is a constant?  A ``'<{0}>'.format(name)`` inside
    ``[... for name in _FIELDS]`` over a module-level tuple of literals interpolates no data: the whole display is
    a constant, as if it had been written out."""
    cur = node
    while cur is not None and not isinstance(cur, ast.stmt):
        if isinstance(cur, ast.expr) and is_function_constant(repo, fi, cur):
            return True
        cur = fi.mod.parents.get(cur)
    return False


# ---------------------------------------------------------------------------------------------- shared with C08
def check_template_constancy(rep, rule):
    """In every to_* serialiser of the HTTPException family the *template* of a ``.format(...)`` / ``%`` is made of
    string constants only.  Data interpolated into a string that is formatted again turns the data into a format
    template: a brace or percent sign in a detail / exception message then raises (KeyError/ValueError/IndexError)
    inside the error renderer -- and inside the default renderer used as its fallback -- or substitutes other fields."""
    repo = rep.repo
    err = repo.mod(ERR)
    base = err.cls('HTTPException')
    fam = [base] + repo.subclasses(base, [err])
    n = 0
    work, seen_fns = [], set()
    for m0, servers in family_methods(repo, fam):
        c0, name0 = (m0.cls if isinstance(m0.cls, ClassInfo) else servers[0]), m0.name
        if not name0.startswith('to_') or name0 in ('to_dict', 'to_escaped_dict'):
            continue
        work.append((m0, c0, name0))
        seen_fns.add(id(m0.node))
        # the module-level functions of the analysed tree a serialiser hands its fields to (``return render_html(
        # self.to_escaped_dict())``, possibly in another module of the package): the formatting they do is the serialiser's
        todo = [(m0, 0)]
        while todo:
            fi_, d_ = todo.pop()
            if d_ >= 2:
                continue
            for c_ in walk_body(fi_.node):
                if isinstance(c_, ast.Call) and isinstance(c_.func, ast.Name):
                    g = _resolve_callee(repo, fi_.mod, fi_, c_)
                    if g is not None and not isinstance(g.cls, ClassInfo) and isinstance(g.node, ast.FunctionDef) and id(g.node) not in seen_fns:
                        seen_fns.add(id(g.node))
                        work.append((g, c0, name0))
                        todo.append((g, d_ + 1))
    for m, c, name in work:
        params = set(_param_names(m))

        def const_value(v):
            return isinstance(v, str) or (isinstance(v, (list, tuple)) and all(isinstance(x, str) for x in v))

        def const_expr(e, depth=0):
            """is this string-valued (or list-of-strings-valued) expression built from constants only?  Either by
            its structure (literals, locals assembled from literals) or because it folds from literals and module
            constants (a template generated from a constant table of field names, ...)."""
            if depth > 8:
                return False
            return structurally_const(e, depth) or \
                (not isinstance(e, (ast.Constant, ast.Name)) and is_function_constant(repo, m, e, const_value))

        def structurally_const(e, depth):
            if isinstance(e, ast.Constant):
                return isinstance(e.value, str)
            if isinstance(e, ast.JoinedStr):
                return all(isinstance(v, ast.Constant) for v in e.values)
            if isinstance(e, ast.BinOp) and isinstance(e.op, ast.Add):
                return const_expr(e.left, depth + 1) and const_expr(e.right, depth + 1)
            if isinstance(e, ast.IfExp):
                return const_expr(e.body, depth + 1) and const_expr(e.orelse, depth + 1)
            if isinstance(e, (ast.List, ast.Tuple)):
                return all(const_expr(x, depth + 1) for x in e.elts)
            if isinstance(e, ast.Call) and isinstance(e.func, ast.Attribute) and e.func.attr == 'join' and len(e.args) == 1 \
                    and not e.keywords:
                return const_expr(e.func.value, depth + 1) and const_expr(e.args[0], depth + 1)
            if isinstance(e, ast.Call) and isinstance(e.func, ast.Name) and e.func.id in ('list', 'tuple') and not e.keywords \
                    and len(e.args) <= 1 and e.func.id not in params and not _name_stores(m, e.func.id):
                # a fresh copy of a constant sequence (``lines = list(_HEAD_LINES)``)
                return not e.args or const_expr(e.args[0], depth + 1)
            if isinstance(e, ast.Name):
                if e.id in params:
                    return False
                srcs = [s.value for s in stmts_of(m.node) if isinstance(s, ast.Assign) and any(norm(t) == e.id for t in s.targets)]
                adds = [c_ for c_ in walk_body(m.node) if isinstance(c_, ast.Call) and isinstance(c_.func, ast.Attribute)
                        and norm(c_.func.value) == e.id and c_.func.attr in ('append', 'extend', 'insert')]
                augs = [s.value for s in stmts_of(m.node) if isinstance(s, ast.AugAssign) and norm(s.target) == e.id]
                if len(srcs) + len(augs) != len(_name_stores(m, e.id)):
                    return False    # bound in some other way (loop variable, tuple unpacking, ...)
                if not srcs:
                    if augs or adds:
                        return False
                    try:
                        return const_value(repo.fold(e, m.mod))
                    except Exception:
                        return False
                return all(const_expr(v, depth + 1) for v in srcs + augs) and all(a.args and const_expr(a.args[-1], depth + 1) for a in adds)
            if isinstance(e, (ast.Attribute, ast.Subscript)):
                try:
                    return const_value(repo.fold(e, m.mod))
                except Exception:
                    return False
            return False
        for node in walk_body(m.node):
            tmpl = None
            if isinstance(node, ast.Call) and isinstance(node.func, ast.Attribute) and node.func.attr in ('format', 'format_map'):
                tmpl = node.func.value
            elif isinstance(node, ast.BinOp) and isinstance(node.op, ast.Mod) and \
                    not (isinstance(node.left, ast.Constant) and not isinstance(node.left.value, str)):
                tmpl = node.left
            if tmpl is None:
                continue
            n += 1
            ok = const_expr(tmpl)
            rep.check(rule, fkey(m, 'template of ' + norm(node)[:60]), ok,
                      'format template is made of constants only' if ok else
                      '%s.%s formats a template that already contains interpolated data (%s): a "{" / "%%" in a detail or exception '
                      'message raises inside the renderer and inside its default-rendering fallback' % (c.name, name, short(tmpl)), m.mod, node)
    return n


def _escape_scope(repo, err, ted):
    """to_escaped_dict and the functions of the errors module it calls (a refactoring may move the per-field work into a
    helper the loader cannot inline, e.g. one called from a comprehension)."""
    scope, todo = [ted], [(ted, 0)]
    while todo:
        fi, d = todo.pop()
        if d >= 3:
            continue
        for c in walk_body(fi.node):
            if not isinstance(c, ast.Call):
                continue
            g = _resolve_callee(repo, fi.mod, fi, c)
            if g is not None and g.mod is err and not any(g is x for x in scope):
                scope.append(g)
                todo.append((g, d + 1))
    return scope


def check_escape_total(rep, rule):
    """html_escape() only accepts text: in to_escaped_dict every call is either an *attempt* (under an Exception handler
    with a fallback) or applied to the result of a text constructor (repr / str / format).  Otherwise a bytes or other
    non-text field raises TypeError inside the renderer and inside its fallback."""
    repo = rep.repo
    err = repo.mod(ERR)
    ted = err.cls('HTTPException').methods['to_escaped_dict']
    n = 0
    for fi in _escape_scope(repo, err, ted):
        for c in walk_body(fi.node):
            if isinstance(c, ast.Call) and call_name(c) == 'html_escape' and c.args:
                n += 1
                a = expand_expr(fi, c.args[0], _use_stmt(fi, c))
                texty = isinstance(a, ast.Call) and isinstance(a.func, ast.Name) and a.func.id in ('repr', 'str', 'unicode', 'format', 'ascii')
                h = protected_by(fi, c, 'TypeError')
                guarded = h is not None and not any(isinstance(x, ast.Raise) for x in ast.walk(h))
                rep.check(rule, fkey(ted, c), texty or guarded,
                          'html_escape(%s) is %s' % (short(a, 30), 'applied to constructed text' if texty else 'an attempt with a fallback') if texty or guarded else
                          'html_escape(%s) is neither guarded nor applied to constructed text: a bytes / non-text field makes every HTML and XML '
                          'error rendering (and the default-rendering fallback) raise TypeError' % short(c.args[0], 40), err, c)
    if n < 1:
        raise AnalysisError('to_escaped_dict: html_escape calls not found')


# ---------------------------------------------------------------------------------------------- escaping (R09.c)
def _escaped_leaf(v):
    if isinstance(v, ast.Constant) and v.value == '':
        return True
    if isinstance(v, ast.Call) and call_name(v) == 'html_escape':
        q = argn(v, 'quote', 1)
        return isinstance(q, ast.Constant) and q.value is True and len(v.args) <= 2
    return False


def value_leaves(repo, fi, e, depth=0, seen=None):
    """[(function, expression)]: the expressions one of which is the value of ``e`` -- through conditional
    expressions, and/or, (re-)assigned locals and the ``return``s of functions of the analysed tree."""
    seen = set() if seen is None else seen
    if depth > 8:
        return [(fi, e)]
    if isinstance(e, ast.IfExp):
        return value_leaves(repo, fi, e.body, depth + 1, seen) + value_leaves(repo, fi, e.orelse, depth + 1, seen)
    if isinstance(e, ast.BoolOp):
        out = []
        for v in e.values:
            out += value_leaves(repo, fi, v, depth + 1, seen)
        return out
    if isinstance(e, ast.Name):
        key = (id(fi.node), e.id)
        if key in seen or e.id in _param_names(fi):
            return [(fi, e)]
        binds = assigned_value(fi.node, e.id)
        if not binds or len(binds) != len(_name_stores(fi, e.id)) or \
                any(idx is not None or not isinstance(st, ast.Assign) for st, v, idx in binds):
            return [(fi, e)]
        seen.add(key)
        out = []
        for st, v, idx in binds:
            out += value_leaves(repo, fi, v, depth + 1, seen)
        return out
    if isinstance(e, ast.Call) and call_name(e) != 'html_escape':
        g = _resolve_callee(repo, fi.mod, fi, e)
        plain = g is not None and all(isinstance(d, ast.Name) and d.id in ('staticmethod', 'classmethod') for d in g.node.decorator_list)
        if plain and not _is_generator(g.node) and (id(g.node), '()') not in seen:
            seen.add((id(g.node), '()'))
            out = []
            for r in returns_of(g):
                if r.value is None:
                    out.append((g, ast.copy_location(ast.Constant(value=None), r)))
                else:
                    out += value_leaves(repo, g, r.value, depth + 1, seen)
            if _falls_off(g):
                out.append((g, ast.copy_location(ast.Constant(value=None), g.node)))
            return out
    return [(fi, e)]


def _is_fields_iter(fi, e, stmt):
    return norm(expand_expr(fi, e, stmt)) == 'self.to_dict().items()'


def check_escaped_dict(rep, repo, err, base, ted=None):
    """Every value of the mapping to_escaped_dict() returns is '' or html_escape(x, True), and every field of to_dict()
    gets an entry -- whether the mapping is filled by a loop or built by a comprehension, with the per-field work
    in place or in a helper.  ``ted``: the method to analyse (the base class' or an override in the family)."""
    ted = base.methods['to_escaped_dict'] if ted is None else ted
    rets = returns_of(ted)
    if len(rets) != 1 or rets[0].value is None:
        raise AnalysisError('to_escaped_dict: a single returned mapping was not found')
    rv = rets[0].value
    sites = []      # (key node, function, leaf expression)
    comp, rname, inherited = None, None, False
    if isinstance(rv, ast.Name):
        rname = rv.id
        inits = assigned_value(ted.node, rname)
        if len(inits) != 1 or inits[0][2] is not None or not isinstance(inits[0][0], ast.Assign):
            raise AnalysisError('to_escaped_dict: construction of the returned mapping not recognised')
        init = inits[0][1]
        if isinstance(init, ast.DictComp):
            comp = init
        elif ted is not base.methods['to_escaped_dict'] and isinstance(init, ast.Call) and isinstance(init.func, ast.Attribute) and \
                init.func.attr == 'to_escaped_dict' and not init.args and not init.keywords and isinstance(ted.cls, ClassInfo) and \
                ((isinstance(init.func.value, ast.Call) and norm(init.func.value.func) == 'super') or norm(init.func.value) in [norm(b) for b in ted.cls.node.bases]):
            inherited = True        # an override that starts from the inherited (escaped, complete) mapping and adds to it
        elif not ((isinstance(init, ast.Dict) and not init.keys) or
                  (isinstance(init, ast.Call) and call_name(init) in ('dict', 'OrderedDict') and not init.args and not init.keywords)):
            raise AnalysisError('to_escaped_dict: construction of the returned mapping not recognised (%s)' % short(init, 60))
    elif isinstance(rv, ast.DictComp):
        comp = rv
    else:
        raise AnalysisError('to_escaped_dict: construction of the returned mapping not recognised (%s)' % short(rv, 60))
    stores = []
    if rname is not None:
        stores = [s for s in stmts_of(ted.node) if isinstance(s, ast.Assign) and any(isinstance(t, ast.Subscript) and norm(t.value) == rname
                                                                                    for t in s.targets)]
        for s in stores:
            for f_, leaf in value_leaves(repo, ted, s.value):
                sites.append((s, f_, leaf))
        for c in walk_body(ted.node):
            if isinstance(c, ast.Call) and isinstance(c.func, ast.Attribute) and norm(c.func.value) == rname and \
                    c.func.attr in ('update', 'setdefault', '__setitem__'):
                sites.append((c, ted, c))
    complete = False
    if comp is not None:
        g = comp.generators
        tgt = g[0].target if len(g) == 1 else None
        complete = len(g) == 1 and not g[0].ifs and not g[0].is_async and _is_fields_iter(ted, g[0].iter, stmt_of(err, comp)) and \
            isinstance(tgt, ast.Tuple) and len(tgt.elts) == 2 and isinstance(tgt.elts[0], ast.Name) and norm(comp.key) == tgt.elts[0].id
        for f_, leaf in value_leaves(repo, ted, comp.value):
            sites.append((comp.value, f_, leaf))
    elif inherited:
        complete = True
        if not sites:
            rep.ok('R09.c', fkey(ted, 'inherited mapping'), 'returns the inherited escaped mapping unchanged', err, ted.node)
            return
    else:
        if len(stores) < 1:
            raise AnalysisError('to_escaped_dict: stores into the result dict not found')
        loops = [s for s in stmts_of(ted.node) if isinstance(s, ast.For)]
        if len(loops) == 1 and _is_fields_iter(ted, loops[0].iter, loops[0]):
            tcfg = cfg_of(ted)
            # every iteration stores: the loop head is only re-entered through a store
            iter_nodes = [n.id for n in tcfg.nodes if n.kind == 'iter' and n.stmt is loops[0]]
            complete = tcfg.must_pass(tcfg.nodes_of_all(stores), iter_nodes, tcfg.nodes_of(loops[0]), normal_only=True)
    if len(sites) < 1:
        raise AnalysisError('to_escaped_dict: stored values not found')
    seen_keys = {}
    for keynode, f_, leaf in sites:
        ok = _escaped_leaf(leaf)
        k = fkey(ted, keynode) if f_ is ted and leaf is keynode else fkey(ted, '%s <- %s' % (short(keynode, 60), short(leaf, 60)))
        if isinstance(keynode, ast.Assign) and f_ is ted and leaf is keynode.value:
            k = fkey(ted, keynode)
        seen_keys[k] = seen_keys.get(k, 0) + 1
        rep.check('R09.c', k, ok, 'stored value is %s' % short(leaf, 50) if ok else
                  'to_escaped_dict stores %s: not html_escape(x, True) (quotes must be escaped: error_type is placed in an attribute)' % short(leaf),
                  f_.mod, leaf if hasattr(leaf, 'lineno') else keynode)
    rep.check('R09.c', fkey(ted, 'all fields'), complete, 'every field of to_dict() gets an escaped entry' if complete else
              'to_escaped_dict can skip fields of to_dict()', err, ted.node)


def family_methods(repo, fam):
    """[(method, [classes of the family that use it])]: every method of the analysed tree a class of the family resolves
    one of its attribute names to -- its own, an inherited one, or one defined in a mixin outside the family."""
    out, index = [], {}
    for c in fam:
        for k in repo.mro(c):
            if not isinstance(k, ClassInfo) or k.mod.external:
                continue
            for name, m in sorted(k.methods.items()):
                if repo.find_method(c, name) is not m:
                    continue        # overridden for this class
                if id(m.node) not in index:
                    index[id(m.node)] = len(out)
                    out.append((m, []))
                out[index[id(m.node)]][1].append(c)
    return out


def markup_methods(repo, fam):
    """[(method, [classes of the family it serves])] for the to_html / to_xml serialisers of the family: the function
    each class *resolves* the name to -- defined in the class, in a base class, or in a mixin outside the family --
    so that a serialiser moved into a shared base is analysed for every class that inherits it."""
    out = []
    for c in fam:
        for name in ('to_html', 'to_xml'):
            m = repo.find_method(c, name)
            if m is None or m.mod.external:
                continue
            for entry in out:
                if entry[0] is m:
                    entry[1].append(c)
                    break
            else:
                out.append((m, [c]))
    return out


def markup_delegate(repo, m, raw_arg=False):
    """(function whose body builds the markup, name that stands for the escaped mapping in it).  A serialiser that does
    nothing but hand ``self.to_escaped_dict()`` to a module-level function of the analysed tree and return its result
    (``return f(self.to_escaped_dict())``, the mapping possibly named first) is read in that function: its one parameter,
    never re-bound there, *is* the escaped mapping.  Anything else: (m, None) -- the serialiser itself is read."""
    body = [s_ for s_ in m.node.body if not (isinstance(s_, ast.Expr) and isinstance(s_.value, ast.Constant))]
    rets = [s_ for s_ in body if isinstance(s_, ast.Return)]
    if len(rets) != 1 or body[-1] is not rets[0] or rets[0].value is None:
        return m, None
    if not all(isinstance(s_, ast.Assign) and len(s_.targets) == 1 and isinstance(s_.targets[0], ast.Name) for s_ in body[:-1]):
        return m, None
    call = expand_expr(m, rets[0].value, rets[0])
    if not (isinstance(call, ast.Call) and isinstance(call.func, ast.Name) and len(call.args) == 1 and not call.keywords
            and not isinstance(call.args[0], ast.Starred) and (raw_arg or norm(call.args[0]) == 'self.to_escaped_dict()')):
        return m, None
    fname = call.func.id
    if fname in _param_names(m) or _name_stores(m, fname):
        return m, None
    k, hm, h = repo.resolve(m.mod, fname)
    if k != 'func' or hm is None or hm.external or getattr(h, 'cls', None) is not None:
        return m, None
    a = h.node.args
    if isinstance(h.node, ast.AsyncFunctionDef) or a.vararg or a.kwarg or a.kwonlyargs or a.defaults or len(a.posonlyargs + a.args) != 1 \
            or h.node.decorator_list:
        return m, None
    p = (a.posonlyargs + a.args)[0].arg
    if _name_stores(h, p) or any(isinstance(n_, (ast.Global, ast.Nonlocal, ast.Yield, ast.YieldFrom)) for n_ in ast.walk(h.node)):
        return m, None
    return (h, p, call.args[0]) if raw_arg else (h, p)


def check_markup_sinks(rep, repo, err, fam):
    sinks_seen = set()
    for m, servers in markup_methods(repo, fam):
        c, name = (m.cls if isinstance(m.cls, ClassInfo) else servers[0]), m.name
        mmod = m.mod
        # (B) shipped template
        rets = returns_of(m)
        tmpl_rets = [r for r in rets if isinstance(expand_expr(m, r.value, r), ast.Call) and
                     norm(expand_expr(m, r.value, r).func) == 'CONTEXTUAL_ENV.render']
        if tmpl_rets and len(tmpl_rets) == len(rets):
            # the name may be a class attribute (``self._template_name``): it is read for every class that inherits
            # the method
            names = sorted(set(_template_name(repo, mmod, m, expand_expr(m, r.value, r), recv) for r in tmpl_rets for recv in servers))
            sinks_seen |= set((id(m.node), n_) for n_ in names)
            rep.ok('R09.c', fkey(m), 'renders shipped template(s) %s (escaping: R09.d)' % names, mmod, m.node)
            continue
        sinks_seen.add((id(m.node), None))
        # the function that builds the markup: the serialiser, or the module-level function it hands the escaped mapping to
        bm, ep = markup_delegate(repo, m)
        if ep is None:
            handed = markup_delegate(repo, m, raw_arg=True)
            if handed[1] is not None and any(isinstance(n_, ast.Call) and isinstance(n_.func, ast.Attribute) and n_.func.attr in ('format', 'format_map')
                                             for n_ in walk_body(handed[0].node)):
                # the same delegation, but what is handed to the formatting function is not the escaped mapping
                rep.check('R09.c', fkey(m), False, '%s.%s hands %s, not self.to_escaped_dict(), to %s, which formats the markup with it' %
                          (c.name, name, short(handed[2], 60), handed[0].qualname), m.mod, handed[2])
                continue
        mmod = bm.mod

        # (A) format with the escaped dict
        def is_escaped_map(e, st):
            x = expand_expr(bm, e, st)
            return (norm(x) == 'self.to_escaped_dict()' and ep is None) or (ep is not None and isinstance(x, ast.Name) and x.id == ep)

        def is_escaped_field(e, st):
            return isinstance(e, ast.Subscript) and isinstance(e.slice, ast.Constant) and is_escaped_map(e.value, st)
        sinks, bad = [], []
        for n_ in walk_body(bm.node):
            st = None
            is_fmt = (isinstance(n_, ast.Call) and isinstance(n_.func, ast.Attribute) and n_.func.attr in ('format', 'format_map')) or \
                (isinstance(n_, ast.BinOp) and isinstance(n_.op, ast.Mod)) or isinstance(n_, ast.JoinedStr)
            if is_fmt and inside_constant(repo, bm, n_):
                # formatting of constants with constants (a template generated from a constant table of field
                # names): template text, no field of the instance is interpolated here
                continue
            if isinstance(n_, ast.Call) and isinstance(n_.func, ast.Attribute) and n_.func.attr in ('format', 'format_map'):
                sinks.append(n_)
                st = stmt_of(mmod, n_)
                if n_.func.attr == 'format_map':
                    good = len(n_.args) == 1 and not n_.keywords and is_escaped_map(n_.args[0], st)
                else:
                    good = bool(n_.args or n_.keywords) and all(is_escaped_field(a, st) for a in n_.args) and \
                        all(is_escaped_map(k_.value, st) if k_.arg is None else is_escaped_field(k_.value, st) for k_ in n_.keywords)
                if not good:
                    bad.append(n_)
            elif isinstance(n_, ast.BinOp) and isinstance(n_.op, ast.Mod) and \
                    not (isinstance(n_.left, ast.Constant) and not isinstance(n_.left.value, str)):
                sinks.append(n_)
                st = stmt_of(mmod, n_)
                r = n_.right
                good = is_escaped_map(r, st) or is_escaped_field(r, st) or \
                    (isinstance(r, ast.Tuple) and r.elts and all(is_escaped_field(x, st) for x in r.elts))
                if not good:
                    bad.append(n_)
            elif isinstance(n_, ast.JoinedStr) and any(isinstance(v, ast.FormattedValue) for v in n_.values):
                sinks.append(n_)
                st = stmt_of(mmod, n_)
                if not all(is_escaped_field(v.value, st) for v in n_.values if isinstance(v, ast.FormattedValue)):
                    bad.append(n_)
        if not sinks:
            raise AnalysisError('%s.%s: construction of the markup not recognised (no format / %% / f-string)' % (c.name, name))
        ok = not bad
        rep.check('R09.c', fkey(m), ok, 'markup is built by .format(**to_escaped_dict()) only' if ok else
                  '%s.%s interpolates unescaped fields into markup: %s' % (c.name, name, [short(b) for b in bad]), mmod,
                  (bad or [m.node])[0])
        # no direct use of raw fields in the returned string
        raw = [n_ for f_ in ([m] if bm is m else [m, bm]) for n_ in walk_body(f_.node) if isinstance(n_, ast.Call) and norm(n_.func) == 'self.to_dict']
        rep.check('R09.c', fkey(m, 'no raw dict'), not raw, 'the raw to_dict() is not used for markup' if not raw else
                  '%s.%s uses the unescaped to_dict()' % (c.name, name), mmod, raw[0] if raw else m.node)
        # the escaped mapping stays escaped: nothing is stored into it afterwards
        evars = [s.targets[0].id for s in stmts_of(bm.node) if isinstance(s, ast.Assign) and len(s.targets) == 1 and
                 isinstance(s.targets[0], ast.Name) and (norm(s.value) == 'self.to_escaped_dict()' if ep is None else norm(s.value) == ep)]
        evars += [ep] if ep is not None else []
        muts = [n_ for n_ in walk_body(bm.node)
                if (isinstance(n_, ast.Subscript) and isinstance(n_.ctx, (ast.Store, ast.Del)) and norm(n_.value) in evars) or
                (isinstance(n_, ast.Call) and isinstance(n_.func, ast.Attribute) and norm(n_.func.value) in evars and
                 n_.func.attr in ('update', 'setdefault', '__setitem__'))]
        rep.check('R09.c', fkey(m, 'escaped mapping unmodified'), not muts, 'nothing is stored into the escaped mapping' if not muts else
                  '%s.%s stores %s into the escaped mapping before interpolating it' % (c.name, name, short(muts[0], 60)), mmod,
                  muts[0] if muts else m.node)
    if len(sinks_seen) < 4:
        raise AnalysisError('only %d to_html/to_xml renderings found (floor 4)' % len(sinks_seen))


def unquoted_placeholders(text):
    """Placeholders of a ``str.format`` / ``%`` template that stand inside a tag (between '<' and '>') outside quotes:
    ``<a href={error_type}>``.  html_escape(x, True) makes a value safe as element content and inside a *quoted* attribute
    value only; unquoted, a space in the value starts a new attribute.  Lexical scan of one constant piece of a template."""
    out = []
    in_tag, quote, i = False, None, 0
    while i < len(text):
        ch = text[i]
        if not in_tag:
            if ch == '<' and text[i + 1:i + 2] not in ('', ' ', '{', '%'):
                in_tag, quote = True, None
        elif quote is not None:
            if ch == quote:
                quote = None
        elif ch in '"\'':
            quote = ch
        elif ch == '>':
            in_tag = False
        elif ch == '{' and text[i + 1:i + 2] != '{':
            j = text.find('}', i)
            if j > 0:
                out.append(text[i:j + 1])
                i = j
        elif ch == '{':
            i += 1
        elif ch == '%' and text[i + 1:i + 2] in ('s', 'r', '('):
            out.append(text[i:i + 2])
        i += 1
    return out


def check_attribute_quoting(rep, repo, fam):
    """Every constant piece of markup in the format-based to_html / to_xml of the family keeps its placeholders out of
    unquoted attribute position."""
    n = 0
    for m, servers in markup_methods(repo, fam):
        pieces, done = [], set()
        sm, m = m, markup_delegate(repo, m)[0]
        for x in walk_body(m.node):
            if not ((isinstance(x, ast.Constant) and isinstance(x.value, str)) or
                    (isinstance(x, ast.Name) and isinstance(x.ctx, ast.Load) and x.id not in _param_names(m) and not _name_stores(m, x.id))):
                continue
            # the largest constant expression the piece belongs to (a template generated from constants is read as generated)
            top, cur = None, x
            while cur is not None and isinstance(cur, ast.expr):
                if is_function_constant(repo, m, cur):
                    top = cur
                cur = m.mod.parents.get(cur)
            if top is None or id(top) in done:
                continue
            done.add(id(top))
            try:
                v = fold_in_function(repo, m, top)
            except Unfoldable:
                continue
            for t in ([v] if isinstance(v, str) else list(v) if isinstance(v, (list, tuple)) and all(isinstance(y, str) for y in v) else []):
                pieces.append((top, t))
        bad = [(x, ph) for x, t in pieces if '<' in t for ph in unquoted_placeholders(t)]
        if any('<' in t for x, t in pieces):
            n += 1
            rep.check('R09.c', fkey(m, 'placeholders in attributes are quoted'), not bad, 'no placeholder stands in an unquoted attribute value' if not bad else
                      '%s puts the placeholder %s into a tag outside quotes: an escaped value still ends the attribute at its first space' %
                      (m.qualname, bad[0][1]), m.mod, bad[0][0] if bad else m.node)
    if n < 2:
        raise AnalysisError('markup templates of to_html / to_xml not found (%d)' % n)


def check_xml_template(rep, repo, fam):
    """"XML bodies are well formed" has one part that is a property of a constant: the template to_xml fills.  With every
    placeholder replaced by plain text the folded template must parse as one XML element (escaped values are character data:
    they cannot change that)."""
    import string
    import xml.etree.ElementTree as ET
    n = 0
    for m, servers in markup_methods(repo, fam):
        if m.name != 'to_xml':
            continue
        cname = m.cls.name if isinstance(m.cls, ClassInfo) else '?'
        m = markup_delegate(repo, m)[0]
        for c in walk_body(m.node):
            if not (isinstance(c, ast.Call) and isinstance(c.func, ast.Attribute) and c.func.attr in ('format', 'format_map')) or inside_constant(repo, m, c):
                continue
            tm = expand_expr(m, c.func.value, _use_stmt(m, c))
            try:
                text = fold_in_function(repo, m, tm)
            except Unfoldable:
                text = None
            if not isinstance(text, str):
                try:
                    text = fold_in_function(repo, m, c.func.value)
                except Unfoldable:
                    continue
            if not isinstance(text, str):
                continue
            n += 1
            try:
                filled = ''.join(lit + ('x' if field is not None else '') for lit, field, spec, conv in string.Formatter().parse(text))
                ET.fromstring(filled)
                ok, why = True, ''
            except (ValueError, ET.ParseError) as e:
                ok, why = False, str(e)
            rep.check('R09.c', fkey(m, 'template is one XML element'), ok, 'the XML template is well formed' if ok else
                      'the template %s.to_xml fills is not a well-formed XML element (%s): every XML error body is rejected by an XML parser' %
                      (cname, why), m.mod, c)
    if not n:
        rep.decline('well-formedness of the XML template: the template of to_xml is not a constant of the source')


def _template_name(repo, mod, fi, render_call, recv=None):
    """Folded first argument of CONTEXTUAL_ENV.render(name, ctx); ``self.attr`` is looked up on the class of the
    receiver ``recv`` (default: the class defining the method) through its bases -- a class attribute that no method
    of those classes ever stores on the instance."""
    a = argn(render_call, 'name', 0)
    if a is None:
        raise AnalysisError('%s: template name of %s not found' % (fi.qualname, short(render_call, 60)))
    v = repo.try_fold(a, mod)
    recv = recv if recv is not None else fi.cls
    if v is None and isinstance(a, ast.Attribute) and isinstance(a.value, ast.Name) and a.value.id in ('self', 'cls') and \
            isinstance(recv, ClassInfo):
        dc, val = repo.class_attr(recv, a.attr)
        if val is not None and not isinstance(val, (ast.FunctionDef, ast.AsyncFunctionDef)) and not _instance_attr_written(repo, recv, a.attr):
            v = repo.try_fold(val, dc.mod)
    if not isinstance(v, str):
        raise AnalysisError('%s: template name %s is not a constant%s' % (fi.qualname, short(a, 60), ' of %s' % recv.name if isinstance(recv, ClassInfo) else ''))
    return v


def _instance_attr_written(repo, cls, attr):
    """Does a method of the class or of one of its bases in the analysed tree store the attribute (on any object: a
    write through an alias of self counts), or call setattr / touch __dict__?"""
    for k in repo.mro(cls):
        if not isinstance(k, ClassInfo) or k.mod.external:
            continue
        for m in k.methods.values():
            for n in ast.walk(m.node):
                if isinstance(n, ast.Attribute) and isinstance(n.ctx, (ast.Store, ast.Del)) and n.attr == attr:
                    return True
                if isinstance(n, ast.Call) and isinstance(n.func, ast.Name) and n.func.id in ('setattr', 'delattr') and \
                        not (len(n.args) >= 2 and isinstance(n.args[1], ast.Constant) and n.args[1].value != attr):
                    return True
    return False


# ---------------------------------------------------------------------------------------------- R09.b helpers
def _is_table(e):
    return isinstance(e, ast.Name) and e.id == TABLE


def table_home(repo, err):
    """The module that holds the one definition of the format table the errors module works with: the errors module
    itself, or the module it imports the name from (``from ._formats import MIME_SUPPORT_MAP`` binds the same dict object
    under the same name).  The errors module must not bind the name in a second way."""
    k, hm, obj = repo.resolve(err, TABLE)
    if k != 'value' or hm is None or hm.external:
        raise AnalysisError('%s::%s does not resolve to one definition in the analysed tree (%s)' % (ERR, TABLE, k))
    if hm is not err and (TABLE in err.assigns or TABLE in err.functions or TABLE in err.classes):
        raise AnalysisError('%s::%s is imported and bound again in the errors module' % (ERR, TABLE))
    return hm


_NOTHING = object()


def _is_marker_object(repo, mod, name):
    """``name`` resolves (through imports) to a module-level name of the analysed tree that is bound exactly once, to a fresh
    ``object()``, and that no function re-binds (``global``): a value equal / identical to nothing but itself."""
    kind, m, vals = repo.resolve(mod, name)
    if kind != 'value' or m is None or m.external or not isinstance(vals, list) or len(vals) != 1:
        return False
    v = vals[0]
    if not (isinstance(v, ast.Call) and isinstance(v.func, ast.Name) and v.func.id == 'object' and not v.args and not v.keywords):
        return False
    if 'object' in m.assigns or 'object' in m.imports or 'object' in m.functions or 'object' in m.classes:
        return False
    owner = [n for n, vs in m.assigns.items() if any(x is v for x in vs)]
    for n in ast.walk(m.tree):
        if isinstance(n, (ast.Global, ast.Nonlocal)) and set(n.names) & set(owner):
            return False
    return True


def check_adapt(rep, repo, err, base, msm, ad=None):
    """``ad``: the adapt() to analyse -- the base class' or an override in a class of the family."""
    ad = base.methods['adapt'] if ad is None else ad
    ps = ad.params()
    if len(ps) < 2:
        raise AnalysisError('adapt: the mimetype parameter was not found')
    mp = ps[1]

    def assign_pairs(s):
        """(name, value expression or None) for every name an assignment binds; ``a, b = (x, y)`` binds element-wise
        (the right-hand side is evaluated as a whole first: every element reads the values from before the statement)."""
        pairs = []
        for t in s.targets:
            if isinstance(t, (ast.Tuple, ast.List)) and isinstance(s.value, (ast.Tuple, ast.List)) and len(t.elts) == len(s.value.elts) \
                    and not any(isinstance(x, ast.Starred) for x in t.elts + s.value.elts):
                for te, ve in zip(t.elts, s.value.elts):
                    pairs += [(nm, ve if isinstance(te, ast.Name) else None) for nm in names_stored(te)]
            else:
                pairs += [(nm, s.value if isinstance(t, ast.Name) else None) for nm in names_stored(t)]
        return pairs
    look = []
    for s in stmts_of(ad.node):
        if not isinstance(s, ast.Assign):
            continue
        for nm, v in assign_pairs(s):
            if isinstance(v, ast.Subscript) and _is_table(v.value) and norm(v.slice) == mp:
                look.append((s, 'index', nm, v))
            elif isinstance(v, ast.Call) and isinstance(v.func, ast.Attribute) and v.func.attr == 'get' and _is_table(v.func.value) \
                    and v.args and norm(v.args[0]) == mp and not v.keywords:
                look.append((s, 'get' if len(v.args) == 1 or (isinstance(v.args[1], ast.Constant) and v.args[1].value is None) else 'get-default', nm, v))
    if len(look) != 1:
        raise AnalysisError('adapt: the lookup of the requested type in %s was not found (%d candidates)' % (TABLE, len(look)))
    lookup, kind, fv, lookup_value = look[0]
    # every other (re-)binding of the format variable and of the mimetype parameter
    reb = {fv: [], mp: []}
    for s in stmts_of(ad.node):
        pairs = []
        if isinstance(s, ast.Assign):
            for nm, v in assign_pairs(s):
                if v is lookup_value:
                    continue
                if isinstance(v, ast.Name) and v.id == nm:
                    # ``fmt, mimetype = (TABLE[mimetype], mimetype)``: the name keeps the value it had
                    continue
                pairs.append((nm, v))
        elif isinstance(s, (ast.AugAssign, ast.AnnAssign)):
            pairs += [(nm, None) for nm in names_stored(s.target)]
        elif isinstance(s, (ast.For, ast.AsyncFor)):
            pairs += [(nm, None) for nm in names_stored(s.target)]
        elif isinstance(s, (ast.With, ast.AsyncWith)):
            for it in s.items:
                if it.optional_vars is not None:
                    pairs += [(nm, None) for nm in names_stored(it.optional_vars)]
        for nm, v in pairs:
            if nm in reb:
                reb[nm].append((s, v))
    for tr in [s for s in stmts_of(ad.node) if isinstance(s, ast.Try)]:
        for h in tr.handlers:
            if h.name in reb:
                reb[h.name].append((tr, None))

    def member(pos):
        def pred(t):
            return isinstance(t, ast.Compare) and len(t.ops) == 1 and isinstance(t.ops[0], ast.In if pos else ast.NotIn) and \
                norm(t.left) == mp and _is_table(t.comparators[0])
        return pred
    h = protected_by(ad, lookup, 'KeyError') if kind == 'index' else None
    if h is not None and any(isinstance(x, ast.Raise) for x in ast.walk(h)):
        h = None
    cl = conds(ad, lookup)
    guarded_by_test = kind == 'index' and (has_cond(cl, member(True), True) or has_cond(cl, member(False), False))

    def in_fallback(st):
        if kind == 'index':
            if h is not None and any(x is st for b in h.body for x in ast.walk(b)):
                return True
            if guarded_by_test:
                cs = conds(ad, st)
                return has_cond(cs, member(True), False) or has_cond(cs, member(False), True)
            return False
        if kind == 'get':
            return implies_absent(conds(ad, st), fv)
        if kind == 'get-default':
            cs = conds(ad, st)
            return has_cond(cs, missing, True) or has_cond(cs, found, False) or \
                (falsy_default and has_cond(cs, lambda t: isinstance(t, ast.Name) and t.id == fv, False))
        return False
    # ``TABLE.get(key, D)`` with D a value no entry of the table can be: a private marker object of the module (told by identity or
    # equality) or a constant that is not a format of the table (told by equality; by truth when it is falsy and no format is)
    marker, absent_const, falsy_default = None, _NOTHING, False
    if kind == 'get-default':
        dflt = lookup_value.args[1]
        if isinstance(dflt, ast.Name) and dflt.id not in _param_names(ad) and not _name_stores(ad, dflt.id) and _is_marker_object(repo, ad.mod, dflt.id):
            marker = dflt.id
        elif not (isinstance(dflt, ast.Name) and (dflt.id in _param_names(ad) or _name_stores(ad, dflt.id))):
            c = repo.try_fold(dflt, ad.mod, _NOTHING)
            if c is not _NOTHING and isinstance(c, (str, bool, int, type(None))) and not any(c == v_ for v_ in msm.values()):
                absent_const = c
                falsy_default = not c and all(msm.values())

    def default_test(t, want_eq):
        if not (isinstance(t, ast.Compare) and len(t.ops) == 1):
            return False
        op = t.ops[0]
        a, b = t.left, t.comparators[0]
        if isinstance(b, ast.Name) and b.id == fv:
            a, b = b, a
        if not (isinstance(a, ast.Name) and a.id == fv):
            return False
        if marker is not None and isinstance(b, ast.Name) and b.id == marker:
            return isinstance(op, (ast.Is, ast.Eq) if want_eq else (ast.IsNot, ast.NotEq))
        if absent_const is not _NOTHING and not (isinstance(b, ast.Name) and (b.id in _param_names(ad) or _name_stores(ad, b.id))):
            same = repo.try_fold(b, ad.mod, _NOTHING)
            if same is not _NOTHING and type(same) is type(absent_const) and same == absent_const:
                ops = (ast.Eq,) + ((ast.Is,) if absent_const is None else ())
                nops = (ast.NotEq,) + ((ast.IsNot,) if absent_const is None else ())
                return isinstance(op, ops if want_eq else nops)
        return False
    missing = lambda t: default_test(t, True)
    found = lambda t: default_test(t, False)
    shape = len(reb[fv]) == 1 and len(reb[mp]) == 1 and reb[fv][0][1] is not None and reb[mp][0][1] is not None
    pair = (repo.try_fold(reb[fv][0][1], err), repo.try_fold(reb[mp][0][1], err)) if shape else None
    fb_ok = shape and isinstance(pair[0], str) and isinstance(pair[1], str) and msm.get(pair[1]) == pair[0] and pair[0] == 'text' and \
        in_fallback(reb[fv][0][0]) and in_fallback(reb[mp][0][0]) and (kind != 'index' or h is not None or guarded_by_test)
    acfg = cfg_of(ad)
    if not fb_ok and kind == 'index' and h is None and not guarded_by_test and not reb[fv] and len(reb[mp]) == 1 and reb[mp][0][1] is not None:
        # the key is normalised first (``if mimetype not in TABLE: mimetype = 'text/plain'``), the lookup is then total:
        # every path to the lookup has seen the membership test succeed or has re-bound the key to a key of the table
        st_, v_ = reb[mp][0]
        key = repo.try_fold(v_, err)
        cs = conds(ad, st_)
        neg = has_cond(cs, member(True), False) or has_cond(cs, member(False), True)
        pos_nodes = [nid for nid, t, p in acfg.branches() if (member(True)(t) and p) or (member(False)(t) and not p)]
        fb_ok = neg and isinstance(key, str) and msm.get(key) == 'text' and \
            acfg.must_pass(pos_nodes + acfg.nodes_of(st_), acfg.entry, acfg.nodes_of(lookup))
    rep.check('R09.b', fkey(ad, 'fallback pair'), fb_ok,
              'an unsupported type falls back to a (format, mimetype) pair of the table, re-binding both' if fb_ok else
              'the fallback for unsupported types does not re-bind format and mimetype to a matching pair', err, ad.node)
    # body and header are both derived from (fv, mp)
    MARK = '\x00fmt\x00'

    def is_serialiser_call(e):
        if not (isinstance(e, ast.Call) and not e.args and not e.keywords):
            return False
        g = e.func
        if not (isinstance(g, ast.Call) and call_name(g) == 'getattr' and len(g.args) == 2 and not g.keywords and norm(g.args[0]) == 'self'):
            return False
        try:
            return repo.fold(g.args[1], err, {fv: MARK}) == 'to_' + MARK
        except Unfoldable:
            return False
    data = []
    for s in stmts_of(ad.node):
        if isinstance(s, ast.Assign) and any(norm(t) == 'self.data' for t in s.targets):
            data.append((s, s.value))
        elif isinstance(s, ast.Expr) and isinstance(s.value, ast.Call) and norm(s.value.func) == 'self.set_data' and s.value.args:
            data.append((s, s.value.args[0]))
    ct = []
    for s in stmts_of(ad.node):
        if not isinstance(s, ast.Assign):
            continue
        for t in s.targets:
            if isinstance(t, ast.Subscript) and norm(t.value) == 'self.headers' and isinstance(t.slice, ast.Constant) and \
                    isinstance(t.slice.value, str) and t.slice.value.lower() == 'content-type':
                ct.append((s, 'header'))
            elif norm(t) in ('self.content_type', 'self.mimetype'):
                ct.append((s, norm(t)))
    if len(data) == 2:
        # the body stored as bytes: ``if isinstance(t, bytes): self.data = t / else: self.data = t.encode(cs, ..)`` is one
        # statement setting the body to (the encoded form of) ``t``
        enc = _encoded_arms(ad, [d[0] for d in data], lambda s_: dict((id(a), b) for a, b in data).get(id(s_)))
        if enc is not None:
            data = [enc]
    if len(data) != 1 or len(ct) != 1:
        raise AnalysisError('adapt: the statements setting the body (%d) and the Content-Type (%d) were not found' % (len(data), len(ct)))
    dv = strip_encode(expand_expr(ad, strip_encode(data[0][1]), data[0][0], keep=(fv, mp)))
    ok_body = is_serialiser_call(dv)
    cv = expand_expr(ad, ct[0][0].value, ct[0][0], keep=(fv, mp))
    if ct[0][1] == 'self.mimetype':
        ok_ct = isinstance(cv, ast.Name) and cv.id == mp
    else:
        a0 = argn(cv, 'mimetype', 0) if isinstance(cv, ast.Call) and call_tail(cv) == 'get_content_type' else None
        ok_ct = isinstance(a0, ast.Name) and a0.id == mp
        if ok_ct:
            # ... and the charset announced is the one the response encodes its body with
            a1 = argn(cv, 'charset', 1)
            ok_cs = a1 is not None and norm(a1) == '%s.charset' % ps[0] and not _self_attr_stores(ad, 'charset')
            rep.check('R09.b', fkey(ad, 'charset of the header'), ok_cs, 'the Content-Type names the charset the body is encoded with (self.charset)' if ok_cs else
                      'the Content-Type is built with the charset %s, the body is encoded with self.charset: a non-ASCII detail is announced in '
                      'one encoding and sent in another' % (short(a1, 30) if a1 is not None else 'left to a default'), ad.mod, ct[0][0])
    dn, cn = acfg.nodes_of(data[0][0]), acfg.nodes_of(ct[0][0])
    defs = acfg.nodes_of(lookup) + acfg.nodes_of_all([s for nm in reb for s, v in reb[nm]])
    ok = ok_body and ok_ct and acfg.must_pass(defs, acfg.entry, dn + cn) and acfg.must_pass(dn, acfg.entry, acfg.exit, normal_only=True) and \
        acfg.must_pass(cn, acfg.entry, acfg.exit, normal_only=True) and \
        not (set(defs) & acfg.reach(dn + cn, include_src=False))
    rep.check('R09.b', fkey(ad, 'body and header from one pair'), ok,
              'self.data = to_<fmt>() and Content-Type = get_content_type(mimetype) use the same (fmt, mimetype) on every path' if ok else
              'body and Content-Type are not both derived from the one (format, mimetype) pair', err, ad.node)


def negotiated_over_table(repo, err, mod, fi, expr, use_stmt, expanded=False):
    """Is ``expr`` the Accept negotiation ``<request>.accept_mimetypes.best_match(MIME_SUPPORT_MAP)`` over the errors
    module's table -- written in place, named first, or computed by a straight-line helper?  ``<request>`` is a parameter
    of the renderer ``fi``.  ``expanded``: the expression was brought into the renderer's terms by the caller (taken out
    of a function the renderer delegates to, parameters substituted, nodes tagged with their frame)."""
    e = expr if expanded else expand_expr(fi, expr, use_stmt)
    for _ in range(4):
        if isinstance(e, ast.Call) and call_tail(e) == 'best_match':
            break
        if not isinstance(e, ast.Call):
            return False
        em = _mod_of(repo, e, mod)
        e = call_result_expr(repo, em, fi if em is mod else None, e)
        if e is None:
            return False
    else:
        return False
    recv = e.func.value if isinstance(e.func, ast.Attribute) else None
    if not (isinstance(recv, ast.Attribute) and recv.attr == 'accept_mimetypes' and isinstance(recv.value, ast.Name)
            and recv.value.id in fi.params() and _mod_of(repo, recv.value, mod) is mod and _fn_of(repo, recv.value, fi) is fi):
        return False
    table = argn(e, 'matches', 0)
    # nothing acceptable: the answer must be None (adapt() then falls back to plain text) or a plain-text type of the table
    dflt = argn(e, 'default', 1)
    if dflt is not None and not (isinstance(dflt, ast.Constant) and dflt.value is None):
        try:
            dv = repo.fold(dflt, _mod_of(repo, dflt, mod))
            msm_ = err.const(TABLE)
        except Exception:
            return False
        if not (isinstance(dv, str) and isinstance(msm_, dict) and msm_.get(dv) == 'text'):
            return False
        owner_d = _fn_of(repo, dflt, fi)
        if owner_d is not None and any(isinstance(n_, ast.Name) and (n_.id in _param_names(owner_d) or _name_stores(owner_d, n_.id)) for n_ in ast.walk(dflt)):
            return False
    if any(k_.arg is None for k_ in e.keywords) or any(isinstance(a_, ast.Starred) for a_ in e.args):
        return False
    # the same keys in the same order: list(T), tuple(T), T.keys(), iter(T)
    for _ in range(2):
        if isinstance(table, ast.Call) and isinstance(table.func, ast.Name) and table.func.id in ('list', 'tuple', 'iter') and \
                len(table.args) == 1 and not table.keywords:
            table = table.args[0]
        elif isinstance(table, ast.Call) and isinstance(table.func, ast.Attribute) and table.func.attr == 'keys' and not table.args \
                and not table.keywords:
            table = table.func.value
    if not _is_table(table):
        return False
    tm = _mod_of(repo, table, mod)
    owner = _fn_of(repo, table, fi)      # None: evaluated at module level (a default), no locals in sight
    if owner is not None and (TABLE in _param_names(owner) or _name_stores(owner, TABLE)):
        return False
    k, m_, obj = repo.resolve(tm, TABLE)
    return m_ is table_home(repo, err) and k == 'value'


# ---------------------------------------------------------------------------------------------- R09.d helpers
def registered_templates(repo, ce):
    """name -> (label, source expression) for every CONTEXTUAL_ENV.register_source(name, source) executed at import:
    at module level or in a function the module calls at its top level; a call inside ``for name, src in <literal
    table>`` counts once per row."""
    top_calls = [n_.value for n_ in ce.tree.body if isinstance(n_, ast.Expr) and isinstance(n_.value, ast.Call)
                 and isinstance(n_.value.func, ast.Name)]
    scopes_ = [(None, ce.tree.body, {})]
    called = []
    for c in top_calls:
        fi = ce.functions.get(c.func.id)
        if fi is not None and fi.cls is None:
            called.append((fi, c))
            # the function's parameters stand for the argument expressions of this call (evaluated at module level)
            binding = call_binding(fi, c) if _param_names(fi) else {}
            if binding is None:
                raise AnalysisError('%s(...) at module level: the arguments cannot be matched with the parameters' % fi.qualname)
            scopes_.append((fi, fi.node.body, dict((p_, v[1] if isinstance(v, tuple) else v) for p_, v in binding.items())))
    out = {}
    n_calls = 0
    counted = set()
    for fi, body, binding in scopes_:
        todo = list(body)
        nodes = []
        while todo:
            n = todo.pop()
            if isinstance(n, (ast.FunctionDef, ast.AsyncFunctionDef, ast.ClassDef, ast.Lambda)):
                continue
            nodes.append(n)
            todo.extend(ast.iter_child_nodes(n))
        for c in nodes:
            if not (isinstance(c, ast.Call) and norm(c.func) == 'CONTEXTUAL_ENV.register_source'):
                continue
            if id(c) not in counted:        # a function called twice at module level: its calls are counted once
                counted.add(id(c))
                n_calls += 1
            a_name, a_src = argn(c, 'name', 0), argn(c, 'source', 1)
            if a_name is None or a_src is None:
                raise AnalysisError('register_source call %s: name / source argument not found' % short(c, 60))
            rows = [{}]
            cur = ce.parents.get(c)
            while cur is not None and not isinstance(cur, (ast.FunctionDef, ast.AsyncFunctionDef, ast.Module)):
                if isinstance(cur, (ast.For, ast.AsyncFor)) and (names_stored(cur.target) & (_names(a_name) | _names(a_src))):
                    rows = _loop_rows(repo, ce, fi, cur, binding)
                    break
                cur = ce.parents.get(cur)
            for env in rows:
                nm = _subst(a_name, env)
                sx = _subst(a_src, env)
                if fi is not None:
                    nm = expand_expr(fi, nm, stmt_of(ce, c)) if not env else nm
                    sx = expand_expr(fi, sx, stmt_of(ce, c)) if not env else sx
                    if not env and binding:
                        # a parameter of the registering function, never re-bound in it (call_binding): the argument
                        nm, sx = _subst(nm, binding), _subst(sx, binding)
                name = repo.try_fold(nm, ce)
                if not isinstance(name, str):
                    raise AnalysisError('register_source: template name %s is not a constant' % short(nm, 60))
                out[name] = (norm(sx) if isinstance(sx, ast.Name) else name, sx)
    return out, n_calls, called


def _names(e):
    return set(n.id for n in ast.walk(e) if isinstance(n, ast.Name))


def _subst(e, env):
    if not env:
        return e

    class S(ast.NodeTransformer):
        def visit_Name(self, node):
            if isinstance(node.ctx, ast.Load) and node.id in env:
                return copy.deepcopy(env[node.id])
            return node
    return S().visit(copy.deepcopy(e))


def _loop_rows(repo, mod, fi, loop, binding=None):
    """[{loop variable: element expression}] for a ``for`` over a literal list / tuple of tuples (or over the items of a
    literal dict), written in place, named by a single-assignment local or by a module constant -- or handed to the
    registering function as the argument of its one module-level call (``binding``: parameter -> argument)."""
    it = loop.iter
    if fi is not None:
        it = expand_expr(fi, it, loop)
    from_caller = False
    if fi is not None and binding and isinstance(it, ast.Name) and it.id in binding:
        it, from_caller = binding[it.id], True     # evaluated where the call is written: at module level

    def module_const(e):
        # a module-level name bound once to a display
        if isinstance(e, ast.Name) and (fi is None or from_caller or not (e.id in _param_names(fi) or _name_stores(fi, e.id))):
            vals = [v for v in mod.assigns.get(e.id, [])]
            if len(vals) == 1 and isinstance(vals[0], ast.expr):
                return vals[0]
        return e
    it = module_const(it)
    elems = None
    if isinstance(it, (ast.List, ast.Tuple)):
        elems = list(it.elts)
    elif isinstance(it, ast.Call) and isinstance(it.func, ast.Attribute) and it.func.attr == 'items' and not it.args and not it.keywords and \
            isinstance(module_const(it.func.value), ast.Dict) and all(k is not None for k in module_const(it.func.value).keys):
        d = module_const(it.func.value)
        elems = [ast.Tuple(elts=[k, v], ctx=ast.Load()) for k, v in zip(d.keys, d.values)]
    elif isinstance(it, ast.Call) and isinstance(it.func, ast.Name) and it.func.id == 'zip' and len(it.args) >= 2 and \
            all(isinstance(a, (ast.List, ast.Tuple)) for a in it.args) and len(set(len(a.elts) for a in it.args)) == 1:
        elems = [ast.Tuple(elts=list(col), ctx=ast.Load()) for col in zip(*[a.elts for a in it.args])]
    if elems is None or any(isinstance(x, ast.Starred) for x in elems):
        raise AnalysisError('register_source inside a loop over %s: the table of templates is not a literal' % short(loop.iter, 60))
    rows = []
    tgt = loop.target
    for el in elems:
        if isinstance(tgt, ast.Name):
            rows.append({tgt.id: el})
        elif isinstance(tgt, (ast.Tuple, ast.List)) and isinstance(el, (ast.Tuple, ast.List)) and len(tgt.elts) == len(el.elts) and \
                all(isinstance(t, ast.Name) for t in tgt.elts):
            rows.append(dict((t.id, v) for t, v in zip(tgt.elts, el.elts)))
        else:
            raise AnalysisError('register_source inside a loop: cannot match the loop target %s with the row %s' % (short(tgt, 40), short(el, 40)))
    return rows


# ---------------------------------------------------------------------------------------------- the check
def _guarded(rep, fn, *args):
    """Run one rule group: an AnalysisError (or an internal error of the rule) is recorded as an analysis gap of this
    group, the other groups still run."""
    def group():
        try:
            return fn(*args)
        except AnalysisError:
            raise
        except Exception as e:   # a crash inside a rule is "cannot analyse", never a verdict
            import traceback
            raise AnalysisError('internal error in %s: %s: %s [%s]' % (fn.__name__, type(e).__name__, e,
                                                                      traceback.format_exc().strip().splitlines()[-3].strip()))
    group.__name__ = fn.__name__
    return rep.guard(group)


def run(rep):
    repo = rep.repo
    err = repo.mod(ERR)
    app = repo.mod('clastic.application')
    rep.decide('R09.a status table; R09.b format table and body/Content-Type pairing; R09.c escaping of every interpolated '
               'field; R09.d debug templates auto-escape; R09.e JSON carries the four fields')
    rep.decline('well-formedness of produced XML/HTML bytes, werkzeug Accept negotiation, JSON parseability')
    rep.assume('html.escape(s, True) escapes & < > " \' ; ashes filter semantics as read from the pinned source')
    rep.assume('xml.etree.ElementTree accepts exactly the well-formed documents (used on the constant XML template only)')
    rep.rule('R09.a', 'class codes vs http.HTTPStatus; hierarchy; uniqueness; status plumbing (def-use order of self.code and of the fields rendered in the '
                      'constructor); handler slots and uncaught_to_response carry the status of their situation; constructors of error types hand on '
                      'and keep what they are given; class-level defaults are never written')
    rep.rule('R09.b', 'MIME_SUPPORT_MAP exhaustiveness and constancy; one (format, mimetype) pair feeds body and header (charset = self.charset), also in '
                      'overrides; negotiation over the table with a plain-text / None default in every render_error; execute_error returns only rendered '
                      'results, any Exception from it is answered by the default renderer')
    rep.rule('R09.c', 'taint: instance fields reach HTML/XML templates only through html_escape(x, True), in the serialisers each class resolves to; '
                      'placeholders stay out of unquoted attribute position; the XML template is one well-formed element')
    rep.rule('R09.d', 'every reference of the shipped debug templates is escaped')
    rep.rule('R09.e', 'to_json / to_dict field agreement; keys an override takes from the inherited to_dict() are stored by it on every path')

    base = err.cls('HTTPException')
    fam = [base] + repo.subclasses(base, [err])
    _guarded(rep, rule_a, rep, repo, err, base, fam)
    _guarded(rep, rule_b, rep, repo, err, app, base)
    _guarded(rep, rule_c, rep, repo, err, base, fam)
    _guarded(rep, rule_d, rep, repo, err, fam)
    _guarded(rep, rule_e, rep, repo, err, base, fam)


def _base_init_positional(repo, err, base):
    """Positional parameter names of the response base class' __init__ (read from the pinned source)."""
    for b in base.node.bases:
        r = repo.resolve_class(err, b)
        if isinstance(r, ClassInfo) and r.name != 'Exception':
            init = repo.find_method(r, '__init__')
            if init is not None and not init.node.args.vararg:
                return [x.arg for x in init.node.args.posonlyargs + init.node.args.args][1:]
    return []


def value_origin(fi, node):
    """(expression, statement): the expression whose *evaluation* produces the value of ``node`` and the statement
    in which that evaluation happens -- single-assignment locals are followed back to their binding (``st = self.code;
    ...; f(status=st)`` evaluates ``self.code`` in the assignment, not in the call)."""
    st = _use_stmt(fi, node)
    for _ in range(8):
        if not (isinstance(node, ast.Name) and isinstance(node.ctx, ast.Load)) or st is None:
            break
        v = local_value(fi, node.id, st)
        if v is None:
            break
        node, st = v, getattr(v, '_vt_stmt', None) or _use_stmt(fi, v)
    return node, st


def _self_attr_stores(fi, attr=None):
    """[(attribute name, node)] for every write of ``self.<attr>`` in the function: assignment / augmented assignment /
    del targets and setattr / delattr calls with a constant name (a computed name counts for every attribute)."""
    ps = fi.params()
    me = ps[0] if ps else 'self'
    out = []
    for n in walk_body(fi.node):
        if isinstance(n, ast.Attribute) and isinstance(n.ctx, (ast.Store, ast.Del)) and isinstance(n.value, ast.Name) and n.value.id == me:
            out.append((n.attr, n))
        elif isinstance(n, ast.Call) and isinstance(n.func, ast.Name) and n.func.id in ('setattr', 'delattr') and len(n.args) >= 2 and \
                norm(n.args[0]) == me:
            out.append((n.args[1].value if isinstance(n.args[1], ast.Constant) else None, n))
    return [(a, n) for a, n in out if attr is None or a is None or a == attr]


def _self_uses(repo, cls, meth, seen=None):
    """(attributes of self read, methods of the class called) by a method, through the self.m() calls it makes; a
    computed ``getattr(self, ...)`` stands for every to_* serialiser of the class."""
    seen = {} if seen is None else seen
    if id(meth.node) in seen:
        return seen[id(meth.node)]
    reads, calls = set(), set()
    seen[id(meth.node)] = (reads, calls)
    ps = meth.params()
    if not ps:
        return reads, calls
    me = ps[0]

    def through(g):
        calls.add(g.name)
        r, c = _self_uses(repo, cls, g, seen)
        reads.update(r)
        calls.update(c)
    for n in walk_body(meth.node):
        if isinstance(n, ast.Attribute) and isinstance(n.ctx, ast.Load) and isinstance(n.value, ast.Name) and n.value.id == me:
            g = repo.find_method(cls, n.attr)
            if g is not None and not g.mod.external:
                through(g)
            else:
                reads.add(n.attr)
        elif isinstance(n, ast.Call) and isinstance(n.func, ast.Name) and n.func.id == 'getattr' and n.args and norm(n.args[0]) == me and \
                not (len(n.args) > 1 and isinstance(n.args[1], ast.Constant)):
            for c in repo.mro(cls):
                if isinstance(c, ClassInfo) and not c.mod.external:
                    for name, g in sorted(c.methods.items()):
                        if name.startswith('to_'):
                            through(g)
    return reads, calls


def check_constructor_order(rep, repo, err, base, init, icfg):
    """A rendering of the error made inside the constructor (the default body handed to the response base class, the
    adapt() for a requested type) sees the instance's fields *after* the constructor's overrides: no path leads from
    the rendering call to a write of a field the rendering reads.  Otherwise the body shows the class code / message /
    detail while status and later renderings show the given ones."""
    ps = init.params()
    me = ps[0] if ps else 'self'
    stores = _self_attr_stores(init)
    n = 0
    for c in walk_body(init.node):
        if not (isinstance(c, ast.Call) and isinstance(c.func, ast.Attribute) and isinstance(c.func.value, ast.Name) and c.func.value.id == me):
            continue
        g = repo.find_method(base, c.func.attr)
        if g is None or g.mod.external or g is init:
            continue
        reads, calls = _self_uses(repo, base, g)
        if not any(x.startswith('to_') for x in calls | {g.name}):
            continue
        n += 1
        st = stmt_of(err, c)
        after = icfg.reach(icfg.nodes_of(st), include_src=False)
        late = sorted(set(a or '<computed>' for a, sn in stores if (a is None or a in reads) and
                          (stmt_of(err, sn) is st or set(icfg.nodes_of(stmt_of(err, sn))) & after)))
        rep.check('R09.a', fkey(init, 'fields set before ' + norm(c.func)), not late,
                  '%s() is called after every field it reads has been set' % norm(c.func) if not late else
                  'HTTPException.__init__ calls %s() before self.%s is set: the rendered body shows the class value while the status '
                  'line / later renderings show the given one' % (norm(c.func), ', self.'.join(late)), err, c)
    if n < 1:
        raise AnalysisError('HTTPException.__init__: the rendering of the default body (a self.to_*() call) was not found')


def rule_a(rep, repo, err, base, fam):
    std = dict((k, int(v)) for k, v in http.HTTPStatus.__members__.items())
    codes = {}
    n = 0
    for c in fam:
        cv = c.class_attrs.get('code')
        if cv is None or c is base:
            continue
        code = repo.try_fold(cv, err)
        if not isinstance(code, int):
            rep.fail('R09.a', '%s::%s::code' % (ERR, c.name), 'code of %s is not a literal int' % c.name, err, c.node)
            continue
        n += 1
        member = ALIASES.get(c.name, snake(c.name))
        want = std.get(member)
        ok = want == code
        rep.check('R09.a', '%s::%s::code' % (ERR, c.name), ok, '%s.code = %d = HTTPStatus.%s' % (c.name, code, member) if ok else
                  '%s.code = %d but the standard code of %s is %s' % (c.name, code, member, want), err, c.node)
        codes.setdefault(code, []).append(c.name)
        fam_base = 'BadRequest' if 400 <= code < 500 else ('InternalServerError' if 500 <= code < 600 else None)
        ok = fam_base is not None and (c.name == fam_base or repo.is_subclass(c, fam_base))
        rep.check('R09.a', '%s::%s::family' % (ERR, c.name), ok, '%dxx class derives from %s' % (code // 100, fam_base) if ok else
                  '%s (%d) does not derive from %s' % (c.name, code, fam_base), err, c.node)
    if n < 31:
        raise AnalysisError('only %d error classes with literal codes found (floor 31)' % n)
    dup = dict((k, v) for k, v in codes.items() if len(v) > 1)
    rep.check('R09.a', '%s::unique codes' % ERR, not dup, 'no two error classes share a code (ERROR_CODE_MAP keeps all)' if not dup else
              'classes share a status code (ERROR_CODE_MAP silently keeps one): %s' % dup, err)
    init = base.methods['__init__']
    base_names = [norm(b) for b in base.node.bases]
    sup = [c for c in walk_body(init.node) if isinstance(c, ast.Call) and isinstance(c.func, ast.Attribute) and c.func.attr == '__init__' and
           ('super' in norm(c.func) or norm(c.func.value) in base_names)]
    if len(sup) != 1:
        raise AnalysisError('HTTPException.__init__: the call of the response base class __init__ was not found (%d candidates)' % len(sup))
    pos = _base_init_positional(repo, err, base)
    if 'super' not in norm(sup[0].func):
        pos = ['self'] + pos
    kw, opaque = call_keywords(init, sup[0], pos)
    sst = stmt_of(err, sup[0])

    def arg(name):
        return norm(expand_expr(init, kw[name], sst)) if name in kw else None
    cs_ = [s for s in stmts_of(init.node) if isinstance(s, ast.Assign) and any(norm(t) == 'self.code' for t in s.targets)]
    icfg = cfg_of(init)
    # the override: the one write of self.code in the constructor, which every path to the base __init__ executes
    writes = _self_attr_stores(init, 'code')
    override = len(cs_) == 1 and len(writes) == 1 and any(t is writes[0][1] for t in cs_[0].targets) and \
        norm(expand_expr(init, cs_[0].value, cs_[0])) == "kwargs.pop('code', self.code)" and \
        icfg.must_pass(icfg.nodes_of(cs_[0]), icfg.entry, icfg.nodes_of(sst))
    # the status: where is the value handed over as ``status`` *evaluated*?  Either it is a read of self.code that the
    # override dominates (in the call itself, in the binding of a local, in the construction of a **dict), or it is the
    # very value the override stores (``code = kwargs.pop('code', self.code); self.code = code; ...status=code``)
    ok, why = False, 'BaseResponse.__init__ is not given status=self.code after self.code = kwargs.pop(\'code\', self.code)'
    if override and 'status' in kw:
        origin, ost = value_origin(init, kw['status'])
        if norm(origin) == 'self.code':
            after = ost is not None and ost is not cs_[0] and icfg.must_pass(icfg.nodes_of(cs_[0]), icfg.entry, icfg.nodes_of(ost)) and \
                (ost is sst or icfg.must_pass(icfg.nodes_of(ost), icfg.entry, icfg.nodes_of(sst)))
            ok = bool(after)
            if not ok:
                why = 'the status handed to BaseResponse.__init__ is read from self.code at line %s, where self.code = kwargs.pop(\'code\', ' \
                      'self.code) (line %s) has not (always) run yet: an error created with code=... is sent with the code of its class ' \
                      'while every body shows the given code' % (getattr(origin, 'lineno', '?'), cs_[0].lineno)
        else:
            ok = origin is value_origin(init, cs_[0].value)[0]
    rep.check('R09.a', fkey(init, 'status=self.code'), ok, 'the response status is the instance code (given code, else the class code)' if ok else
              why, err, init.node)
    body_arg = norm(strip_encode(expand_expr(init, kw['response'], sst))) if 'response' in kw else None
    ok = body_arg == 'self.to_text()' and arg('mimetype') == 'DEFAULT_MIME'
    rep.check('R09.a', fkey(init, 'default body'), ok, 'the default body is the plain-text rendering, labelled DEFAULT_MIME' if ok else
              'the default body / mimetype pair of HTTPException changed', err, init.node)
    check_constructor_order(rep, repo, err, base, init, icfg)
    _guarded(rep, check_handler_slots, rep, repo, err, base)
    _guarded(rep, check_uncaught_type, rep, repo, err)
    _guarded(rep, check_class_defaults_constant, rep, repo, err, fam)
    _guarded(rep, check_constructor_chain, rep, repo, err, base, fam)


def adapt_site(repo, fi, ename):
    """(hops, function, name of the error in it, its ``<error>.adapt(...)`` calls): where a renderer adapts its error.
    It does so itself, or it hands the error -- as a plain argument -- to the one function of the analysed tree (of this
    or of another module, possibly through a second one) that does.  hops: [(caller, name of the error in the caller,
    call, callee, binding of the callee's parameters)] from the renderer down to that function."""
    hops, F, E = [], fi, ename
    for _ in range(3):
        ac = [c for c in walk_body(F.node) if isinstance(c, ast.Call) and norm(c.func) == E + '.adapt']
        if ac:
            return hops, F, E, ac
        cands = []
        for c in walk_body(F.node):
            if isinstance(c, ast.Call) and any(isinstance(a, ast.Name) and a.id == E for a in list(c.args) + [k.value for k in c.keywords]):
                g = _resolve_callee(repo, F.mod, F, c)
                if g is not None and not any(g is h[0] for h in hops) and g is not F:
                    cands.append((c, g))
        if len(cands) != 1:
            break
        c, g = cands[0]
        binding = call_binding(g, c)
        ps = [p for p, v in sorted((binding or {}).items()) if isinstance(v, ast.Name) and v.id == E]
        if len(ps) != 1:
            raise AnalysisError('%s: the error is handed to %s(...) in a way that cannot be followed' % (fi.qualname, g.qualname))
        hops.append((F, E, c, g, binding))
        F, E = g, ps[0]
    raise AnalysisError('%s: the call %s.adapt(...) was not found' % (fi.qualname, ename))


def renderer_adapts_negotiated(repo, err, mod_, fi, ename):
    """The renderer negotiates over the errors module's table, adapts the error to the winner -- exactly once, on every
    path that returns -- and returns that same error; in place or through the function(s) it delegates to."""
    hops, F, E, ac = adapt_site(repo, fi, ename)
    a0 = argn(ac[0], 'mimetype', 0)
    if len(ac) != 1 or a0 is None:
        return False
    adapt_stmt = stmt_of(F.mod, ac[0])
    if hops:
        # the negotiation as the delegate writes it, in the renderer's terms
        e = expand_expr(F, a0, adapt_stmt)
        for caller, ce_, c, g, binding in reversed(hops):
            cst = stmt_of(caller.mod, c)
            b2 = dict((p, v if isinstance(v, tuple) else expand_expr(caller, v, cst)) for p, v in binding.items())
            e = substitute_params(e, b2, g, caller.mod, caller)
        if not negotiated_over_table(repo, err, mod_, fi, e, None, expanded=True):
            return False
    elif not negotiated_over_table(repo, err, mod_, fi, a0, adapt_stmt):
        return False
    # the same error comes back: the adapting function returns it, every function on the way returns it or the
    # result of the call that adapts it
    rets = returns_of(F)
    if not rets or any(r.value is None or norm(r.value) != E for r in rets) or (hops and _falls_off(F)):
        return False
    for caller, ce_, c, g, binding in hops:
        rets = returns_of(caller)
        if not rets or _falls_off(caller):
            return False
        for r in rets:
            if r.value is None or not (norm(r.value) == ce_ or value_origin(caller, r.value)[0] is c):
                return False
    # ... on every path: a return that skips adapt() leaves body and Content-Type as constructed
    fcfg = cfg_of(F)
    if not fcfg.must_pass(fcfg.nodes_of(adapt_stmt), fcfg.entry, fcfg.exit, normal_only=True):
        return False
    for caller, ce_, c, g, binding in hops:
        ccfg = cfg_of(caller)
        if not ccfg.must_pass(ccfg.nodes_of(stmt_of(caller.mod, c)), ccfg.entry, ccfg.exit, normal_only=True):
            return False
    return True


ROUTE_MOD = 'clastic.route'
ERROR_PARAM = '_error'            # the keyword dispatch hands the error under
ROUTE_RENDERER = 'render_error'   # the attribute of a bound route that holds its renderer


def _route_error_executors(repo):
    """The execute_error() of BoundRoute and of every class of the tree that derives from it and defines its own."""
    route = repo.mod(ROUTE_MOD)
    first = route.func('BoundRoute.execute_error')
    out = [first]
    br = first.cls if isinstance(first.cls, ClassInfo) else None
    if br is not None:
        for c in repo.subclasses(br):
            m = c.methods.get('execute_error')
            if m is not None and not any(m is x for x in out):
                out.append(m)
    return out


def check_error_executor(rep, repo, ex, renderers):
    """What a route's execute_error() hands back to dispatch is what its renderer made of the error: every ``return`` yields the
    result of a call that runs ``self.render_error`` (handed to inject(...) / called in place / a local naming it) -- or of a
    renderer that negotiates itself; the function does not end without a ``return``.  Whatever else happens must be an
    exception: that is what sends dispatch to the default renderer.  A path that hands back the error it was given (or
    nothing) delivers a response nobody negotiated: body and Content-Type stay the plain text of the constructor."""
    ps = ex.params()
    if len(ps) < 2 or ERROR_PARAM not in ps:
        raise AnalysisError('%s: the %s parameter was not found' % (ex.qualname, ERROR_PARAM))
    me = ps[0]
    renderer = '%s.%s' % (me, ROUTE_RENDERER)
    if _name_stores(ex, me):
        raise AnalysisError('%s re-binds %s: not followed' % (ex.qualname, me))
    rets = returns_of(ex)

    def origin(e, use, depth=0):
        """('ok' | 'bad' | 'unknown', text): is the value the result of running the renderer?  A local bound several times is
        what each of its bindings makes it."""
        e = expand_expr(ex, e, use)
        if isinstance(e, ast.Call):
            parts = [e.func] + [a.value if isinstance(a, ast.Starred) else a for a in e.args] + [k.value for k in e.keywords]
            if any(norm(x) == renderer for x in parts):
                return 'ok', None
            if isinstance(e.func, ast.Name) and not (e.func.id in _param_names(ex) or _name_stores(ex, e.func.id)):
                k, m_, obj = repo.resolve(ex.mod, e.func.id)
                if k == 'func' and any(obj is fi_ for mod__, fi_ in renderers):
                    return 'ok', None
            return 'unknown', short(e, 50)
        if isinstance(e, ast.Name) and e.id in _param_names(ex):
            return 'bad', 'its own argument %s' % e.id
        if isinstance(e, ast.Name) and depth < 3:
            verdicts = []
            for n in _name_stores(ex, e.id):
                st = stmt_of(ex.mod, n) if isinstance(n, ast.Name) else None
                if isinstance(st, ast.Assign) and len(st.targets) == 1 and st.targets[0] is n:
                    verdicts.append(origin(st.value, st, depth + 1))
                else:
                    verdicts.append(('unknown', e.id))
            for want in ('bad', 'unknown'):
                hit = [v for v in verdicts if v[0] == want]
                if hit:
                    return hit[0]
            return ('ok', None) if verdicts else ('unknown', e.id)
        if isinstance(e, (ast.Constant, ast.Attribute, ast.Subscript, ast.Dict, ast.List, ast.Tuple)) and depth == 0:
            return 'bad', short(e, 40)
        return 'unknown', short(e, 50)      # (one binding of several, e.g. an initial None: which one reaches the return is not followed)
    bad, unknown = [], []
    for r in rets:
        if r.value is None:
            bad.append((r, 'nothing'))
            continue
        verdict, text = origin(r.value, r)
        if verdict == 'bad':
            bad.append((r, text))
        elif verdict == 'unknown':
            unknown.append((r, text))
    if not bad and _falls_off(ex):
        bad.append((ex.node, 'nothing (a path ends without a return)'))
    if not bad and unknown:
        raise AnalysisError('%s: cannot tell whether %s is the result of running %s' % (ex.qualname, unknown[0][1], renderer))
    ok = bool(rets) and not bad and not _self_attr_stores(ex, ROUTE_RENDERER)
    rep.check('R09.b', fkey(ex, 'hands back what the renderer returns'), ok,
              'every value %s returns is the result of running the route\'s %s; anything else is an exception' % (ex.name, ROUTE_RENDERER) if ok else
              '%s returns %s without running the route\'s %s: dispatch takes it for the rendered response, the default renderer is '
              'never reached and nobody negotiates the format (the client gets the constructor\'s text/plain whatever it accepts)' %
              (ex.qualname, bad[0][1] if bad else 'a value', ROUTE_RENDERER), ex.mod, bad[0][0] if bad else ex.node)


def check_error_fallback(rep, repo, app, renderers):
    """Where the application asks the route of an error to render it (``<route>.execute_error(...)``): the call stands in a ``try``
    whose handler catches Exception -- a route without a renderer, a renderer that fails, an injection that fails all arrive as
    one --, every normal path through that handler replaces the outcome by the result of a negotiating renderer
    (default_render_error), and the value the function then returns is the one of those two, not re-bound in between."""
    sites = []
    for fi in app.functions.values():
        for c in walk_body(fi.node):
            if isinstance(c, ast.Call) and isinstance(c.func, ast.Attribute) and c.func.attr == 'execute_error':
                sites.append((fi, c))
    if not sites:
        raise AnalysisError('clastic.application: the call <route>.execute_error(...) that renders an error was not found')

    def outcome(fi, st, call):
        """('return', None) / ('bind', name) when the statement returns / names the result of the call, else None"""
        if isinstance(st, ast.Return) and st.value is call:
            return ('return', None)
        if isinstance(st, ast.Assign) and st.value is call and len(st.targets) == 1 and isinstance(st.targets[0], ast.Name):
            return ('bind', st.targets[0].id)
        return None

    def is_fallback(fi, e):
        if not (isinstance(e, ast.Call) and isinstance(e.func, ast.Name)) or e.func.id in _param_names(fi) or _name_stores(fi, e.func.id):
            return False
        k, m_, obj = repo.resolve(fi.mod, e.func.id)
        return k == 'func' and any(obj is fi_ for mod__, fi_ in renderers)
    for fi, call in sites:
        st = stmt_of(fi.mod, call)
        out = outcome(fi, st, call)
        if out is None:
            raise AnalysisError('%s: what becomes of the result of %s cannot be followed' % (fi.qualname, short(call, 40)))
        cfg = cfg_of(fi)
        h = protected_by(fi, call, 'Exception')
        why = None
        if h is None:
            why = 'the call %s is not under a handler that catches Exception: a route without a renderer / a failing renderer is not ' \
                  'answered by the default renderer' % short(call, 50)
        else:
            fb = []
            for s_ in [x for b in h.body for x in ast.walk(b) if isinstance(x, ast.stmt)]:
                v = s_.value if isinstance(s_, (ast.Return, ast.Assign)) else None
                if v is not None and is_fallback(fi, v) and (isinstance(s_, ast.Return) or outcome(fi, s_, v) == out):
                    fb.append(s_)
            hn = cfg.handler_nodes(h)
            if not hn:
                raise AnalysisError('%s: the handler around %s is not in the control-flow graph' % (fi.qualname, short(call, 40)))
            if not fb or not cfg.must_pass(cfg.nodes_of_all(fb), hn, cfg.exit, normal_only=True):
                why = 'when %s raises, the handler does not always answer with the default renderer: the error goes out as it was ' \
                      'constructed (text/plain), whatever the client accepts' % short(call, 50)
            elif out[0] == 'bind':
                # the name holds one of the two results when the function returns it
                src = cfg.nodes_of(st) + cfg.nodes_of_all(fb)
                rn = [n for r in returns_of(fi) for n in cfg.nodes_of(r)]
                after = [m for x in src for m in cfg.succ[x]]
                reached = cfg.reach(after, avoid=src)
                mid = (reached & cfg.coreach(rn, avoid=src)) - set(rn)
                late = [r for r in returns_of(fi) if set(cfg.nodes_of(r)) & reached]
                if cfg._kills(ast.Name(id=out[1], ctx=ast.Load()), mid) or \
                        any(not (isinstance(r.value, ast.Name) and r.value.id == out[1]) for r in late if not is_fallback(fi, r.value)):
                    why = 'the rendered response held in %s is not what %s returns afterwards' % (out[1], fi.qualname)
        ok = why is None
        rep.check('R09.b', fkey(fi, 'a failing route renderer falls back to the default renderer'), ok,
                  'the result of execute_error(...) or, on any Exception, of default_render_error(...) is the response' if ok else why, fi.mod, call)
        if ok:
            check_no_unrendered_error(rep, repo, fi, call, [st] + fb, is_fallback)


def _is_error_test(repo, fi, t, var):
    """``isinstance(var, HTTPException)`` (the class of the errors module, alone or in a tuple of classes)"""
    if not (isinstance(t, ast.Call) and isinstance(t.func, ast.Name) and t.func.id == 'isinstance' and len(t.args) == 2 and norm(t.args[0]) == var):
        return False
    base = repo.mod(ERR).cls('HTTPException')
    for x in (t.args[1].elts if isinstance(t.args[1], ast.Tuple) else [t.args[1]]):
        if isinstance(x, (ast.Name, ast.Attribute)):
            try:
                r = repo.resolve_class(fi.mod, x)
            except Exception:
                r = None
            if r is base:
                return True
    return False


def check_no_unrendered_error(rep, repo, fi, call, render_stmts, is_fallback):
    """The function that sends an error to the renderers returns no error that has not been there: wherever it returns the
    variable it renders (the ``_error`` it hands to execute_error), every path from the last binding of that variable -- or from the
    entry -- to the ``return`` either runs one of the rendering statements or passes a test that tells the value is not an
    HTTPException.  That holds for every way the search for a route ends: by ``break`` / ``return`` inside the loop, by
    exhaustion of the loop, and for the error a later route hands back unchanged (a non-breaking error that stays the answer).
    An error that skips the renderers goes out as its constructor left it: text/plain whatever the client accepts."""
    kws, opaque = call_keywords(fi, call)
    ev = kws.get(ERROR_PARAM)
    if ev is None and isinstance(call.func.value, ast.Attribute):
        ev = call.func.value.value      # <error>.source_route.execute_error(...)
    if not isinstance(ev, ast.Name):
        raise AnalysisError('%s: the error handed to %s cannot be named' % (fi.qualname, short(call, 40)))
    var = ev.id
    cfg = cfg_of(fi)
    rendered = set(cfg.nodes_of_all(render_stmts))
    for s_ in stmts_of(fi.node):
        v = s_.value if isinstance(s_, (ast.Return, ast.Assign)) else None
        if isinstance(v, ast.Call) and (is_fallback(fi, v) or (isinstance(v.func, ast.Attribute) and v.func.attr == 'execute_error')):
            rendered.update(cfg.nodes_of(s_))
    cleared = set()
    for n in cfg.nodes:
        try:
            cs = cfg.conds_at(n.id)
            if n.kind == 'branch':      # the branch node itself stands for "the test came out this way"
                cs = list(cs) + list(cfg._expand_named(expand_conds([(n.test, n.pol)]), n.id))
        except AnalysisError:
            continue
        if has_cond(cs, lambda t: _is_error_test(repo, fi, t, var), False):
            cleared.add(n.id)
    binds = set()
    for x in _name_stores(fi, var):
        s_ = x if isinstance(x, ast.stmt) else stmt_of(fi.mod, x) if not isinstance(x, ast.ExceptHandler) else None
        if isinstance(s_, ast.Assign) and len(s_.targets) == 1 and s_.targets[0] is x and isinstance(s_.value, ast.Constant):
            cleared.update(cfg.nodes_of(s_))     # ``ret = None``: a constant is no error
            continue
        binds.update(cfg.nodes_of(s_) if s_ is not None else cfg.handler_nodes(x))
    binds -= rendered
    bad = []
    for r in returns_of(fi):
        if not (isinstance(r.value, ast.Name) and r.value.id == var):
            continue
        rn = [n for n in cfg.nodes_of(r)]
        if not rn:
            continue
        through = rendered | cleared
        srcs = ([cfg.entry] if var in _param_names(fi) else []) + [m for b in binds for m in cfg.succ[b]]
        if not cfg.must_pass(through, srcs, rn):
            bad.append(r)
    ok = not bad
    rep.check('R09.b', fkey(fi, 'no error is returned unrendered'), ok,
              'every path on which %s returns %s as an HTTPException has run execute_error(...) / the default renderer' % (fi.name, var) if ok else
              '%s can return %s without having rendered it: a path from a binding of %s (or the entry) reaches this return past neither '
              'execute_error(...) / the default renderer nor a test that it is no HTTPException -- e.g. when the loop over the routes is '
              'exhausted, or for a non-breaking error a later route hands back; the error goes out as constructed (text/plain), whatever '
              'the client accepts' % (fi.qualname, var, var), fi.mod, bad[0] if bad else call)


def check_adapt_override(rep, repo, err, base, msm, m):
    """An error type's own adapt(): it either defers to the inherited one (same requested type, on every path, and sets
    neither body nor Content-Type itself) or it pairs body and header from the table like the base class does."""
    ps = m.params()
    me = ps[0] if ps else 'self'
    bases = [norm(b) for b in m.cls.node.bases] if isinstance(m.cls, ClassInfo) else []
    sup = [x for x in walk_body(m.node) if isinstance(x, ast.Call) and isinstance(x.func, ast.Attribute) and x.func.attr == 'adapt' and
           ((isinstance(x.func.value, ast.Call) and norm(x.func.value.func) == 'super') or norm(x.func.value) in bases)]
    sets = [n for n in walk_body(m.node)
            if (isinstance(n, ast.Attribute) and isinstance(n.ctx, (ast.Store, ast.Del)) and norm(n.value) == me and n.attr in ('data', 'response', 'content_type', 'mimetype', 'headers'))
            or (isinstance(n, ast.Subscript) and isinstance(n.ctx, (ast.Store, ast.Del)) and norm(n.value) == me + '.headers')
            or (isinstance(n, ast.Call) and norm(n.func) in (me + '.set_data', me + '.headers.set', me + '.headers.add', me + '.headers.update', me + '.headers.__setitem__'))]
    looks = [n for n in walk_body(m.node) if _is_table(n)]
    if sup and not sets:
        mcfg = cfg_of(m)
        args = list(sup[0].args)
        if not (isinstance(sup[0].func.value, ast.Call) and norm(sup[0].func.value.func) == 'super'):
            args = args[1:]
        a0 = args[0] if args else kwarg(sup[0], 'mimetype')
        ok = len(sup) == 1 and len(ps) >= 2 and isinstance(a0, ast.Name) and a0.id == ps[1] and not _name_stores(m, ps[1]) and \
            mcfg.must_pass(mcfg.nodes_of(stmt_of(m.mod, sup[0])), mcfg.entry, mcfg.exit, normal_only=True)
        rep.check('R09.b', fkey(m, 'defers to the inherited adapt'), ok, '%s defers to the inherited adapt() for the requested type' % m.qualname if ok else
                  '%s does not hand the requested type to the inherited adapt() on every path: body and Content-Type of this error type are not '
                  'always paired from the format table' % m.qualname, m.mod, sup[0])
    elif looks:
        check_adapt(rep, repo, err, base, msm, m)
    else:
        rep.fail('R09.b', fkey(m, 'body and header from one pair'),
                 '%s sets the body / headers of this error type without consulting %s: the Content-Type need not agree with the body' % (m.qualname, TABLE), m.mod, m.node)


_TABLE_MUTATORS = ('update', 'pop', 'popitem', 'clear', 'setdefault', '__setitem__', '__delitem__')


def check_table_constant(rep, repo, err):
    """The format table the checks fold from its definition is the table the code sees at every request: no module of the
    tree stores into it, deletes from it, calls a mutating method on it or re-binds it after import."""
    bad = []
    home = table_home(repo, err)
    for m in repo.all_internal_modules():
        if m is not err and m is not home:
            k, m_, obj = repo.resolve(m, TABLE)
            if m_ is not home:
                continue
        for n in ast.walk(m.tree):
            hit = None
            if isinstance(n, ast.Subscript) and isinstance(n.ctx, (ast.Store, ast.Del)) and _is_table(n.value):
                hit = n
            elif isinstance(n, ast.Call) and isinstance(n.func, ast.Attribute) and n.func.attr in _TABLE_MUTATORS and _is_table(n.func.value):
                hit = n
            elif isinstance(n, ast.Global) and TABLE in n.names:
                hit = n
            elif isinstance(n, ast.Attribute) and isinstance(n.ctx, (ast.Store, ast.Del)) and n.attr == TABLE:
                hit = n
            if hit is None:
                continue
            fn = m.enclosing_function(hit)
            fi = m.func_of_node(fn) if fn is not None and not isinstance(fn, ast.Lambda) else None
            if fi is not None and not isinstance(hit, ast.Global) and (TABLE in _param_names(fi) or _name_stores(fi, TABLE)):
                continue        # a local / parameter of the same name
            bad.append((m, hit))
    rep.check('R09.b', '%s::%s is constant' % (ERR, TABLE), not bad, 'nothing modifies the format table after its definition' if not bad else
              '%s is modified at run time (%s): what one request adds to / removes from the table decides the formats offered to and chosen '
              'for every later request' % (TABLE, short(bad[0][1], 60)), bad[0][0] if bad else err, bad[0][1] if bad else None)


_SLOTS = (('not_found_type', 404), ('method_not_allowed_type', 405), ('server_error_type', 500))


def check_handler_slots(rep, repo, err, base):
    """The error types an error handler creates for "no route", "wrong method" and "uncaught exception" carry the status
    of that situation: in ErrorHandler and every subclass, each slot holds a class of the family whose code is the slot's."""
    eh = err.classes.get('ErrorHandler')
    if eh is None:
        raise AnalysisError('anchor vanished: class %s::ErrorHandler' % ERR)
    n = 0
    for c in [eh] + repo.subclasses(eh):
        for slot, want in _SLOTS:
            if slot not in c.class_attrs and c is not eh:
                continue
            val = c.class_attrs.get(slot)
            if val is None:
                raise AnalysisError('%s.%s: the slot is not a plain class attribute' % (c.name, slot))
            if _instance_attr_written(repo, c, slot):
                raise AnalysisError('%s.%s is also written on instances: not followed' % (c.name, slot))
            r = repo.resolve_class(c.mod, val)
            code = None
            if isinstance(r, ClassInfo) and (r is base or repo.is_subclass(r, base)):
                dc, cv = repo.class_attr(r, 'code')
                code = repo.try_fold(cv, dc.mod) if cv is not None and not isinstance(cv, (ast.FunctionDef, ast.AsyncFunctionDef)) else None
            n += 1
            ok = code == want
            rep.check('R09.a', '%s::%s.%s' % (c.mod.name, c.name, slot), ok, '%s.%s = %s (%s)' % (c.name, slot, norm(val), code) if ok else
                      '%s.%s = %s, which is not an error type with status %d (%s): that situation is answered with another status' %
                      (c.name, slot, norm(val), want, 'code %s' % code if code is not None else 'not a class of the HTTPException family'), c.mod, val)
    if n < 3:
        raise AnalysisError('ErrorHandler: only %d of the slots not_found_type / method_not_allowed_type / server_error_type found' % n)


def check_uncaught_type(rep, repo, err):
    """An uncaught exception is answered with the handler's server-error type (status 500, slot checked above): every
    uncaught_to_response of the ErrorHandler family returns an instance made from a ``server_error_type`` slot, or re-raises."""
    eh = err.classes.get('ErrorHandler')
    if eh is None:
        raise AnalysisError('anchor vanished: class %s::ErrorHandler' % ERR)
    n = 0
    for c in [eh] + repo.subclasses(eh):
        m = c.methods.get('uncaught_to_response')
        if m is None:
            continue
        n += 1
        bad = []
        for r in returns_of(m):
            if r.value is None:
                bad.append(r)
                continue
            for f_, e in value_leaves(repo, m, r.value):
                fn = expand_expr(f_, e.func, _use_stmt(f_, e)) if isinstance(e, ast.Call) else None
                if not (fn is not None and isinstance(fn, ast.Attribute) and fn.attr == 'server_error_type'):
                    bad.append(e)
        ok = not bad and not _falls_off(m)
        rep.check('R09.a', fkey(m, 'answers with the server error type'), ok, '%s answers with an instance of the handler\'s server_error_type' % m.qualname if ok else
                  '%s can answer an uncaught exception with %s instead of an instance of the handler\'s server_error_type' %
                  (m.qualname, short(bad[0], 50) if bad else 'None (falls off the end)'), c.mod, bad[0] if bad else m.node)
    if n < 2:
        raise AnalysisError('uncaught_to_response: only %d definition(s) found in the ErrorHandler family' % n)


_CLASS_DEFAULTS = ('code', 'message', 'detail', 'error_type')


def check_class_defaults_constant(rep, repo, err, fam):
    """The class-level code / message / detail of the error types are what the status table (R09.a) and every instance
    without an override rely on: no code of the errors module writes them on a class (``Cls.detail = ...``,
    ``type(self).detail += ...``, ``self.__class__.code = ...``, ``cls.message = ...``) -- such a write outlives the request."""
    names = set(c.name for c in fam)
    bad = []
    for n in ast.walk(err.tree):
        if not (isinstance(n, ast.Attribute) and isinstance(n.ctx, (ast.Store, ast.Del)) and n.attr in _CLASS_DEFAULTS):
            continue
        r = n.value
        on_class = (isinstance(r, ast.Name) and (r.id in names or r.id == 'cls')) or \
            (isinstance(r, ast.Call) and isinstance(r.func, ast.Name) and r.func.id == 'type' and len(r.args) == 1) or \
            (isinstance(r, ast.Attribute) and r.attr == '__class__')
        if on_class:
            fn = err.enclosing_function(n)
            fi = err.func_of_node(fn) if fn is not None and not isinstance(fn, ast.Lambda) else None
            if isinstance(r, ast.Name) and r.id != 'cls' and fi is not None and (r.id in _param_names(fi) or _name_stores(fi, r.id)):
                continue
            bad.append(n)
    for n in ast.walk(err.tree):
        if isinstance(n, ast.Call) and isinstance(n.func, ast.Name) and n.func.id == 'setattr' and len(n.args) >= 2 and \
                (not isinstance(n.args[1], ast.Constant) or n.args[1].value in _CLASS_DEFAULTS):
            r = n.args[0]
            if (isinstance(r, ast.Name) and (r.id in names or r.id == 'cls')) or (isinstance(r, ast.Call) and norm(r.func) == 'type') or \
                    (isinstance(r, ast.Attribute) and r.attr == '__class__'):
                bad.append(n)
    rep.check('R09.a', '%s::class defaults are constant' % ERR, not bad, 'no code writes code / message / detail / error_type on an error class' if not bad else
              'a class-level default of an error type is written at run time (%s): what one request stores shows up in the status / body of '
              'every later error of that type' % short(err.parents.get(bad[0], bad[0]), 60), err, bad[0] if bad else None)


def _base_popped_keys(base_init):
    """Keys HTTPException.__init__ takes out of its **kwargs (``kwargs.pop('<key>', ...)``)."""
    kwn = base_init.node.args.kwarg.arg if base_init.node.args.kwarg else None
    out = set()
    for n in walk_body(base_init.node):
        if isinstance(n, ast.Call) and isinstance(n.func, ast.Attribute) and n.func.attr in ('pop', 'get') and norm(n.func.value) == kwn and n.args and \
                isinstance(n.args[0], ast.Constant) and isinstance(n.args[0].value, str):
            out.add(n.args[0].value)
    return out


def check_constructor_chain(rep, repo, err, base, fam):
    """"... or the code given to the instance": a constructor of an error type hands what it was given on to the next
    constructor -- its **kwargs as they came (own keys may be taken out, none of the keys HTTPException.__init__ reads), its
    *args, its ``detail`` -- exactly once, on every path, so that code / message / detail / error_type / mimetype given to any
    error type reach the instance."""
    binit = base.methods['__init__']
    std = _base_popped_keys(binit) | set(x.arg for x in binit.node.args.args[1:] + binit.node.args.kwonlyargs)
    if len(std) < 5:
        raise AnalysisError('HTTPException.__init__: the keys it reads from **kwargs were not found')
    for c in fam:
        m = c.methods.get('__init__')
        if c is base or m is None:
            continue
        a = m.node.args
        me = m.params()[0] if m.params() else 'self'
        bases = [norm(b) for b in c.node.bases]
        sup = [x for x in walk_body(m.node) if isinstance(x, ast.Call) and isinstance(x.func, ast.Attribute) and x.func.attr == '__init__' and
               ((isinstance(x.func.value, ast.Call) and norm(x.func.value.func) == 'super') or norm(x.func.value) in bases)]
        mcfg = cfg_of(m)
        why = None
        if len(sup) != 1:
            why = 'calls the next constructor %d times' % len(sup)
        elif not mcfg.must_pass(mcfg.nodes_of(stmt_of(c.mod, sup[0])), mcfg.entry, mcfg.exit, normal_only=True):
            why = 'does not call the next constructor on every path'
        else:
            call = sup[0]
            args = list(call.args)
            if not (isinstance(call.func.value, ast.Call) and norm(call.func.value.func) == 'super'):
                args = args[1:]     # Base.__init__(self, ...)
            kwn, van = (a.kwarg.arg if a.kwarg else None), (a.vararg.arg if a.vararg else None)
            if kwn is not None:
                if not any(k.arg is None and isinstance(k.value, ast.Name) and k.value.id == kwn for k in call.keywords) or _name_stores(m, kwn):
                    why = 'does not pass its **%s on' % kwn
                else:
                    def handed_on(pop_call, key):
                        """``v = kw.pop('<key>', ...)`` whose value goes to the next constructor under the same name (or as the
                        leading positional argument that ``detail`` is)"""
                        par = c.mod.parents.get(pop_call)
                        if not (isinstance(par, ast.Assign) and par.value is pop_call and len(par.targets) == 1 and isinstance(par.targets[0], ast.Name)):
                            return False
                        v = par.targets[0].id
                        if len(_name_stores(m, v)) != 1:
                            return False
                        return any(k.arg == key and isinstance(k.value, ast.Name) and k.value.id == v for k in call.keywords) or \
                            (key == 'detail' and args and isinstance(args[0], ast.Name) and args[0].id == v)
                    for n in walk_body(m.node):
                        key = None
                        if isinstance(n, ast.Call) and isinstance(n.func, ast.Attribute) and norm(n.func.value) == kwn:
                            if n.func.attr in ('pop', 'setdefault', '__setitem__', '__delitem__') and n.args:
                                key = n.args[0].value if isinstance(n.args[0], ast.Constant) else '<computed>'
                                if n.func.attr == 'pop' and isinstance(key, str) and handed_on(n, key):
                                    key = None
                            elif n.func.attr in ('clear', 'popitem'):
                                key = '<any>'
                            elif n.func.attr == 'update':
                                keys = [k.arg for k in n.keywords] + [k_.value if isinstance(k_, ast.Constant) else None
                                                                     for a_ in n.args if isinstance(a_, ast.Dict) for k_ in a_.keys]
                                if any(not isinstance(a_, ast.Dict) for a_ in n.args):
                                    keys.append(None)
                                bad = [k for k in keys if k is None or k in std]
                                key = (bad[0] or '<computed>') if bad else None
                        elif isinstance(n, ast.Subscript) and isinstance(n.ctx, (ast.Store, ast.Del)) and norm(n.value) == kwn:
                            key = n.slice.value if isinstance(n.slice, ast.Constant) else '<computed>'
                        if key is not None and (key in std or key in ('<computed>', '<any>')):
                            why = 'takes %r out of / overwrites it in **%s before the next constructor sees it' % (key, kwn)
                # explicit keywords of the call that shadow what the caller gave
                def passes_given(k):
                    if not isinstance(k.value, ast.Name):
                        return False
                    if k.value.id == k.arg and k.arg in _param_names(m):
                        return True
                    src = local_value(m, k.value.id)
                    return isinstance(src, ast.Call) and isinstance(src.func, ast.Attribute) and src.func.attr == 'pop' and norm(src.func.value) == kwn and \
                        bool(src.args) and isinstance(src.args[0], ast.Constant) and src.args[0].value == k.arg
                fixed = [k.arg for k in call.keywords if k.arg in std and not passes_given(k)]
                if why is None and fixed:
                    why = 'passes a fixed %s= to the next constructor' % fixed[0]
            if why is None and van is not None and not any(isinstance(x, ast.Starred) and isinstance(x.value, ast.Name) and x.value.id == van for x in args):
                why = 'does not pass its *%s on' % van
            named = [x.arg for x in a.posonlyargs + a.args + a.kwonlyargs][1:]
            for pname in named:
                if why is None and pname in std:
                    passed = any(isinstance(x, ast.Name) and x.id == pname for x in args) or \
                        any(k.arg == pname and isinstance(k.value, ast.Name) and k.value.id == pname for k in call.keywords)
                    if not passed or _name_stores(m, pname):
                        why = 'does not pass its %s parameter on (unchanged)' % pname
        if len(sup) == 1:
            # ... and what was given stays: once the next constructor has stored code / message / detail / error_type, this one
            # writes such a field only where it is known to be unset (``self.error_type is None``), never over a given value
            sst = stmt_of(c.mod, sup[0])
            later = mcfg.reach(mcfg.nodes_of(sst), include_src=False)
            over = []
            for attr, node in _self_attr_stores(m):
                if attr is not None and attr not in _CLASS_DEFAULTS:
                    continue
                st = stmt_of(c.mod, node)
                if st is sst or not (set(mcfg.nodes_of(st)) & later):
                    continue
                if attr is None or not implies_absent(conds(m, st), '%s.%s' % (me, attr)):
                    over.append((attr or '<computed>', st))
            rep.check('R09.a', fkey(m, 'keeps what it was given'), not over, '%s.__init__ leaves the fields the next constructor stored alone (or fills unset ones)' % c.name if not over else
                      '%s.__init__ writes self.%s after the next constructor has stored it, also when the caller gave one: the %s given to the '
                      'instance is replaced in status / body' % (c.name, over[0][0], over[0][0]), c.mod, over[0][1] if over else m.node)
        ok = why is None
        rep.check('R09.a', fkey(m, 'hands its arguments to the next constructor'), ok,
                  '%s.__init__ passes its arguments on to the next constructor' % c.name if ok else
                  '%s.__init__ %s: a code / message / detail / error_type / mimetype given to this error type does not reach the instance' % (c.name, why),
                  c.mod, sup[0] if sup else m.node)


def rule_b(rep, repo, err, app, base):
    try:
        msm = err.const(TABLE)
        dm = err.const('DEFAULT_MIME')
    except Exception as e:
        raise AnalysisError('cannot fold %s: %s' % (TABLE, e))
    for mime, fmt in sorted(msm.items()):
        m = repo.find_method(base, 'to_' + fmt)
        rep.check('R09.b', '%s::MIME_SUPPORT_MAP[%s]' % (ERR, mime), m is not None, '%s -> to_%s exists' % (mime, fmt) if m else
                  'format %r (for %s) has no to_%s method on HTTPException' % (fmt, mime, fmt), err)
    kinds = {'text/html': 'html', 'application/json': 'json', 'text/plain': 'text', 'application/xml': 'xml'}
    rep.check('R09.b', '%s::MIME_SUPPORT_MAP pairs' % ERR, msm == kinds, 'each media type maps to its own serialiser' if msm == kinds else
              'media type -> format pairs changed: %s' % msm, err)
    rep.check('R09.b', '%s::DEFAULT_MIME' % ERR, dm in msm and msm[dm] == 'text', 'DEFAULT_MIME %s is a supported type served as text' % dm if dm in msm and msm.get(dm) == 'text' else
              'DEFAULT_MIME %r is not a supported plain-text type' % dm, err)
    _guarded(rep, check_adapt, rep, repo, err, base, msm)
    fam = [base] + repo.subclasses(base, [err])
    for m, servers in family_methods(repo, fam):
        # an adapt() of its own replaces the pairing of body and header for that error type: it is held to the same rule
        if m.name == 'adapt' and m is not base.methods['adapt']:
            _guarded(rep, check_adapt_override, rep, repo, err, base, msm, m)
    check_table_constant(rep, repo, err)
    renderers = [(err, err.func('ErrorHandler.render_error')), (app, app.func('default_render_error'))]
    eh = err.classes.get('ErrorHandler')
    if eh is not None:
        for c in repo.subclasses(eh):
            m = c.methods.get('render_error')
            if m is not None and not any(m is fi_ for mod__, fi_ in renderers):
                renderers.append((c.mod, m))
    for mod_, fi in renderers:
        if '_error' not in fi.params():
            raise AnalysisError('%s: the _error parameter was not found' % fi.qualname)
        ok = renderer_adapts_negotiated(repo, err, mod_, fi, '_error')
        rep.check('R09.b', fkey(fi), bool(ok), 'negotiates over MIME_SUPPORT_MAP, adapts the error to the winner and returns it' if ok else
                  '%s does not negotiate over MIME_SUPPORT_MAP / adapt / return the same error' % fi.qualname, mod_, fi.node)
    # the way an error takes to those renderers: the route's own one, else -- on any exception -- the default one
    for ex in _guarded(rep, _route_error_executors, repo) or []:
        _guarded(rep, check_error_executor, rep, repo, ex, renderers)
    _guarded(rep, check_error_fallback, rep, repo, app, renderers)
    k, m_, obj = repo.resolve(app, TABLE)
    if k == 'unknown':
        # application.py no longer names the table itself (the negotiation moved into the errors module): the
        # per-function obligation above has already established which table is used
        rep.ok('R09.b', 'clastic.application::MIME_SUPPORT_MAP', 'application.py does not define a table of its own', app)
    else:
        same = m_ is table_home(repo, err) and k == 'value'
        rep.check('R09.b', 'clastic.application::MIME_SUPPORT_MAP', same, 'default_render_error uses the errors module\'s table' if same else
                  'application.py uses a different MIME_SUPPORT_MAP', app)
    rep.floor('R09.b', 12)


def rule_c(rep, repo, err, base, fam):
    k, m_, he = repo.resolve(err, 'html_escape')
    ok = (k == 'external' and he in ('html.escape', 'cgi.escape')) or \
        (k == 'func' and he.name == 'escape' and he.mod.name in ('html', 'cgi'))
    rep.check('R09.c', '%s::html_escape' % ERR, ok, 'html_escape is the standard library\'s html.escape' if ok else 'html_escape resolves to %s' % (he,), err)
    _guarded(rep, check_escaped_dict, rep, repo, err, base)
    for m, servers in family_methods(repo, fam):
        # an error type with a to_escaped_dict() of its own feeds the inherited to_html / to_xml: same obligation
        if m.name == 'to_escaped_dict' and m is not base.methods['to_escaped_dict']:
            _guarded(rep, check_escaped_dict, rep, repo, err, base, m)
    _guarded(rep, check_markup_sinks, rep, repo, err, fam)
    _guarded(rep, check_attribute_quoting, rep, repo, fam)
    _guarded(rep, check_xml_template, rep, repo, fam)
    if check_template_constancy(rep, 'R09.c') < 3:
        raise AnalysisError('format sinks in the to_* serialisers not found')
    check_escape_total(rep, 'R09.c')
    rep.floor('R09.c', 8)


def rule_d(rep, repo, err, fam):
    ce = repo.mod('clastic._contextual_errors')
    registered, n_calls, called = registered_templates(repo, ce)
    total = sum(1 for n_ in ast.walk(ce.tree) if isinstance(n_, ast.Call) and norm(n_.func) == 'CONTEXTUAL_ENV.register_source')
    if not total:
        raise AnalysisError('no CONTEXTUAL_ENV.register_source(...) call was found in %s' % ce.name)
    rep.check('R09.d', 'clastic._contextual_errors::_register_templates()', n_calls == total, 'templates are registered at import' if n_calls == total else
              '%d of %d register_source calls are in code the module never runs at import' % (total - n_calls, total), ce)
    used = set()
    for m, servers in family_methods(repo, fam):
        for cl in walk_body(m.node):
            if isinstance(cl, ast.Call) and norm(cl.func) == 'CONTEXTUAL_ENV.render':
                for recv in servers:
                    used.add(_template_name(repo, m.mod, m, cl, recv))
    for name in sorted(used):
        rep.check('R09.d', 'clastic._contextual_errors::registered %s' % name, name in registered, 'template %s is registered' % name if name in registered else
                  'template %r is rendered but never registered' % name, ce)
    for name, (label, sx) in sorted(registered.items()):
        try:
            text = repo.fold(sx, ce)
        except Exception as e:
            raise AnalysisError('cannot fold template constant %s: %s' % (label, e))
        if not isinstance(text, str):
            raise AnalysisError('template constant %s is not a string' % label)
        tags = check_template_escaping(rep, 'R09.d', repo, ce, label, text)
        nrefs = len([t for t in tags if t.kind == 'ref'])
        if nrefs < 5:
            raise AnalysisError('template %s: only %d references found' % (label, nrefs))
    aw = autoescape_writes(repo)
    rep.check('R09.d', 'clastic::autoescape_filter', not aw, 'no code in clastic assigns autoescape_filter' if not aw else
              'autoescape_filter is assigned somewhere in clastic', ce)
    env = ce.assigns.get('CONTEXTUAL_ENV', [])
    ok = len(env) == 1 and isinstance(env[0], ast.Call) and norm(env[0].func).endswith('AshesEnv') and not env[0].args and not env[0].keywords
    rep.check('R09.d', 'clastic._contextual_errors::CONTEXTUAL_ENV', ok, 'the debug environment is a default AshesEnv (autoescape h)' if ok else
              'CONTEXTUAL_ENV is not a default AshesEnv()', ce)
    rep.floor('R09.d', 40)


def _dict_items(e):
    """key -> value expression of a dict display / dict(k=v) call; None when it is neither."""
    if isinstance(e, ast.Dict) or (isinstance(e, ast.Call) and isinstance(e.func, ast.Name) and e.func.id == 'dict'):
        out = {}
        try:
            for l in layers_of_expr(e):
                if l.kind == 'literal':
                    out.update(l.values)
        except AnalysisError:
            return None
        return out
    return None


def rule_e(rep, repo, err, base, fam):
    tj = base.methods['to_json']
    rets = returns_of(tj)
    ok = False
    if len(rets) == 1 and rets[0].value is not None:
        rv = expand_expr(tj, rets[0].value, rets[0])
        ok = isinstance(rv, ast.Call) and call_tail(rv) in ('encode', 'dumps') and bool(rv.args) and norm(rv.args[0]) == 'self.to_dict()'
    rep.check('R09.e', fkey(tj), ok, 'to_json encodes self.to_dict()' if ok else 'to_json does not encode self.to_dict()', err, tj.node)
    td = base.methods['to_dict']
    vals = {}
    for n_ in walk_body(td.node):
        d = _dict_items(n_)
        if d:
            vals.update((k_, norm(v)) for k_, v in d.items())
    for s in stmts_of(td.node):
        if isinstance(s, ast.Assign):
            for t in s.targets:
                if isinstance(t, ast.Subscript) and isinstance(t.slice, ast.Constant):
                    vals[t.slice.value] = norm(s.value)
    need = {'code', 'message', 'detail', 'error_type'}
    ok = all(vals.get(k_) == 'self.%s' % k_ for k_ in need)
    rep.check('R09.e', fkey(td), ok, 'to_dict carries code, message, detail, error_type of the instance' if ok else
              'base to_dict lacks/mis-binds one of %s: %s' % (sorted(need), vals), err, td.node)
    for c in fam:
        if c is base:
            continue
        m = c.methods.get('to_dict')
        if m is None:
            continue
        bases = [norm(b) for b in c.node.bases]

        def is_super_dict(e):
            return isinstance(e, ast.Call) and isinstance(e.func, ast.Attribute) and e.func.attr == 'to_dict' and \
                ('super' in norm(e.func) or norm(e.func.value) in bases)
        rets = returns_of(m)
        ok = bool(rets) and not _falls_off(m)
        holders = set()
        for r in rets:
            if r.value is None:
                ok = False
                continue
            if isinstance(r.value, ast.Name):
                # the local that holds the super() result (assigned once, extended in place afterwards)
                binds = assigned_value(m.node, r.value.id)
                if len(binds) == 1 and binds[0][2] is None and isinstance(binds[0][0], ast.Assign) and is_super_dict(binds[0][1]):
                    holders.add(r.value.id)
                    continue
            # ... or a merge whose bottom layer is the super() result and whose own keys do not replace a standard field
            try:
                ls = layers_of_expr(expand_expr(m, r.value, r))
            except AnalysisError:
                ls = []
            if not (ls and ls[0].kind == 'source' and is_super_dict(ls[0].node) and
                    all(l.kind == 'literal' and not (set(l.keys) & need) for l in ls[1:])):
                ok = False
        dels = [n_ for n_ in walk_body(m.node) if isinstance(n_, ast.Delete) and any(isinstance(t.slice, ast.Constant) and t.slice.value in need
                                                                                  for t in n_.targets if isinstance(t, ast.Subscript))]
        pops = [n_ for n_ in walk_body(m.node) if isinstance(n_, ast.Call) and isinstance(n_.func, ast.Attribute) and
                norm(n_.func.value) in holders and n_.func.attr in ('pop', 'clear', 'popitem') and
                (n_.func.attr != 'pop' or not n_.args or not isinstance(n_.args[0], ast.Constant) or n_.args[0].value in need)]
        rep.check('R09.e', fkey(m), bool(ok) and not dels and not pops, '%s.to_dict extends the super() result' % c.name if ok and not dels and not pops else
                  '%s.to_dict does not return the extended super().to_dict() (standard fields may be lost)' % c.name, err, m.node)
        check_inherited_keys(rep, repo, c, m)
    rep.floor('R09.e', 4)


# ------------------------------------------------------------------------- base / override agreement on the keys of to_dict()
def _is_super_call(c, e, meth):
    """``super(..).meth(..)`` / ``Base.meth(self, ..)`` written in class ``c``."""
    if not (isinstance(e, ast.Call) and isinstance(e.func, ast.Attribute) and e.func.attr == meth):
        return False
    recv = e.func.value
    if isinstance(recv, ast.Call) and isinstance(recv.func, ast.Name) and recv.func.id == 'super':
        return True
    return norm(recv) in [norm(b) for b in c.node.bases]


def _next_method(repo, c, meth):
    for k in repo.mro(c)[1:]:
        if isinstance(k, ClassInfo) and meth in k.methods:
            return k, k.methods[meth]
    return None, None


def _const_key(e):
    return e.value if isinstance(e, ast.Constant) and isinstance(e.value, str) else None


def _holder_events(m, h):
    """What the method does to the keys of the mapping held in local ``h``: [(kind, key, node)] with kind in
    'store' (h[K] = v, h.update(K=v), h.setdefault(K, v)), 'drop' (del h[K], h.pop(K..)), 'wipe' (clear / popitem / a store
    or drop with a computed key counts as 'wipe' only for drops), 'open' (h.update(<mapping>): unknown keys are added)."""
    out = []
    for n in walk_body(m.node):
        if isinstance(n, ast.Subscript) and isinstance(n.value, ast.Name) and n.value.id == h:
            k = _const_key(n.slice)
            if isinstance(n.ctx, ast.Store):
                out.append(('store', k, n) if k is not None else ('open', None, n))
            elif isinstance(n.ctx, ast.Del):
                out.append(('drop', k, n) if k is not None else ('wipe', None, n))
        elif isinstance(n, ast.Call) and isinstance(n.func, ast.Attribute) and isinstance(n.func.value, ast.Name) and n.func.value.id == h:
            a = n.func.attr
            if a == 'pop':
                k = _const_key(n.args[0]) if n.args else None
                out.append(('drop', k, n) if k is not None else ('wipe', None, n))
            elif a in ('clear', 'popitem'):
                out.append(('wipe', None, n))
            elif a == 'setdefault' and n.args:
                k = _const_key(n.args[0])
                out.append(('store', k, n) if k is not None else ('open', None, n))
            elif a == 'update':
                for kw in n.keywords:
                    out.append(('store', kw.arg, n) if kw.arg is not None else ('open', None, n))
                for x in n.args:
                    if isinstance(x, ast.Dict) and all(k_ is not None and _const_key(k_) is not None for k_ in x.keys):
                        out.extend(('store', _const_key(k_), n) for k_ in x.keys)
                    else:
                        out.append(('open', None, n))
    return out


def guaranteed_keys(repo, c, m, _seen=None):
    """(keys, open): the string keys the mapping returned by method ``m`` of class ``c`` holds on *every* normally returning
    path (an under-approximation: what cannot be followed adds nothing), and whether some part of the mapping comes from
    a place the analysis does not see into (then a key outside ``keys`` may still be present)."""
    _seen = _seen or set()
    if m in _seen:
        return set(), True
    _seen = _seen | {m}
    cfg = cfg_of(m)

    def of_expr(e):
        keys, open_ = set(), False
        if isinstance(e, (ast.DictComp, ast.IfExp)) or not isinstance(e, (ast.Dict, ast.Call)):
            return keys, True
        if isinstance(e, ast.Call) and not (isinstance(e.func, ast.Name) and e.func.id == 'dict'):
            if _is_super_call(c, e, m.node.name):
                kc, km = _next_method(repo, c, m.node.name)
                return guaranteed_keys(repo, kc, km, _seen) if km is not None else (keys, True)
            if call_tail(e) in ('copy', 'deepcopy') and (e.args or isinstance(e.func, ast.Attribute)):
                return of_expr(e.args[0] if e.args else e.func.value)
            return keys, True
        try:
            ls = layers_of_expr(e)
        except AnalysisError:
            return keys, True
        for l in ls:
            if l.kind == 'literal':
                keys.update(k_ for k_ in l.keys if isinstance(k_, str))
            elif l.node is e:
                open_ = True
            else:
                k2, o2 = of_expr(l.node)
                keys |= k2
                open_ = open_ or o2
        return keys, open_

    rets = returns_of(m)
    if not rets or _falls_off(m):
        return set(), not rets
    result, open_all = None, False
    for r in rets:
        if r.value is None:
            return set(), False
        v = r.value
        if isinstance(v, ast.Name):
            binds = assigned_value(m.node, v.id)
            if len(binds) == 1 and binds[0][2] is None and isinstance(binds[0][0], ast.Assign):
                keys, open_ = of_expr(binds[0][1])
                rn = cfg.nodes_of(r)
                evs = _holder_events(m, v.id)
                if any(kind == 'open' for kind, k_, n_ in evs):
                    open_ = True
                for k_ in set(k_ for kind, k_, n_ in evs if kind == 'store'):
                    # the stores of one key together: every path to the return makes one of them (a store that only some
                    # paths make guarantees nothing)
                    sn = [y for kind, k2, n_ in evs if kind == 'store' and k2 == k_ for y in cfg.nodes_of(stmt_of(m.mod, n_))]
                    if sn and rn and cfg.must_pass(sn, dst=rn, normal_only=True):
                        keys.add(k_)
                for kind, k_, n_ in evs:
                    if kind == 'wipe':
                        keys = set()
                    elif kind == 'drop':
                        keys.discard(k_)
            else:
                keys, open_ = set(), True
        else:
            keys, open_ = of_expr(expand_expr(m, v, r))
        result = keys if result is None else (result & keys)
        open_all = open_all or open_
    return result or set(), open_all


def check_inherited_keys(rep, repo, c, m):
    """Base / override agreement: a key that the override takes out of, or reads by subscript from, the mapping its base class's
    method returned (``del ret[K]``, ``ret[K]``, ``ret.pop(K)`` without default -- a KeyError when K is missing, which no renderer
    contains) is a key the inherited method stores on every path.  Accesses that tolerate the missing key are free:
    ``pop(K, default)``, ``.get``, under ``K in ret``, inside ``try/except KeyError``, after an own store of K."""
    meth = m.node.name
    kc, km = _next_method(repo, c, meth)
    if km is None:
        return
    holders = set()
    for n in walk_body(m.node):
        if isinstance(n, ast.Name) and isinstance(n.ctx, ast.Store):
            binds = assigned_value(m.node, n.id)
            if len(binds) == 1 and binds[0][2] is None and isinstance(binds[0][0], ast.Assign) and _is_super_call(c, binds[0][1], meth):
                holders.add(n.id)
    cfg = cfg_of(m)
    hard = []
    for n in walk_body(m.node):
        k_, recv, node = None, None, n
        if isinstance(n, ast.Subscript) and isinstance(n.ctx, (ast.Load, ast.Del)):
            k_, recv = _const_key(n.slice), n.value
        elif isinstance(n, ast.Call) and isinstance(n.func, ast.Attribute) and n.func.attr == 'pop' and len(n.args) == 1 and not n.keywords:
            k_, recv = _const_key(n.args[0]), n.func.value
        if k_ is None or recv is None:
            continue
        if isinstance(recv, ast.Name) and recv.id in holders:
            h = recv.id
        elif _is_super_call(c, recv, meth):
            h = None
        else:
            continue
        st = stmt_of(m.mod, n)
        cs = conds(m, st)

        def member(t, key=k_, h=h):
            return isinstance(t, ast.Compare) and len(t.ops) == 1 and _const_key(t.left) == key and h is not None and norm(t.comparators[0]) == h
        if has_cond(cs, lambda t: member(t) and isinstance(t.ops[0], ast.In), True) or \
                has_cond(cs, lambda t: member(t) and isinstance(t.ops[0], ast.NotIn), False):
            continue
        if protected_by(m, n, 'KeyError') is not None:
            continue
        if h is not None:
            own = [x for kind, kk, x in _holder_events(m, h) if kind == 'store' and kk == k_ and x is not n]
            an = cfg.nodes_of(st)
            sn = [y for x in own for y in cfg.nodes_of(stmt_of(m.mod, x)) if stmt_of(m.mod, x) is not st]
            if sn and an and cfg.must_pass(sn, dst=an, normal_only=True):
                continue
        hard.append((k_, n))
    if not hard:
        return
    keys, open_ = guaranteed_keys(repo, kc, km)
    for k_, n in hard:
        what = 'del' if isinstance(n, ast.Subscript) and isinstance(n.ctx, ast.Del) else 'pop' if isinstance(n, ast.Call) else 'read'
        key = fkey(m, 'inherited key %s (%s)' % (k_, what))
        if k_ in keys:
            rep.ok('R09.e', key, '%s.%s stores %r on every path, the override may %s it' % (kc.name, meth, k_, what), m.mod, n)
        elif open_:
            raise AnalysisError('%s: cannot tell whether %s.%s always stores %r (part of the mapping is built out of sight)' % (
                m.qualname, kc.name, meth, k_))
        else:
            rep.fail('R09.e', key, '%s of key %r of the inherited mapping, which %s.%s does not store on every path: KeyError inside every '
                     'serialiser that uses to_dict()' % (what, k_, kc.name, meth), m.mod, n)
