"""C09 -- Error responses: right status, negotiated format, everything escaped.

Decided:
  R09.a  status table: every HTTPException subclass with a literal code carries the standard code of its
         name (matched against http.HTTPStatus), 4xx derive from BadRequest, 5xx from InternalServerError,
         no two classes share a code; the status handed to BaseResponse is the instance code
         (kwargs.pop('code', self.code));
  R09.b  format table: every format of MIME_SUPPORT_MAP has a to_<fmt> method; DEFAULT_MIME is a key; in
         adapt() body and Content-Type come from the same (format, mimetype) pair on both branches (the
         KeyError fallback is a pair of the table); render_error and default_render_error negotiate over the
         same table and adapt the error to the winner;
  R09.c  escaping: to_html / to_xml interpolate only the result of to_escaped_dict(), in which every
         stored value is '' or html_escape(x, True) on every path (quote=True because error_type is placed
         inside an attribute) -- or they render a shipped ashes template (R09.d);
  R09.d  templates: the 500/404 debug templates escape every reference under ashes' filter semantics and
         nothing switches autoescaping off; the template names rendered are the ones registered;
  R09.e  the JSON body carries code/message/detail/error_type: to_json encodes self.to_dict(), the base
         to_dict has the four keys, overrides extend the super() result.
Declined: well-formedness of produced bytes, Accept negotiation inside werkzeug, JSON parseability.
"""
import ast
import http
import re

from ..core import AnalysisError, norm, short
from ..loader import ClassInfo
from .c20 import check_template_escaping, autoescape_writes
from .common import (cfg_of, fkey, conds, has_cond, cond_texts, stmts_of, walk_body, call_tail, call_name, returns_of,
                     raises_of, raise_type, stmt_of, kwarg, protected_by)

ERR = 'clastic.errors'
ALIASES = {}   # class name -> HTTPStatus member name, for names the CamelCase rule cannot derive


def snake(name):
    s = re.sub(r'(?<=[a-z0-9])(?=[A-Z])|(?<=[A-Z])(?=[A-Z][a-z])', '_', name)
    return s.upper()


def check_template_constancy(rep, rule):
    """In every to_* serialiser of the HTTPException family the *template* of a ``.format(...)`` / ``%`` is made of
    string constants only.  Data interpolated into a string that is formatted again turns the data into a format
    template: a brace or percent sign in a detail / exception message then raises (KeyError/ValueError/IndexError)
    inside the error renderer -- and inside the default renderer used as its fallback -- or substitutes other fields."""
    repo = rep.repo
    err = repo.mod(ERR)
    base = err.cls('HTTPException')
    fam = [base] + repo.subclasses(base, [err])
    n = 0
    for c in fam:
        for name, m in sorted(c.methods.items()):
            if not name.startswith('to_') or name in ('to_dict', 'to_escaped_dict'):
                continue

            def const_expr(e, depth=0):
                """is this string-valued expression built from constants only?"""
                if depth > 8:
                    return False
                if isinstance(e, ast.Constant):
                    return isinstance(e.value, str)
                if isinstance(e, ast.JoinedStr):
                    return all(isinstance(v, ast.Constant) for v in e.values)
                if isinstance(e, ast.BinOp) and isinstance(e.op, ast.Add):
                    return const_expr(e.left, depth + 1) and const_expr(e.right, depth + 1)
                if isinstance(e, (ast.List, ast.Tuple)):
                    return all(const_expr(x, depth + 1) for x in e.elts)
                if isinstance(e, ast.Call) and isinstance(e.func, ast.Attribute) and e.func.attr == 'join' and len(e.args) == 1:
                    return const_expr(e.func.value, depth + 1) and const_expr(e.args[0], depth + 1)
                if isinstance(e, ast.Name):
                    srcs = [s.value for s in stmts_of(m.node) if isinstance(s, ast.Assign) and norm(s.targets[0]) == e.id]
                    adds = [c_ for c_ in walk_body(m.node) if isinstance(c_, ast.Call) and isinstance(c_.func, ast.Attribute)
                            and norm(c_.func.value) == e.id and c_.func.attr in ('append', 'extend', 'insert')]
                    augs = [s.value for s in stmts_of(m.node) if isinstance(s, ast.AugAssign) and norm(s.target) == e.id]
                    if not srcs:
                        try:
                            return isinstance(repo.fold(e, err), str)
                        except Exception:
                            return False
                    return all(const_expr(v, depth + 1) for v in srcs + augs) and all(const_expr(a.args[-1], depth + 1) for a in adds)
                return False
            for node in walk_body(m.node):
                tmpl = None
                if isinstance(node, ast.Call) and isinstance(node.func, ast.Attribute) and node.func.attr in ('format', 'format_map'):
                    tmpl = node.func.value
                elif isinstance(node, ast.BinOp) and isinstance(node.op, ast.Mod) and \
                        not (isinstance(node.left, ast.Constant) and not isinstance(node.left.value, str)):
                    tmpl = node.left
                if tmpl is None:
                    continue
                n += 1
                ok = const_expr(tmpl)
                rep.check(rule, fkey(m, 'template of ' + norm(node)[:60]), ok,
                          'format template is made of constants only' if ok else
                          '%s.%s formats a template that already contains interpolated data (%s): a "{" / "%%" in a detail or exception '
                          'message raises inside the renderer and inside its default-rendering fallback' % (c.name, name, short(tmpl)), err, node)
    return n


def check_escape_total(rep, rule):
    """html_escape() only accepts text: in to_escaped_dict every call is either an *attempt* (under an Exception handler
    with a fallback) or applied to the result of a text constructor (repr / str / format).  Otherwise a bytes or other
    non-text field raises TypeError inside the renderer and inside its fallback."""
    repo = rep.repo
    err = repo.mod(ERR)
    ted = err.cls('HTTPException').methods['to_escaped_dict']
    n = 0
    for c in walk_body(ted.node):
        if isinstance(c, ast.Call) and call_name(c) == 'html_escape' and c.args:
            n += 1
            a = c.args[0]
            texty = isinstance(a, ast.Call) and isinstance(a.func, ast.Name) and a.func.id in ('repr', 'str', 'unicode', 'format', 'ascii')
            h = protected_by(ted, c, 'TypeError')
            guarded = h is not None and not any(isinstance(x, ast.Raise) for x in ast.walk(h))
            rep.check(rule, fkey(ted, c), texty or guarded,
                      'html_escape(%s) is %s' % (short(a, 30), 'applied to constructed text' if texty else 'an attempt with a fallback') if texty or guarded else
                      'html_escape(%s) is neither guarded nor applied to constructed text: a bytes / non-text field makes every HTML and XML '
                      'error rendering (and the default-rendering fallback) raise TypeError' % short(a, 40), err, c)
    if n < 1:
        raise AnalysisError('to_escaped_dict: html_escape calls not found')


def run(rep):
    repo = rep.repo
    err = repo.mod(ERR)
    app = repo.mod('clastic.application')
    rep.decide('R09.a status table; R09.b format table and body/Content-Type pairing; R09.c escaping of every interpolated '
               'field; R09.d debug templates auto-escape; R09.e JSON carries the four fields')
    rep.decline('well-formedness of produced XML/HTML bytes, werkzeug Accept negotiation, JSON parseability')
    rep.assume('html.escape(s, True) escapes & < > " \' ; ashes filter semantics as read from the pinned source')
    rep.rule('R09.a', 'class codes vs http.HTTPStatus; hierarchy; uniqueness; status plumbing')
    rep.rule('R09.b', 'MIME_SUPPORT_MAP exhaustiveness; one (format, mimetype) pair feeds body and header')
    rep.rule('R09.c', 'taint: instance fields reach HTML/XML templates only through html_escape(x, True)')
    rep.rule('R09.d', 'every reference of the shipped debug templates is escaped')
    rep.rule('R09.e', 'to_json / to_dict field agreement')

    base = err.cls('HTTPException')
    fam = [base] + repo.subclasses(base, [err])
    std = dict((k, int(v)) for k, v in http.HTTPStatus.__members__.items())

    # ---- R09.a -----------------------------------------------------------
    codes = {}
    n = 0
    for c in fam:
        cv = c.class_attrs.get('code')
        if cv is None or c is base:
            continue
        code = repo.try_fold(cv, err)
        if not isinstance(code, int):
            rep.fail('R09.a', '%s::%s::code' % (ERR, c.name), 'code of %s is not a literal int' % c.name, err, c.node)
            continue
        n += 1
        member = ALIASES.get(c.name, snake(c.name))
        want = std.get(member)
        ok = want == code
        rep.check('R09.a', '%s::%s::code' % (ERR, c.name), ok, '%s.code = %d = HTTPStatus.%s' % (c.name, code, member) if ok else
                  '%s.code = %d but the standard code of %s is %s' % (c.name, code, member, want), err, c.node)
        codes.setdefault(code, []).append(c.name)
        fam_base = 'BadRequest' if 400 <= code < 500 else ('InternalServerError' if 500 <= code < 600 else None)
        ok = fam_base is not None and (c.name == fam_base or repo.is_subclass(c, fam_base))
        rep.check('R09.a', '%s::%s::family' % (ERR, c.name), ok, '%dxx class derives from %s' % (code // 100, fam_base) if ok else
                  '%s (%d) does not derive from %s' % (c.name, code, fam_base), err, c.node)
    if n < 31:
        raise AnalysisError('only %d error classes with literal codes found (floor 31)' % n)
    dup = dict((k, v) for k, v in codes.items() if len(v) > 1)
    rep.check('R09.a', '%s::unique codes' % ERR, not dup, 'no two error classes share a code (ERROR_CODE_MAP keeps all)' if not dup else
              'classes share a status code (ERROR_CODE_MAP silently keeps one): %s' % dup, err)
    init = base.methods['__init__']
    sup = [c for c in walk_body(init.node) if isinstance(c, ast.Call) and call_tail(c) == '__init__' and 'super' in norm(c.func)]
    ok = len(sup) == 1 and norm(kwarg(sup[0], 'status')) == 'self.code'
    cs_ = [s for s in stmts_of(init.node) if isinstance(s, ast.Assign) and norm(s.targets[0]) == 'self.code']
    icfg = cfg_of(init)
    ok = ok and len(cs_) == 1 and norm(cs_[0].value) == "kwargs.pop('code', self.code)" and \
        icfg.must_pass(icfg.nodes_of(cs_[0]), icfg.entry, icfg.nodes_of(stmt_of(err, sup[0])))
    rep.check('R09.a', fkey(init, 'status=self.code'), ok, 'the response status is the instance code (given code, else the class code)' if ok else
              'BaseResponse.__init__ is not given status=self.code after self.code = kwargs.pop(\'code\', self.code)', err, init.node)
    ok = len(sup) == 1 and norm(kwarg(sup[0], 'response')) == 'self.to_text()' and norm(kwarg(sup[0], 'mimetype')) == 'DEFAULT_MIME'
    rep.check('R09.a', fkey(init, 'default body'), ok, 'the default body is the plain-text rendering, labelled DEFAULT_MIME' if ok else
              'the default body / mimetype pair of HTTPException changed', err, init.node)

    # ---- R09.b -----------------------------------------------------------
    try:
        msm = err.const('MIME_SUPPORT_MAP')
        dm = err.const('DEFAULT_MIME')
    except Exception as e:
        raise AnalysisError('cannot fold MIME_SUPPORT_MAP: %s' % e)
    for mime, fmt in sorted(msm.items()):
        m = repo.find_method(base, 'to_' + fmt)
        rep.check('R09.b', '%s::MIME_SUPPORT_MAP[%s]' % (ERR, mime), m is not None, '%s -> to_%s exists' % (mime, fmt) if m else
                  'format %r (for %s) has no to_%s method on HTTPException' % (fmt, mime, fmt), err)
    kinds = {'text/html': 'html', 'application/json': 'json', 'text/plain': 'text', 'application/xml': 'xml'}
    rep.check('R09.b', '%s::MIME_SUPPORT_MAP pairs' % ERR, msm == kinds, 'each media type maps to its own serialiser' if msm == kinds else
              'media type -> format pairs changed: %s' % msm, err)
    rep.check('R09.b', '%s::DEFAULT_MIME' % ERR, dm in msm and msm[dm] == 'text', 'DEFAULT_MIME %s is a supported type served as text' % dm if dm in msm and msm.get(dm) == 'text' else
              'DEFAULT_MIME %r is not a supported plain-text type' % dm, err)
    ad = base.methods['adapt']
    mp = ad.params()[1]
    look = [s for s in stmts_of(ad.node) if isinstance(s, ast.Assign) and norm(s.value) == 'MIME_SUPPORT_MAP[%s]' % mp]
    ok = len(look) == 1
    fv = norm(look[0].targets[0]) if ok else None
    h = protected_by(ad, look[0], 'KeyError') if ok else None
    fb_ok = False
    if h is not None:
        asg = [s for s in h.body if isinstance(s, ast.Assign)]
        if len(asg) == 1 and isinstance(asg[0].targets[0], ast.Tuple) and [norm(t) for t in asg[0].targets[0].elts] == [fv, mp]:
            pair = repo.try_fold(asg[0].value, err)
            fb_ok = isinstance(pair, tuple) and msm.get(pair[1]) == pair[0] and pair[0] == 'text'
    rep.check('R09.b', fkey(ad, 'fallback pair'), ok and fb_ok,
              'an unsupported type falls back to a (format, mimetype) pair of the table, re-binding both' if ok and fb_ok else
              'the fallback for unsupported types does not re-bind format and mimetype to a matching pair', err, ad.node)
    meth = [s for s in stmts_of(ad.node) if isinstance(s, ast.Assign) and isinstance(s.value, ast.Call) and call_name(s.value) == 'getattr'
            and norm(s.value.args[1]) == "'to_' + %s" % fv]
    data = [s for s in stmts_of(ad.node) if isinstance(s, ast.Assign) and norm(s.targets[0]) == 'self.data']
    ct = [s for s in stmts_of(ad.node) if isinstance(s, ast.Assign) and norm(s.targets[0]).lower() == "self.headers['content-type']"]
    ok = len(meth) == 1 and len(data) == 1 and norm(data[0].value) == '%s()' % norm(meth[0].targets[0]) and len(ct) == 1 and \
        isinstance(ct[0].value, ast.Call) and call_name(ct[0].value) == 'get_content_type' and norm(ct[0].value.args[0]) == mp
    acfg = cfg_of(ad)
    ok = ok and acfg.must_pass(acfg.nodes_of(data[0]), acfg.entry, acfg.exit, normal_only=True) and \
        acfg.must_pass(acfg.nodes_of(ct[0]), acfg.entry, acfg.exit, normal_only=True)
    rep.check('R09.b', fkey(ad, 'body and header from one pair'), ok,
              'self.data = to_<fmt>() and Content-Type = get_content_type(mimetype) use the same (fmt, mimetype) on every path' if ok else
              'body and Content-Type are not both derived from the one (format, mimetype) pair', err, ad.node)
    for mod_, fi in ((err, err.func('ErrorHandler.render_error')), (app, app.func('default_render_error'))):
        bm = [s for s in stmts_of(fi.node) if isinstance(s, ast.Assign) and isinstance(s.value, ast.Call) and call_tail(s.value) == 'best_match']
        ok = len(bm) == 1 and norm(bm[0].value.args[0]) == 'MIME_SUPPORT_MAP' and 'accept_mimetypes' in norm(bm[0].value.func)
        ac = [c for c in walk_body(fi.node) if isinstance(c, ast.Call) and norm(c.func) == '_error.adapt']
        ok = ok and len(ac) == 1 and norm(ac[0].args[0]) == norm(bm[0].targets[0]) and all(norm(r.value) == '_error' for r in returns_of(fi)) and returns_of(fi)
        if ok:
            # ... on every path: a return that skips adapt() leaves body and Content-Type as constructed
            fcfg = cfg_of(fi)
            ok = fcfg.must_pass(fcfg.nodes_of(stmt_of(mod_, ac[0])), fcfg.entry, fcfg.exit, normal_only=True)
        rep.check('R09.b', fkey(fi), bool(ok), 'negotiates over MIME_SUPPORT_MAP, adapts the error to the winner and returns it' if ok else
                  '%s does not negotiate over MIME_SUPPORT_MAP / adapt / return the same error' % fi.qualname, mod_, fi.node)
    if app.resolve if False else True:
        k, m_, obj = repo.resolve(app, 'MIME_SUPPORT_MAP')
        rep.check('R09.b', 'clastic.application::MIME_SUPPORT_MAP', m_ is err, 'default_render_error uses the errors module\'s table' if m_ is err else
                  'application.py uses a different MIME_SUPPORT_MAP', app)
    rep.floor('R09.b', 10)

    # ---- R09.c -----------------------------------------------------------
    k, m_, he = repo.resolve(err, 'html_escape')
    ok = (k == 'external' and he in ('html.escape', 'cgi.escape')) or \
        (k == 'func' and he.name == 'escape' and he.mod.name in ('html', 'cgi'))
    rep.check('R09.c', '%s::html_escape' % ERR, ok, 'html_escape is the standard library\'s html.escape' if ok else 'html_escape resolves to %s' % (he,), err)
    ted = base.methods['to_escaped_dict']
    rets = returns_of(ted)
    rv = norm(rets[0].value) if len(rets) == 1 else None
    stores = [s for s in stmts_of(ted.node) if isinstance(s, ast.Assign) and isinstance(s.targets[0], ast.Subscript) and norm(s.targets[0].value) == rv]
    if len(stores) < 2:
        raise AnalysisError('to_escaped_dict: stores into the result dict not found')
    for s in stores:
        v = s.value
        ok = (isinstance(v, ast.Constant) and v.value == '') or \
            (isinstance(v, ast.Call) and call_name(v) == 'html_escape' and len(v.args) == 2 and isinstance(v.args[1], ast.Constant) and v.args[1].value is True) or \
            (isinstance(v, ast.Call) and call_name(v) == 'html_escape' and isinstance(kwarg(v, 'quote'), ast.Constant) and kwarg(v, 'quote').value is True)
        rep.check('R09.c', fkey(ted, s), ok, 'stored value is %s' % short(v, 50) if ok else
                  'to_escaped_dict stores %s: not html_escape(x, True) (quotes must be escaped: error_type is placed in an attribute)' % short(v), err, s)
    loop = [s for s in stmts_of(ted.node) if isinstance(s, ast.For)]
    ok = len(loop) == 1 and norm(loop[0].iter) == 'self.to_dict().items()' and all(cfgn for cfgn in [1])
    tcfg = cfg_of(ted)
    # every iteration stores: the loop head is only re-entered through a store
    iter_nodes = [n.id for n in tcfg.nodes if n.kind == 'iter' and n.stmt is (loop[0] if loop else None)]
    ok = ok and tcfg.must_pass(tcfg.nodes_of_all(stores), iter_nodes, tcfg.nodes_of(loop[0]), normal_only=True)
    rep.check('R09.c', fkey(ted, 'all fields'), ok, 'every field of to_dict() gets an escaped entry' if ok else
              'to_escaped_dict can skip fields of to_dict()', err, ted.node)
    n_sinks = 0
    for c in fam:
        for name in ('to_html', 'to_xml'):
            m = c.methods.get(name)
            if m is None:
                continue
            n_sinks += 1
            # (B) shipped template
            rets = returns_of(m)
            tmpl_rets = [r for r in rets if isinstance(r.value, ast.Call) and norm(r.value.func) == 'CONTEXTUAL_ENV.render']
            if tmpl_rets and len(tmpl_rets) == len(rets):
                names = [repo.try_fold(r.value.args[0], err) for r in tmpl_rets]
                rep.ok('R09.c', fkey(m), 'renders shipped template(s) %s (escaping: R09.d)' % names, err, m.node)
                continue
            # (A) format with the escaped dict
            esc_vars = set(norm(s.targets[0]) for s in stmts_of(m.node) if isinstance(s, ast.Assign) and norm(s.value) == 'self.to_escaped_dict()')
            sinks = []
            for n_ in walk_body(m.node):
                if isinstance(n_, ast.Call) and isinstance(n_.func, ast.Attribute) and n_.func.attr == 'format':
                    sinks.append(n_)
                if isinstance(n_, ast.BinOp) and isinstance(n_.op, ast.Mod) and not isinstance(n_.left, ast.Constant) is False:
                    if isinstance(n_.left, ast.Constant) and isinstance(n_.left.value, str):
                        sinks.append(n_)
                if isinstance(n_, ast.JoinedStr) and any(isinstance(v, ast.FormattedValue) for v in n_.values):
                    sinks.append(n_)
            bad = []
            for s in sinks:
                if isinstance(s, ast.Call):
                    star = [k_.value for k_ in s.keywords if k_.arg is None]
                    if len(star) == 1 and not s.args and len(s.keywords) == 1 and norm(star[0]) in esc_vars:
                        continue
                    bad.append(s)
                else:
                    bad.append(s)
            ok = bool(sinks) and not bad and bool(esc_vars)
            rep.check('R09.c', fkey(m), ok, 'markup is built by .format(**to_escaped_dict()) only' if ok else
                      '%s.%s interpolates unescaped fields into markup: %s' % (c.name, name, [short(b) for b in bad] or 'no escaped mapping'), err,
                      (bad or [m.node])[0])
            # no direct use of raw fields in the returned string
            raw = [n_ for n_ in walk_body(m.node) if isinstance(n_, ast.Call) and norm(n_.func) == 'self.to_dict']
            rep.check('R09.c', fkey(m, 'no raw dict'), not raw, 'the raw to_dict() is not used for markup' if not raw else
                      '%s.%s uses the unescaped to_dict()' % (c.name, name), err, raw[0] if raw else m.node)
    if n_sinks < 4:
        raise AnalysisError('only %d to_html/to_xml methods found (floor 4)' % n_sinks)
    if check_template_constancy(rep, 'R09.c') < 3:
        raise AnalysisError('format sinks in the to_* serialisers not found')
    check_escape_total(rep, 'R09.c')
    rep.floor('R09.c', 8)

    # ---- R09.d -----------------------------------------------------------
    ce = repo.mod('clastic._contextual_errors')
    reg = ce.func('_register_templates')
    registered = {}
    for c in walk_body(reg.node):
        if isinstance(c, ast.Call) and norm(c.func) == 'CONTEXTUAL_ENV.register_source' and len(c.args) == 2:
            registered[repo.try_fold(c.args[0], ce)] = norm(c.args[1])
    used = set()
    for c in fam:
        for m in c.methods.values():
            for cl in walk_body(m.node):
                if isinstance(cl, ast.Call) and norm(cl.func) == 'CONTEXTUAL_ENV.render':
                    used.add(repo.try_fold(cl.args[0], err))
    for name in sorted(used):
        rep.check('R09.d', 'clastic._contextual_errors::registered %s' % name, name in registered, 'template %s is registered' % name if name in registered else
                  'template %r is rendered but never registered' % name, ce)
    for name, const in sorted(registered.items()):
        try:
            text = ce.const(const)
        except Exception as e:
            raise AnalysisError('cannot fold template constant %s: %s' % (const, e))
        tags = check_template_escaping(rep, 'R09.d', repo, ce, const, text)
        nrefs = len([t for t in tags if t.kind == 'ref'])
        if nrefs < 5:
            raise AnalysisError('template %s: only %d references found' % (const, nrefs))
    aw = autoescape_writes(repo)
    rep.check('R09.d', 'clastic::autoescape_filter', not aw, 'no code in clastic assigns autoescape_filter' if not aw else
              'autoescape_filter is assigned somewhere in clastic', ce)
    env = ce.assigns.get('CONTEXTUAL_ENV', [])
    ok = len(env) == 1 and isinstance(env[0], ast.Call) and norm(env[0].func).endswith('AshesEnv') and not env[0].args and not env[0].keywords
    rep.check('R09.d', 'clastic._contextual_errors::CONTEXTUAL_ENV', ok, 'the debug environment is a default AshesEnv (autoescape h)' if ok else
              'CONTEXTUAL_ENV is not a default AshesEnv()', ce)
    calls_reg = [n_ for n_ in ce.tree.body if isinstance(n_, ast.Expr) and isinstance(n_.value, ast.Call) and call_name(n_.value) == '_register_templates']
    rep.check('R09.d', 'clastic._contextual_errors::_register_templates()', len(calls_reg) == 1, 'templates are registered at import' if calls_reg else
              '_register_templates is never called', ce)
    rep.floor('R09.d', 40)

    # ---- R09.e -----------------------------------------------------------
    tj = base.methods['to_json']
    rets = returns_of(tj)
    ok = len(rets) == 1 and isinstance(rets[0].value, ast.Call) and call_tail(rets[0].value) == 'encode' and norm(rets[0].value.args[0]) == 'self.to_dict()'
    rep.check('R09.e', fkey(tj), ok, 'to_json encodes self.to_dict()' if ok else 'to_json does not encode self.to_dict()', err, tj.node)
    td = base.methods['to_dict']
    keys = set()
    for n_ in walk_body(td.node):
        if isinstance(n_, ast.Dict):
            keys |= set(k_.value for k_ in n_.keys if isinstance(k_, ast.Constant))
    need = {'code', 'message', 'detail', 'error_type'}
    ok = need <= keys
    vals = {}
    for n_ in walk_body(td.node):
        if isinstance(n_, ast.Dict):
            vals.update((k_.value, norm(v)) for k_, v in zip(n_.keys, n_.values) if isinstance(k_, ast.Constant))
    ok = ok and all(vals.get(k_) == 'self.%s' % k_ for k_ in need)
    rep.check('R09.e', fkey(td), ok, 'to_dict carries code, message, detail, error_type of the instance' if ok else
              'base to_dict lacks/mis-binds one of %s: %s' % (sorted(need), vals), err, td.node)
    for c in fam:
        if c is base:
            continue
        m = c.methods.get('to_dict')
        if m is None:
            continue
        sups = [s for s in stmts_of(m.node) if isinstance(s, ast.Assign) and isinstance(s.value, ast.Call) and call_tail(s.value) == 'to_dict'
                and 'super' in norm(s.value.func)]
        ok = len(sups) == 1 and all(norm(r.value) == norm(sups[0].targets[0]) for r in returns_of(m)) and returns_of(m)
        dels = [n_ for n_ in walk_body(m.node) if isinstance(n_, ast.Delete) and any(isinstance(t.slice, ast.Constant) and t.slice.value in need
                                                                                  for t in n_.targets if isinstance(t, ast.Subscript))]
        rep.check('R09.e', fkey(m), bool(ok) and not dels, '%s.to_dict extends the super() result' % c.name if ok and not dels else
                  '%s.to_dict does not return the extended super().to_dict() (standard fields may be lost)' % c.name, err, m.node)
    rep.floor('R09.e', 4)
