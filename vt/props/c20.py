"""C20 -- The Flaw failsafe page works for any start-up error text.

Decided:
  R20.a  every global name loaded in clastic/flaw.py resolves (symtable) -- also the functions of
         server.py that build the failsafe (serve_error_app, restart_with_reloader; loads dominated by
         ``os.name == 'nt'`` are exempt: Windows-only);
  R20.b  parsing can never prevent the page: the _ParsedTB.from_string / to_dict calls in create_app sit
         under a catch-all handler that substitutes a constant; get_flaw_info's splitlines()[-1] likewise;
         both page routes ('/' and the catch-all '/<_ignored*>') use the same endpoint and template; the
         resource names given to Application are exactly the endpoint's parameters (so the bind-time check
         of C01 holds for the failsafe itself); the template name rendered is the one registered;
  R20.c  every reference of _FLAW_TEMPLATE is HTML-escaped under ashes' filter semantics (no |s, no esc
         pragma), and nothing in clastic switches autoescaping off;
  R20.d  the parsed branch is reachable: from_string has a normal return path that does not depend on an
         unbound name (follows from R20.a) and to_dict exports the keys the template's {#parsed_err} block reads.
Declined: "answers 200 for every text" over non-text inputs; traceback grammar coverage.
"""
import ast

from ..core import AnalysisError, norm, short
from .. import dust
from .common import (cfg_of, fkey, conds, has_cond, check_unbound, platform_gated, protected_by, stmts_of,
                     walk_body, call_tail, call_name, returns_of, kwarg)

FLAW = 'clastic.flaw'


def autoescape_writes(repo):
    """Any store to an ``autoescape_filter`` attribute / keyword anywhere in clastic."""
    out = []
    for m in repo.all_internal_modules():
        for n in ast.walk(m.tree):
            if isinstance(n, ast.Attribute) and n.attr == 'autoescape_filter' and isinstance(n.ctx, ast.Store):
                out.append((m, n))
            if isinstance(n, ast.keyword) and n.arg == 'autoescape_filter':
                out.append((m, n.value))
            if isinstance(n, ast.Call) and call_tail(n) == 'setattr' and len(n.args) >= 2 and \
                    isinstance(n.args[1], ast.Constant) and n.args[1].value == 'autoescape_filter':
                out.append((m, n))
    return out


def check_template_escaping(rep, rule, repo, mod, name, text, allow=(), node=None):
    """Every reference tag of an ashes template is escaped; returns the tags."""
    tags = dust.tokenize(repo, text)
    refs = [t for t in tags if t.kind == 'ref']
    for t in refs:
        key = '%s::%s::%s' % (mod.name if hasattr(mod, 'name') else mod, name, t.text)
        if (name, t.text) in allow or t.text in allow:
            rep.ok(rule, key, 'allow-listed raw reference (value is itself rendered from a checked template)', mod, node)
            continue
        rep.check(rule, key, t.escaped,
                  'reference is HTML-escaped (filters %r, autoescape %r)' % (t.filters, t.auto) if t.escaped else
                  'reference %s is emitted unescaped (filters %r, autoescape %r) at template line %d'
                  % (t.text, t.filters, t.auto, t.line), mod, node)
    for t in tags:
        if t.kind == 'pragma' and t.refpath == 'esc' and (t.contpath or 'h') != 'h':
            rep.fail(rule, '%s::%s::%s' % (getattr(mod, 'name', mod), name, t.text),
                     'escaping pragma %s switches autoescaping to %r' % (t.text, t.contpath), mod, node)
    return tags


def run(rep):
    repo = rep.repo
    flaw = repo.mod(FLAW)
    server = repo.mod('clastic.server')
    rep.decide('R20.a names resolve; R20.b parser cannot prevent the page, route/template/resource agreement; '
               'R20.c template auto-escapes every reference; R20.d parsed branch reachable and fed')
    rep.decline('totality over non-text inputs (bytes/None through ashes); coverage of traceback grammars')
    rep.assume('ashes 19.2.0 filter semantics as read from the pinned source (apply_filters)')

    # ---- R20.a -----------------------------------------------------------
    rep.rule('R20.a', 'every global Name load in flaw.py (all scopes) and in the failsafe launcher functions of server.py resolves')
    check_unbound(rep, 'R20.a', [flaw])
    launcher = {'run_simple', 'run_simple.serve_error_app', 'restart_with_reloader', 'restart_with_reloader.consume_lines',
                'run_with_reloader'}
    check_unbound(rep, 'R20.a', [server], scope_filter=lambda m, sc: sc in launcher, exempt=platform_gated)
    rep.floor('R20.a', 8)

    # ---- R20.b -----------------------------------------------------------
    rep.rule('R20.b', 'parsing is under a catch-all handler; routes share endpoint and template; resources = endpoint params')
    ca = flaw.func('create_app')
    parse_calls = [c for c in walk_body(ca.node) if isinstance(c, ast.Call) and
                   (call_tail(c) in ('from_string', 'to_dict') or call_name(c) == '_ParsedTB')]
    if not parse_calls:
        raise AnalysisError('create_app no longer calls the traceback parser')
    for c in parse_calls:
        h = protected_by(ca, c, 'BaseException') or protected_by(ca, c, 'Exception')
        ok = h is not None
        sub_ok = False
        if ok:
            # handler substitutes a constant for parsed_error and does not re-raise
            sub_ok = any(isinstance(s, ast.Assign) and isinstance(s.value, (ast.Dict, ast.Constant)) for s in h.body) \
                and not any(isinstance(s, ast.Raise) for s in ast.walk(h))
        rep.check('R20.b', fkey(ca, c), ok and sub_ok,
                  'parser call is under a catch-all handler that substitutes a constant' if ok and sub_ok else
                  'parser call %s can raise out of create_app (no catch-all handler with a constant fallback)' % short(c),
                  flaw, c)
    gi = flaw.func('get_flaw_info')
    subs = [n for n in walk_body(gi.node) if isinstance(n, ast.Subscript) and isinstance(n.value, ast.Call)
            and call_tail(n.value) == 'splitlines']
    for s in subs:
        h = protected_by(gi, s, 'BaseException') or protected_by(gi, s, 'Exception')
        rep.check('R20.b', fkey(gi, s), h is not None,
                  'last-line extraction is under a catch-all handler' if h else
                  'tb_str.splitlines()[..] can raise (empty / non-text input) outside any handler', flaw, s)
    # routes: literal list in create_app
    routes = None
    for st in stmts_of(ca.node):
        if isinstance(st, ast.Assign) and norm(st.targets[0]) == 'routes' and isinstance(st.value, ast.List):
            routes = st.value
    if routes is None:
        raise AnalysisError('create_app: literal routes list not found')
    page_routes = []
    for e in routes.elts:
        if isinstance(e, ast.Tuple) and len(e.elts) == 3 and isinstance(e.elts[0], ast.Constant):
            page_routes.append((e.elts[0].value, norm(e.elts[1]), repo.try_fold(e.elts[2], flaw, norm(e.elts[2]))))
    pats = [p for p, _, _ in page_routes]
    ok = '/' in pats and any('*>' in p for p in pats)
    rep.check('R20.b', fkey(ca, 'routes'), ok, 'root and catch-all routes present: %r' % pats if ok else
              'failsafe lacks the root or the catch-all route: %r' % pats, flaw, routes)
    eps = set(ep for _, ep, _ in page_routes)
    tmpls = set(t for _, _, t in page_routes)
    rep.check('R20.b', fkey(ca, 'routes same endpoint/template'), len(eps) == 1 and len(tmpls) == 1,
              'all page routes use endpoint %s and template %s' % (sorted(eps), sorted(tmpls)) if len(eps) == 1 and len(tmpls) == 1 else
              'page routes disagree on endpoint/template: %r' % page_routes, flaw, routes)
    # registered template name == rendered name, source == _FLAW_TEMPLATE
    regs = [c for c in walk_body(ca.node) if isinstance(c, ast.Call) and call_tail(c) == 'register_source']
    reg_ok = False
    tmpl_name = None
    if len(regs) == 1 and len(regs[0].args) >= 2:
        tmpl_name = repo.try_fold(regs[0].args[0], flaw)
        reg_ok = tmpl_name in tmpls and norm(regs[0].args[1]) == '_FLAW_TEMPLATE'
    rep.check('R20.b', fkey(ca, 'register_source'), reg_ok,
              'template %r is registered from _FLAW_TEMPLATE and is the one the routes render' % tmpl_name if reg_ok else
              'registered template (%r) and rendered template (%r) differ' % (tmpl_name, sorted(tmpls)), flaw,
              regs[0] if regs else ca.node)
    # the render factory given to Application is the one the template was registered with
    app_calls = [c for c in walk_body(ca.node) if isinstance(c, ast.Call) and call_tail(c) == 'Application']
    ok = len(app_calls) == 1 and kwarg(app_calls[0], 'render_factory') is not None and regs and \
        norm(kwarg(app_calls[0], 'render_factory')) == norm(regs[0].func.value)
    rep.check('R20.b', fkey(ca, 'render_factory'), ok, 'Application gets the render factory holding the template' if ok else
              'Application is not given the render factory the template was registered with', flaw,
              app_calls[0] if app_calls else ca.node)
    # resources keys == endpoint parameters
    res = None
    for st in stmts_of(ca.node):
        if isinstance(st, ast.Assign) and norm(st.targets[0]) == 'resources' and isinstance(st.value, ast.Dict):
            res = st.value
    if res is None:
        raise AnalysisError('create_app: literal resources dict not found')
    keys = set(k.value for k in res.keys if isinstance(k, ast.Constant))
    ep_name = sorted(eps)[0] if eps else None
    epf = flaw.functions.get(ep_name)
    if epf is None:
        raise AnalysisError('failsafe endpoint %r not found' % ep_name)
    a = epf.node.args
    required = [x.arg for x in a.args[:len(a.args) - len(a.defaults)]] + \
        [x.arg for x, d in zip(a.kwonlyargs, a.kw_defaults) if d is None]
    builtins_ = set(repo.mod('clastic.route').const('RESERVED_ARGS'))
    missing = [p for p in required if p not in keys and p not in builtins_]
    rep.check('R20.b', fkey(ca, 'resources vs endpoint params'), not missing,
              'every required endpoint parameter %r is a resource or built-in' % required if not missing else
              'endpoint parameters %r are not provided by create_app resources %r' % (missing, sorted(keys)), flaw, res)
    # the resource values are the function's inputs
    vals = dict((k.value, norm(v)) for k, v in zip(res.keys, res.values) if isinstance(k, ast.Constant))
    ok = vals.get('tb_str') == ca.params()[0]
    rep.check('R20.b', fkey(ca, 'tb_str resource'), ok, 'the error text itself is the tb_str resource' if ok else
              'tb_str resource is not the given error text: %r' % vals.get('tb_str'), flaw, res)
    rep.floor('R20.b', 7)

    # the embedded asset application must not pre-empt the catch-all page: every error it raises is non-breaking
    from .c14 import check_nonbreaking
    if check_nonbreaking(rep, 'R20.b') < 4:
        raise AnalysisError('static serving raises not found')
    ok = any(isinstance(e, ast.Tuple) and len(e.elts) == 2 and isinstance(e.elts[1], ast.Call) and call_name(e.elts[1]) == 'StaticApplication'
             for e in routes.elts)
    idx_static = [i for i, e in enumerate(routes.elts) if isinstance(e, ast.Tuple) and len(e.elts) == 2]
    idx_catch = [i for i, e in enumerate(routes.elts) if isinstance(e, ast.Tuple) and isinstance(e.elts[0], ast.Constant) and '*>' in str(e.elts[0].value)]
    rep.check('R20.b', fkey(ca, 'catch-all last'), bool(idx_catch) and idx_catch[-1] == len(routes.elts) - 1,
              'the catch-all page route is the last route (everything not served before it gets the page)' if idx_catch and idx_catch[-1] == len(routes.elts) - 1 else
              'the catch-all route is not the last route', flaw, routes)
    # the monitored-file list that is shown is the list that was given: filtering builds new lists, nothing removes
    # entries from the caller's list (sorting it in place keeps its content)
    from .. import effects
    for fq in ('create_app', '_filter_site_files'):
        ffi = flaw.func(fq)
        alias = set(ffi.params())
        for s in stmts_of(ffi.node):
            if isinstance(s, ast.Assign) and isinstance(s.targets[0], ast.Name):
                v = s.value
                cands = [v] + (list(v.values) if isinstance(v, ast.BoolOp) else []) + ([v.body, v.orelse] if isinstance(v, ast.IfExp) else [])
                if any(isinstance(x, ast.Name) and x.id in alias for x in cands):
                    alias.add(s.targets[0].id)
        shrink = [e for e in effects.effects_in(ffi.node) if e.root in alias and
                  ((e.kind == 'mutcall' and e.method in ('remove', 'pop', 'clear', 'popitem', 'discard')) or e.kind == 'delete' or
                   (e.kind == 'store' and isinstance(e.target, ast.Subscript)))]
        rep.check('R20.b', fkey(ffi, 'input lists keep their entries'), not shrink,
                  'no entry is removed from the given file list (filters build new lists)' if not shrink else
                  '%s removes entries from the caller\'s monitored-file list in place (%s): the page (and the reloader that owns the list) '
                  'loses files' % (fq, [short(e.node) for e in shrink]), flaw, shrink[0].node if shrink else ffi.node)
    vals_ = dict((k.value, norm(v)) for k, v in zip(res.keys, res.values) if isinstance(k, ast.Constant))
    ok = vals_.get('all_mon_files') == ca.params()[1]
    rep.check('R20.b', fkey(ca, 'all_mon_files resource'), ok, 'the full file list shown is the list that was given' if ok else
              'all_mon_files is not the given monitored_files list', flaw, res)

    # ---- R20.c -----------------------------------------------------------
    rep.rule('R20.c', 'every reference in _FLAW_TEMPLATE is HTML-escaped; autoescaping is never switched off')
    try:
        tmpl = flaw.const('_FLAW_TEMPLATE')
    except Exception as e:
        raise AnalysisError('cannot fold _FLAW_TEMPLATE: %s' % e)
    tags = check_template_escaping(rep, 'R20.c', repo, flaw, '_FLAW_TEMPLATE', tmpl)
    refs = set(t.refpath for t in tags if t.kind == 'ref')
    need = {'tb_str', 'last_line', 'exc_type', 'exc_msg'}
    rep.check('R20.c', '%s::_FLAW_TEMPLATE::fields' % FLAW, need <= refs,
              'page shows %s' % sorted(need) if need <= refs else 'page template no longer shows %s' % sorted(need - refs), flaw)
    aw = autoescape_writes(repo)
    rep.check('R20.c', 'clastic::autoescape_filter', not aw, 'no code in clastic assigns autoescape_filter' if not aw else
              'autoescape_filter is assigned at %s' % ', '.join('%s:%s' % (m.relpath, getattr(n, 'lineno', '?')) for m, n in aw))
    rep.floor('R20.c', 8)
    # the endpoint passes the fields the template reads
    ret = [r for r in returns_of(epf) if isinstance(r.value, ast.Dict)]
    ctx_keys = set(k.value for r in ret for k in r.value.keys if isinstance(k, ast.Constant))
    top_refs = set(t.refpath.split('.')[0] for t in tags if t.kind in ('ref', 'section') and not t.closing) - {''}
    sect_inner = {'exc_type', 'exc_msg', 'source_file'}
    missing = sorted(x for x in top_refs - sect_inner if x not in ctx_keys)
    rep.check('R20.c', fkey(epf, 'context keys'), not missing and bool(ret),
              'endpoint supplies every top-level template key' if not missing and ret else
              'template reads %r which get_flaw_info does not supply' % missing, flaw, epf.node)

    # ---- R20.d -----------------------------------------------------------
    rep.rule('R20.d', '_ParsedTB.to_dict exports what {#parsed_err} reads; from_string has a normal return')
    td = flaw.func('_ParsedTB.to_dict')
    tdr = [r for r in returns_of(td) if isinstance(r.value, ast.Dict)]
    td_keys = set(k.value for r in tdr for k in r.value.keys if isinstance(k, ast.Constant))
    need = {'exc_type', 'exc_msg'}
    rep.check('R20.d', fkey(td, 'keys'), need <= td_keys, 'to_dict exports %s' % sorted(need) if need <= td_keys else
              'to_dict no longer exports %s' % sorted(need - td_keys), flaw, td.node)
    fs = flaw.func('_ParsedTB.from_string')
    cfg = cfg_of(fs)
    rets = returns_of(fs)
    ok = bool(rets) and any(cfg.reachable(n) for r in rets for n in cfg.nodes_of(r))
    rep.check('R20.d', fkey(fs, 'return'), ok, 'from_string has a reachable return of a parsed object' if ok else
              'from_string cannot return normally', flaw, fs.node)
    rets_cls = [r for r in rets if isinstance(r.value, ast.Call) and norm(r.value.func) == 'cls']
    ok = bool(rets_cls) and all(len(r.value.args) >= 2 and norm(r.value.args[0]) == 'exc_type' and norm(r.value.args[1]) == 'exc_msg'
                                for r in rets_cls)
    rep.check('R20.d', fkey(fs, 'cls(exc_type, exc_msg, ...)'), ok,
              'parsed type and message are passed in constructor order' if ok else
              'from_string does not construct cls(exc_type, exc_msg, ...)', flaw, fs.node)
    init = flaw.func('_ParsedTB.__init__')
    ps = init.params()
    asg = dict((norm(s.targets[0]), norm(s.value)) for s in stmts_of(init.node) if isinstance(s, ast.Assign))
    ok = len(ps) >= 3 and asg.get('self.exc_type') == ps[1] and asg.get('self.exc_msg') == ps[2]
    rep.check('R20.d', fkey(init, 'fields'), ok, 'constructor stores type and message in the matching fields' if ok else
              'constructor cross-wires exc_type / exc_msg: %r' % asg, flaw, init.node)
