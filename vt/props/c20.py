"""C20 -- The Flaw failsafe page works for any start-up error text.

Decided:
  R20.a  every global name loaded in clastic/flaw.py resolves (symtable) -- also the functions of
         server.py that build the failsafe (serve_error_app, restart_with_reloader; loads dominated by a
         Windows-only test such as ``os.name == 'nt'`` are exempt);
  R20.b  parsing can never prevent the page: every call of the traceback parser that create_app makes (directly or
         through a function of the module) sits under a catch-all handler that completes normally with a harmless
         value, and the value put into the resources is bound on every path; the endpoint's own risky expressions
         (``tb_str.splitlines()[-1]``) likewise; both page routes ('/' and the catch-all '/<..*>') use the same
         endpoint and template; the resource names given to Application are exactly the endpoint's parameters (so
         the bind-time check of C01 holds for the failsafe itself); the template name rendered is the one
         registered; the static asset application is non-breaking (its closures and helpers included) and the
         catch-all is the last route; the page routes answer every method and the Application is configured with
         nothing else (slash mode, middlewares, error handler at their defaults); create_app touches its inputs only
         where that cannot stop the construction; nothing removes entries from the caller's monitored-file list; the
         text / file list shown are the ones create_app was given;
  R20.c  every reference of the registered template is HTML-escaped under ashes' filter semantics (no |s, no esc
         pragma, stock filters on the render factory), and nothing in clastic switches autoescaping off; the endpoint
         supplies what the template reads; the error text and the full file list are rendered unconditionally;
  R20.d  the parsed branch is reachable: from_string has a normal return path that does not depend on an
         unbound name (follows from R20.a), constructs cls(<type>, <message>, ...) from the two sides of the
         ``partition(':')`` of the exception line, and to_dict exports the keys the template's {#parsed_err} block
         reads (the parser is never run on sample tracebacks: which strings it accepts as the exception line is a
         value-level question and is declined, DESIGN.md 10.2).
  R20.e  the launcher (server.py) builds the failsafe from what it collected: the function calling flaw.create_app
         passes its own (error text, file list) parameters in that order, and the list restart_with_reloader hands to
         the error hook is filled *in place* from the child's report -- no nested function or helper rebinds it as a
         local of its own.
  R20.f  the exception shown is the one on the *last* line: the line whose ``partition(':')`` supplies the type and
         message handed to the parsed object is followed back to the iteration / index / ``next`` / ``pop`` that
         produced it, and that search has to run from the end of the text (``reversed``, ``[::-1]``, a descending index,
         a negative position, ``pop()``; a top-down loop only when it keeps the last hit) -- a chained traceback has
         earlier 'Type: message' lines further up.  Orders are an abstract value (top-down / bottom-up / unknown);
         nothing is evaluated; unknown is an analysis error.
  R20.c  (taint) what comes from the child process reaches HTML only as a *value* of the render context: the template
         source that is compiled is not made from the error text / the file list / anything derived from them (template
         syntax in the text is data), and the endpoint writes none of it into a response by hand.
  R20.d  (2) no bytes-only method is called on the text where the path conditions say it is a str (abstract domain
         str / not str read off the dominating isinstance tests): ``x.decode`` under ``isinstance(x, str)`` raises for
         every text and the parsed branch is dead; (3) the dict the parser made is what the template section around
         {exc_type} / {exc_msg} reads (section -> context value -> endpoint parameter -> resource -> parser call).
  R20.e  (2) when the builder does not pass its bare parameters, each argument at least has to be made from the
         parameter of its position; a closure variable / the other parameter is not what the launcher collected.
  R20.f  (2) the search from the end *covers* the last line: a slice with an upper bound, a reversed slice starting
         below the end, a descending / negative index walk whose first position (affine in ``len``) is not the last
         element, or a fixed position other than 0 / -1 leaves it out.
  R20.g, R20.h  (c20_launcher.py) the child's stderr lines are sorted by one prefix test into the file-list report and
         the error text and the hook gets the whole collected text; the hook is guarded, the server it returns serves
         the application create_app built and is shut down on every way back into the restart loop.
  R20.i, R20.j  (c20_inert.py) the failsafe runs / imports no code named at run time; a module imported inside a
         function is known to be importable or its ImportError is caught.
  R20.k  (c20_files.py) outside a catch-all the entries of the monitored-file list are only handled by operations that
         are total on strings (taint list -> entry, followed into the functions of the module; a finite table of library
         operations known to raise for some names).
  R20.m  (c20_walks.py) a failure while the frames are collected loses the exception type and message too (one guarded
         call returns both): no walk of the parser over the lines reads a position that lies beyond the list in its last
         step whatever the length (a look-ahead of at least the walk's stride that no path condition bounds).
Declined: "answers 200 for every text" over non-text inputs; which traceback texts the parser recognises (C20a-1: the
predicate on the part before the colon); whether the frame lines come in whole File / source records (a look-ahead
*inside* the record a step owns is out of range only for a last record cut short -- the pairing loop of the pinned tree
is of that form and does fail there: a finding, not a judgement, see c20_walks.py); which files the failsafe waits on;
environments (only ImportError of function-level imports is judged).

The constructs are located by role: the Application(...) call create_app returns, its routes / resources /
render_factory arguments followed through single-assignment locals, module-level constants, expression functions,
builder functions (public call-only helpers are dissolved into their callers like the loader does for private ones),
straight-line list / dict building and unpacking; the endpoint is whatever function the page routes name; the template
is whatever source is registered; lambdas and nested functions are judged where they run.
"""
import ast

from ..core import AnalysisError, norm, short
from .. import dust
from .. import layers
from ..astutil import assigned_value, argn, root_name, handler_catches
from ..cfg import enclosing_tries, expr_may_raise
from .common import (cfg_of, fkey, conds, check_unbound, stmts_of, stmt_of, walk_body, call_tail, call_name, returns_of)

FLAW = 'clastic.flaw'
PARSER_CLASS = '_ParsedTB'
PARSER_METHODS = ('from_string', 'to_dict')


# ------------------------------------------------------------------------------------------------ shared with C09 / C18
def autoescape_writes(repo):
    """Any store to an ``autoescape_filter`` attribute / keyword anywhere in clastic (a keyword that spells the
    default, ``autoescape_filter='h'``, switches nothing off)."""
    out = []
    for m in repo.all_internal_modules():
        for n in ast.walk(m.tree):
            if isinstance(n, ast.Attribute) and n.attr == 'autoescape_filter' and isinstance(n.ctx, ast.Store):
                out.append((m, n))
            if isinstance(n, ast.keyword) and n.arg == 'autoescape_filter' and \
                    not (isinstance(n.value, ast.Constant) and n.value.value == 'h'):
                out.append((m, n.value))
            if isinstance(n, ast.Call) and call_tail(n) == 'setattr' and len(n.args) >= 2 and \
                    isinstance(n.args[1], ast.Constant) and n.args[1].value == 'autoescape_filter':
                out.append((m, n))
    return out


def check_template_escaping(rep, rule, repo, mod, name, text, allow=(), node=None):
    """Every reference tag of an ashes template is escaped; returns the tags."""
    tags = dust.tokenize(repo, text)
    refs = [t for t in tags if t.kind == 'ref']
    for t in refs:
        key = '%s::%s::%s' % (mod.name if hasattr(mod, 'name') else mod, name, t.text)
        if (name, t.text) in allow or t.text in allow:
            rep.ok(rule, key, 'allow-listed raw reference (value is itself rendered from a checked template)', mod, node)
            continue
        rep.check(rule, key, t.escaped,
                  'reference is HTML-escaped (filters %r, autoescape %r)' % (t.filters, t.auto) if t.escaped else
                  'reference %s is emitted unescaped (filters %r, autoescape %r) at template line %d'
                  % (t.text, t.filters, t.auto, t.line), mod, node)
    for t in tags:
        if t.kind == 'pragma' and t.refpath == 'esc' and (t.contpath or 'h') != 'h':
            rep.fail(rule, '%s::%s::%s' % (getattr(mod, 'name', mod), name, t.text),
                     'escaping pragma %s switches autoescaping to %r' % (t.text, t.contpath), mod, node)
    return tags


# ------------------------------------------------------------------------------------------------ following locals
def _all_params(fi):
    a = fi.node.args
    out = set(fi.params())
    if a.vararg:
        out.add(a.vararg.arg)
    if a.kwarg:
        out.add(a.kwarg.arg)
    return out


def _single_value(fi, name):
    """Value of a local that is bound exactly once, by a plain assignment (never a parameter): else None."""
    if name in _all_params(fi):
        return None
    b = assigned_value(fi.node, name)
    if len(b) == 1 and b[0][2] is None and isinstance(b[0][0], (ast.Assign, ast.AnnAssign)):
        return b[0][1]
    return None


def _expression_function(fi, call):
    """(FuncInfo, return expression) when ``call`` names a function -- nested in ``fi`` or at module level -- whose
    whole body is ``return <expr>`` (a docstring aside): such a call can be read as the expression itself."""
    if not (isinstance(call, ast.Call) and isinstance(call.func, ast.Name)):
        return None
    name = call.func.id
    g = fi.mod.functions.get('%s.%s' % (fi.qualname, name))
    if g is None:
        if name in _all_params(fi) or assigned_value(fi.node, name):
            return None
        try:
            kind, m, obj = fi.mod.repo.resolve(fi.mod, name)
        except Exception:
            return None
        if kind != 'func' or m is not fi.mod:
            return None
        g = obj
    elif assigned_value(fi.node, name):
        return None
    if not isinstance(g.node, ast.FunctionDef) or g.node.decorator_list or g.node is fi.node:
        return None
    body = list(g.node.body)
    if body and isinstance(body[0], ast.Expr) and isinstance(body[0].value, ast.Constant) and isinstance(body[0].value.value, str):
        body = body[1:]
    if len(body) != 1 or not isinstance(body[0], ast.Return) or body[0].value is None:
        return None
    return g, body[0].value


def _inline_expression_call(fi, call):
    """The return expression of an expression function with the arguments substituted, or None."""
    import copy
    found = _expression_function(fi, call)
    if found is None:
        return None
    g, value = found
    a = g.node.args
    if a.vararg or a.kwarg or any(isinstance(x, ast.Starred) for x in call.args) or any(k.arg is None for k in call.keywords):
        return None
    names = [x.arg for x in a.posonlyargs + a.args]
    kwonly = [x.arg for x in a.kwonlyargs]
    if len(call.args) > len(names):
        return None
    binding = dict(zip(names, call.args))
    for k in call.keywords:
        if k.arg in binding or k.arg not in names + kwonly:
            return None
        binding[k.arg] = k.value
    defaults = dict(zip(names[len(names) - len(a.defaults):], a.defaults))
    for x, d in zip(kwonly, a.kw_defaults):
        if d is not None:
            defaults[x] = d
    for n in names + kwonly:
        if n not in binding:
            if n not in defaults:
                return None
            binding[n] = defaults[n]
    shadow = set()
    for n in ast.walk(value):
        if isinstance(n, ast.comprehension):
            shadow |= set(x.id for x in ast.walk(n.target) if isinstance(x, ast.Name))
        elif isinstance(n, ast.Lambda):
            shadow |= set(x.arg for x in n.args.posonlyargs + n.args.args + n.args.kwonlyargs)
        elif isinstance(n, ast.Call) and isinstance(n.func, ast.Name) and n.func.id == g.node.name:
            return None    # recursive
    if shadow & set(binding):
        return None
    free = set(n.id for n in ast.walk(value) if isinstance(n, ast.Name)) - set(binding)
    if '.' not in g.qualname and any(n in _all_params(fi) or assigned_value(fi.node, n) for n in free):
        return None        # a module-level name of the callee is shadowed by a local of the caller

    class _Sub(ast.NodeTransformer):
        def visit_Name(self_, node):
            if node.id in binding and isinstance(node.ctx, ast.Load):
                return ast.copy_location(copy.deepcopy(binding[node.id]), node)
            return node
    return ast.copy_location(_Sub().visit(copy.deepcopy(value)), call)


def _const_index(idx):
    if isinstance(idx, ast.UnaryOp) and isinstance(idx.op, ast.USub) and isinstance(idx.operand, ast.Constant) and \
            isinstance(idx.operand.value, int) and not isinstance(idx.operand.value, bool):
        return -idx.operand.value
    if isinstance(idx, ast.Constant) and isinstance(idx.value, int) and not isinstance(idx.value, bool):
        return idx.value
    return None


def _deref(fi, expr, limit=8):
    """Follow ``name`` -> the expression it was (once) assigned (also as one position of an unpacked sequence that can
    be followed), ``pair[0]`` -> that element of a literal tuple held by a once-assigned local, and a call of an
    expression function (``def page(p): return (p, endpoint, NAME)``) -> its return expression, repeatedly."""
    while limit > 0:
        limit -= 1
        if isinstance(expr, ast.Name):
            v = _single_value(fi, expr.id)
            if v is not None:
                expr = v
                continue
            b = assigned_value(fi.node, expr.id) if expr.id not in _all_params(fi) else []
            if len(b) == 1 and isinstance(b[0][2], int) and isinstance(b[0][0], ast.Assign) and len(b[0][0].targets) == 1 and \
                    isinstance(b[0][0].targets[0], (ast.Tuple, ast.List)) and \
                    not any(isinstance(t, ast.Starred) for t in b[0][0].targets[0].elts):
                try:
                    elts = _seq_elements(fi, b[0][1], 'unpacking', 6 - min(limit, 5))
                except AnalysisError:
                    break
                if len(elts) == len(b[0][0].targets[0].elts):
                    expr = elts[b[0][2]]
                    continue
            break
        if isinstance(expr, ast.Subscript) and isinstance(expr.ctx, ast.Load) and isinstance(expr.value, ast.Name):
            i = _const_index(expr.slice)
            if i is None:
                break
            seq = _single_value(fi, expr.value.id)
            # a tuple is immutable; a list could have been changed in between
            if isinstance(seq, ast.Tuple) and not any(isinstance(e, ast.Starred) for e in seq.elts) and -len(seq.elts) <= i < len(seq.elts):
                expr = seq.elts[i]
                continue
            break
        if isinstance(expr, ast.Call):
            v = _inline_expression_call(fi, expr)
            if v is not None:
                expr = v
                continue
        break
    return expr


def _closed(fi, expr, depth=0):
    """``expr`` with the once-assigned locals of ``fi`` and its expression-function calls replaced by what they stand
    for, so that it can be read outside ``fi`` (it then only mentions module-level names, constants -- and parameters
    of ``fi``, which stay as they are)."""
    import copy
    if depth > 6:
        return expr

    class _Close(ast.NodeTransformer):
        def visit_Name(self_, node):
            if isinstance(node.ctx, ast.Load):
                v = _deref(fi, node)
                if v is not node:
                    return _closed(fi, copy.deepcopy(v) if not isinstance(v, ast.Name) else v, depth + 1)
            return node

        def visit_Call(self_, node):
            v = _inline_expression_call(fi, node)
            if v is not None:
                return _closed(fi, v, depth + 1)
            return self_.generic_visit(node)

        def visit_Lambda(self_, node):
            return node
    return _Close().visit(copy.deepcopy(expr))


def _canon_name(fi, expr):
    """Root local name of ``expr`` with pure aliases (``a = b``) followed."""
    name = root_name(expr)
    seen = set()
    while name is not None and name not in seen:
        seen.add(name)
        v = _single_value(fi, name)
        if isinstance(v, ast.Name):
            name = v.id
        else:
            break
    return name


_UNFOLDED = object()


def _fold(repo, fi, expr):
    """Constant value of an expression (locals bound once and module-level constants followed) or _UNFOLDED."""
    return repo.try_fold(_deref(fi, expr), fi.mod, _UNFOLDED)


def _straight_line(fi, st):
    """The statement runs exactly once per activation, unconditionally (apart from exceptions): its ancestors up to
    the function are only try bodies / else clauses and with blocks."""
    cur = st
    while True:
        par = fi.mod.parents.get(cur)
        if par is None:
            return False
        if par is fi.node:
            return True
        if isinstance(par, ast.Try):
            if cur not in par.body and cur not in par.orelse:
                return False
        elif not isinstance(par, (ast.With,)):
            return False
        cur = par


def _seq_elements(fi, expr, what, depth=0):
    """Element expressions of a list / tuple valued expression that is a literal or is built in straight-line code
    (literal, concatenation, ``x = [..]`` followed by append / extend / insert / ``+=``)."""
    if depth > 5:
        raise AnalysisError('%s: construction too deep to follow' % what)
    if isinstance(expr, (ast.List, ast.Tuple)):
        out = []
        for e in expr.elts:
            if isinstance(e, ast.Starred):
                out.extend(_seq_elements(fi, e.value, what, depth + 1))      # [*pages, assets]
            else:
                out.append(e)
        return out
    if isinstance(expr, ast.BinOp) and isinstance(expr.op, ast.Add):
        return _seq_elements(fi, expr.left, what, depth + 1) + _seq_elements(fi, expr.right, what, depth + 1)
    if isinstance(expr, ast.Call) and call_name(expr) in ('list', 'tuple') and len(expr.args) == 1 and not expr.keywords:
        return _seq_elements(fi, expr.args[0], what, depth + 1)
    if isinstance(expr, ast.Call) and isinstance(expr.func, ast.Name):
        v = _inline_expression_call(fi, expr)
        if v is not None:
            return _seq_elements(fi, v, what, depth + 1)
        # routes = build_routes(): a function of the module that takes nothing and ends in one ``return <sequence>``
        try:
            kind, m, g = fi.mod.repo.resolve(fi.mod, expr.func.id)
        except Exception:
            kind, m, g = 'unknown', None, None
        if kind == 'func' and m is fi.mod and g.node is not fi.node and not expr.args and not expr.keywords and \
                expr.func.id not in _all_params(fi) and not assigned_value(fi.node, expr.func.id):
            rets = returns_of(g)
            if len(rets) == 1 and rets[0].value is not None and _straight_line(g, rets[0]) and not g.params():
                return [_closed(g, e) for e in _seq_elements(g, rets[0].value, what, depth + 1)]
    if isinstance(expr, ast.Subscript) and isinstance(expr.slice, ast.Slice) and expr.slice.step is None:
        # pages[:1] / pages[1:] of a sequence that can be followed
        lo = _const_index(expr.slice.lower) if expr.slice.lower is not None else None
        hi = _const_index(expr.slice.upper) if expr.slice.upper is not None else None
        if (expr.slice.lower is not None and lo is None) or (expr.slice.upper is not None and hi is None):
            raise AnalysisError('%s: slice %s cannot be followed' % (what, short(expr)))
        return _seq_elements(fi, expr.value, what, depth + 1)[lo:hi]
    if isinstance(expr, (ast.ListComp, ast.GeneratorExp)) and len(expr.generators) == 1 and not expr.generators[0].ifs and \
            not expr.generators[0].is_async:
        # [(p, endpoint, name) for p in ('/', '/<x*>')] / [(p, *t) for p, t in zip(PATTERNS, targets)]: one element per
        # element of the iterated sequence(s), the loop variables replaced by those elements
        import copy
        g = expr.generators[0]
        it = _deref(fi, g.iter)
        rows = None
        consts = fi.mod.repo.try_fold(it, fi.mod, None)
        if isinstance(consts, (list, tuple)) and all(isinstance(c, (str, int, bytes)) for c in consts):
            rows = [ast.copy_location(ast.Constant(value=c), g.iter) for c in consts]
        elif isinstance(it, ast.Call) and call_name(it) == 'zip' and it.args and not it.keywords:
            cols = [_seq_elements(fi, a, what, depth + 1) for a in it.args]
            rows = [ast.copy_location(ast.Tuple(elts=list(r), ctx=ast.Load()), g.iter) for r in zip(*cols)]
        elif isinstance(it, ast.Call) and call_name(it) == 'enumerate' and len(it.args) == 1 and not it.keywords:
            col = _seq_elements(fi, it.args[0], what, depth + 1)
            rows = [ast.copy_location(ast.Tuple(elts=[ast.Constant(value=i), e], ctx=ast.Load()), g.iter) for i, e in enumerate(col)]
        else:
            rows = _seq_elements(fi, it, what, depth + 1)
        out = []
        for row in rows:
            binding = {}

            def bind(t, v):
                if isinstance(t, ast.Name):
                    binding[t.id] = v
                elif isinstance(t, (ast.Tuple, ast.List)) and not any(isinstance(x, ast.Starred) for x in t.elts):
                    vs = _seq_elements(fi, v, what, depth + 1) if not isinstance(v, ast.Constant) else None
                    if vs is None or len(vs) != len(t.elts):
                        raise AnalysisError('%s: comprehension target %s cannot be bound' % (what, short(t)))
                    for t_, v_ in zip(t.elts, vs):
                        bind(t_, v_)
                else:
                    raise AnalysisError('%s: comprehension target %s cannot be bound' % (what, short(t)))
            bind(g.target, row)

            class _Sub(ast.NodeTransformer):
                def visit_Name(self_, node):
                    if node.id in binding and isinstance(node.ctx, ast.Load):
                        return ast.copy_location(copy.deepcopy(binding[node.id]), node)
                    return node
            out.append(_Sub().visit(copy.deepcopy(expr.elt)))
        return out
    if isinstance(expr, ast.Name):
        name = expr.id
        if name in _all_params(fi):
            raise AnalysisError('%s: %s is a parameter' % (what, name))
        binds = assigned_value(fi.node, name)
        if not binds:
            # a module-level constant sequence
            consts = fi.mod.repo.try_fold(expr, fi.mod, None)
            if isinstance(consts, (list, tuple)) and all(isinstance(c, (str, int, bytes, type(None))) for c in consts):
                return [ast.copy_location(ast.Constant(value=c), expr) for c in consts]
            vals = fi.mod.assigns.get(name) or []
            if len(vals) == 1 and isinstance(vals[0], (ast.List, ast.Tuple)) and not any(isinstance(e, ast.Starred) for e in vals[0].elts):
                return list(vals[0].elts)       # module-level display of names (only module-level names in it)
            raise AnalysisError('%s: %s is not a local and not a constant sequence' % (what, name))
        plain = [b for b in binds if isinstance(b[0], (ast.Assign, ast.AnnAssign)) and b[2] is None]
        augs = [b for b in binds if isinstance(b[0], ast.AugAssign)]
        if len(plain) != 1 or len(plain) + len(augs) != len(binds):
            raise AnalysisError('%s: local %s is not built by one assignment' % (what, name))
        elts = None
        for st in stmts_of(fi.node):
            if st is plain[0][0]:
                if not _straight_line(fi, st):
                    raise AnalysisError('%s: %s is assigned conditionally' % (what, name))
                elts = _seq_elements(fi, plain[0][1], what, depth + 1)
                continue
            touched = None
            if isinstance(st, ast.AugAssign) and isinstance(st.target, ast.Name) and st.target.id == name:
                if not isinstance(st.op, ast.Add):
                    raise AnalysisError('%s: %s' % (what, short(st)))
                touched = ('extend', [st.value])
            elif isinstance(st, ast.Expr) and isinstance(st.value, ast.Call) and isinstance(st.value.func, ast.Attribute) \
                    and isinstance(st.value.func.value, ast.Name) and st.value.func.value.id == name:
                touched = (st.value.func.attr, st.value.args)
            elif isinstance(st, (ast.Assign, ast.Delete)):
                tg = st.targets
                if any(isinstance(t, ast.Subscript) and root_name(t) == name for t in tg):
                    raise AnalysisError('%s: element store into %s' % (what, name))
            if touched is None:
                continue
            if elts is None or not _straight_line(fi, st):
                raise AnalysisError('%s: %s is extended conditionally or before it is assigned (%s)' % (what, name, short(st)))
            meth, args = touched
            if meth == 'append' and len(args) == 1:
                elts = elts + [args[0]]
            elif meth == 'extend' and len(args) == 1:
                elts = elts + _seq_elements(fi, args[0], what, depth + 1)
            elif meth == 'insert' and len(args) == 2 and isinstance(args[0], ast.Constant) and isinstance(args[0].value, int) \
                    and 0 <= args[0].value <= len(elts):
                elts = elts[:args[0].value] + [args[1]] + elts[args[0].value:]
            elif meth in ('count', 'index', 'copy'):
                pass
            else:
                raise AnalysisError('%s: %s.%s(...) cannot be followed' % (what, name, meth))
        if elts is None:
            raise AnalysisError('%s: assignment of %s not found' % (what, name))
        return elts
    raise AnalysisError('%s: %s is not a literal list' % (what, short(expr)))


def _dict_items(fi, expr, what, depth=0):
    """{key: value expr} of a dict valued expression: a literal, ``dict(k=v)``, ``dict([(k, v), ..])``, ``{**d, k: v}``,
    or a local built from those plus ``d[k] = v`` / ``d.update(...)`` / ``d.setdefault(k, v)``."""
    if depth > 4:
        raise AnalysisError('%s: construction too deep to follow' % what)
    if isinstance(expr, ast.Name):
        if expr.id in _all_params(fi):
            raise AnalysisError('%s: %s is a parameter' % (what, expr.id))
        ls = layers.layers_of_var(fi.node, expr.id)
    else:
        ls = layers.layers_of_expr(expr)
    items = {}
    if not ls:
        raise AnalysisError('%s: construction of %s not found' % (what, short(expr)))
    for l in ls:
        if l.kind == 'source':
            src = l.node
            if isinstance(src, ast.Name) and not (isinstance(expr, ast.Name) and src.id == expr.id):
                items.update(_dict_items(fi, src, what, depth + 1))       # {**base, ...} / dict(base, ...)
                continue
            if isinstance(src, (ast.List, ast.Tuple)):
                pairs = []
                for p_ in src.elts:                                         # dict([('k', v), item, ...])
                    if isinstance(p_, ast.Tuple) and len(p_.elts) == 2 and isinstance(p_.elts[0], ast.Constant):
                        pairs.append((p_.elts[0].value, p_.elts[1]))
                        continue
                    binds = assigned_value(fi.node, p_.id) if isinstance(p_, ast.Name) and p_.id not in _all_params(fi) else []
                    keys = set(v_.elts[0].value if isinstance(v_, ast.Tuple) and len(v_.elts) == 2 and isinstance(v_.elts[0], ast.Constant)
                               and idx_ is None else None for st_, v_, idx_ in binds)
                    if len(keys) == 1 and None not in keys:
                        # item = ('k', a) in the try, ('k', b) in the handler: the key is known, the value is "item[1]"
                        val = binds[0][1].elts[1] if len(binds) == 1 else \
                            ast.copy_location(ast.Subscript(value=p_, slice=ast.Constant(value=1), ctx=ast.Load()), p_)
                        pairs.append((keys.pop(), val))
                        continue
                    pairs = None
                    break
                if pairs is not None:
                    items.update(pairs)
                    continue
            if isinstance(src, ast.Call) and call_name(src) == 'zip' and len(src.args) == 2 and not src.keywords:
                # dict(zip(NAMES, values)): the names fold to constants, the values are a followable sequence
                names = _fold(fi.mod.repo, fi, src.args[0])
                vals = _seq_elements(fi, src.args[1], what)
                if isinstance(names, (list, tuple)) and len(names) == len(vals) and all(isinstance(n_, str) for n_ in names):
                    items.update(zip(names, vals))
                    continue
                raise AnalysisError('%s: %s cannot be followed' % (what, short(src)))
            if isinstance(src, (ast.Dict, ast.Call)) and src is not expr:
                items.update(_dict_items(fi, src, what, depth + 1))
                continue
            raise AnalysisError('%s: part %s of the dict is not a literal' % (what, l.text))
        if l.kind != 'literal' or l.values is None:
            raise AnalysisError('%s: part %s of the dict is not a literal' % (what, l.text))
        for k in l.keys:
            if l.below:
                items.setdefault(k, l.values.get(k))
            else:
                items[k] = l.values.get(k)
    return items


# ------------------------------------------------------------------------------------------------ exception containment
def _harmless_value(v):
    if v is None:
        return True
    if isinstance(v, ast.Call) and isinstance(v.func, ast.Name) and v.func.id in ('dict', 'list', 'tuple', 'set', 'frozenset', 'str') \
            and not v.keywords and all(_harmless_value(a) and not isinstance(a, ast.Name) for a in v.args):
        return True
    if isinstance(v, (ast.Dict, ast.List, ast.Tuple, ast.Set)):
        parts = list(v.values) + [k for k in v.keys if k is not None] if isinstance(v, ast.Dict) else list(v.elts)
        if isinstance(v, ast.Dict) and any(k is None for k in v.keys):
            return False
        return all(_harmless_value(p) for p in parts)
    return not expr_may_raise(v)


def _handler_completes(handler, fi=None):
    """The handler body cannot raise and falls through / returns with a constant-like value: it is made of ``pass``,
    assignments / returns of values whose evaluation cannot raise.  Returns None or the offending statement."""
    for s in handler.body:
        if isinstance(s, ast.Pass):
            continue
        if isinstance(s, ast.Expr) and isinstance(s.value, ast.Constant):
            continue
        if isinstance(s, ast.Assign) and all(isinstance(t, ast.Name) for t in s.targets) and _harmless_value(s.value):
            continue
        if fi is not None and isinstance(s, ast.Assign) and _harmless_value(s.value) and all(
                isinstance(t, ast.Name) or (isinstance(t, ast.Subscript) and isinstance(t.value, ast.Name) and
                                            _harmless_value(t.slice) and _fresh_is_container(fi, t.value.id))
                for t in s.targets):
            continue      # ctx['k'] = <constant> on a dict built in this function
        if isinstance(s, ast.AnnAssign) and isinstance(s.target, ast.Name) and _harmless_value(s.value):
            continue
        if isinstance(s, ast.Return) and _harmless_value(s.value):
            continue
        return s
    return None


def _catch_all(fi, node):
    """(try, handler, problem) for the innermost enclosing try body whose handlers stop *every* exception of ``node``
    (a bare ``except`` / ``except BaseException`` / ``except Exception``) -- (None, None, None) when there is none.
    ``problem`` names what lets an exception out anyway (an earlier, narrower handler that raises, the catch-all
    handler itself raising or doing something that can raise)."""
    cur = node
    suppressing = None
    while cur is not None and cur is not fi.node:
        par = fi.mod.parents.get(cur)
        if isinstance(cur, ast.Lambda):
            return None, None, None
        if isinstance(cur, ast.GeneratorExp) and not (isinstance(par, ast.Call) and cur in par.args):
            return None, None, None
        if isinstance(par, ast.With) and cur in par.body and suppressing is None:
            for it in par.items:
                ce = it.context_expr
                if isinstance(ce, ast.Call) and call_tail(ce) == 'suppress' and \
                        any(norm(a) in ('Exception', 'BaseException') for a in ce.args):
                    suppressing = par      # with contextlib.suppress(Exception): ...
        if isinstance(par, ast.Try) and suppressing is None and cur in par.body and \
                any(handler_catches(h, 'BaseException') or handler_catches(h, 'Exception') for h in par.handlers):
            break
        cur = par
    if suppressing is not None:
        return suppressing, suppressing, None
    for tr, part in enclosing_tries(fi.mod, node, fi.node):
        if part != 'body':
            continue
        for i, h in enumerate(tr.handlers):
            if handler_catches(h, 'BaseException') or handler_catches(h, 'Exception'):
                for h0 in tr.handlers[:i]:
                    if any(isinstance(s, ast.Raise) for s in ast.walk(h0)):
                        return tr, h, 'the narrower handler "except %s" before it raises' % norm(h0.type)
                if any(isinstance(s, ast.Raise) for s in ast.walk(h)):
                    return tr, h, 'the handler re-raises'
                bad = _handler_completes(h, fi)
                if bad is not None:
                    return tr, h, 'the handler runs %s, which can raise itself' % short(bad, 60)
                if tr.finalbody and any(isinstance(s, ast.Raise) for f in tr.finalbody for s in ast.walk(f)):
                    return tr, h, 'the finally clause raises'
                return tr, h, None
    return None, None, None


def _deferred_functions(fi):
    """Lambdas and nested function definitions written in the body of ``fi`` (their code runs where they are called)."""
    out = []
    for n in walk_body(fi.node):
        if isinstance(n, ast.Lambda) or (isinstance(n, (ast.FunctionDef, ast.AsyncFunctionDef)) and n is not fi.node):
            out.append(n)
    return out


def _runner_verdict(repo, fi, fn_node):
    """Where does a lambda / nested function of ``fi`` run?  (True, where) when every place that calls it is inside a
    sound catch-all (in ``fi`` itself, or in the function of the module it is handed to: ``_attempt(lambda: ..., {})``);
    (False, why) when a call that can be seen is not contained; (None, why) when it cannot be told."""
    parents = fi.mod.parents
    if isinstance(fn_node, (ast.Name, ast.Attribute)):
        uses = [fn_node]          # a reference to a function defined elsewhere, written right here
    elif isinstance(fn_node, ast.Lambda):
        par = parents.get(fn_node)
        if isinstance(par, ast.Assign) and len(par.targets) == 1 and isinstance(par.targets[0], ast.Name) and par.value is fn_node:
            name = par.targets[0].id
            if len(assigned_value(fi.node, name)) != 1:
                return None, 'the name %s is bound more than once' % name
            uses = [n for n in walk_body(fi.node) if isinstance(n, ast.Name) and n.id == name and isinstance(n.ctx, ast.Load)]
        else:
            uses = [fn_node]
    else:
        name = fn_node.name
        if assigned_value(fi.node, name):
            return None, 'the name %s is re-bound' % name
        uses = [n for n in walk_body(fi.node) if isinstance(n, ast.Name) and n.id == name and isinstance(n.ctx, ast.Load)]
    if not uses:
        return None, 'never used'
    where = []
    for u in uses:
        par = parents.get(u)
        call, kwname = None, None
        if isinstance(par, ast.keyword):
            kwname, call = par.arg, parents.get(par)
        elif isinstance(par, ast.Call):
            call = par
        if call is None:
            return None, 'used as a value (%s)' % short(par, 40)
        if call.func is u:
            tr, h, problem = _catch_all(fi, call)
            if h is None or problem:
                return False, 'it is called %s' % ('outside any catch-all handler' if h is None else 'where ' + problem)
            where.append(fi.qualname)
            continue
        g = _module_callee(repo, fi, call)
        if g is None:
            return None, 'handed to %s' % short(call.func, 30)
        gps = g.params()
        if kwname is not None:
            pname = kwname if kwname in gps else None
        else:
            idx = [i for i, a in enumerate(call.args) if a is u]
            pname = gps[idx[0]] if idx and idx[0] < len(gps) and not any(isinstance(a, ast.Starred) for a in call.args[:idx[0] + 1]) else None
        if pname is None or assigned_value(g.node, pname):
            return None, 'handed to %s in a way that cannot be followed' % g.qualname
        loads = [n for n in walk_body(g.node) if isinstance(n, ast.Name) and n.id == pname and isinstance(n.ctx, ast.Load)]
        if not loads:
            return None, '%s never calls it' % g.qualname
        for l in loads:
            gp = g.mod.parents.get(l)
            if not (isinstance(gp, ast.Call) and gp.func is l):
                return None, '%s passes it on' % g.qualname
            tr, h, problem = _catch_all(g, gp)
            if h is None or problem:
                return False, '%s calls it %s' % (g.qualname, 'outside any catch-all handler' if h is None else 'where ' + problem)
        where.append(g.qualname)
    return True, ', '.join(sorted(set(where)))


def _is_parser_call(fi, c):
    if not isinstance(c, ast.Call):
        return False
    f = c.func
    if isinstance(f, ast.Name):
        if f.id == PARSER_CLASS:
            return True
        v = _deref(fi, f)            # parse = _ParsedTB.from_string; parse(text)
        return isinstance(v, ast.Attribute) and v.attr in PARSER_METHODS and v is not f
    return isinstance(f, ast.Attribute) and f.attr in PARSER_METHODS


def _module_callee(repo, fi, c):
    """FuncInfo of a module-level function of the analysed module called by plain name, else None."""
    if isinstance(c, ast.Call) and isinstance(c.func, ast.Name):
        try:
            kind, m, obj = repo.resolve(fi.mod, c.func.id)
        except Exception:
            return None
        if kind == 'func' and m is fi.mod:
            return obj
    return None


def _cannot_raise(repo, g):
    """The function has no expression that can raise for an odd input outside a sound catch-all, and no loose raise."""
    inner, _ = _risky_nodes(repo, g)
    inner = [m for m, w in inner if _catch_all(g, m)[1] is None or _catch_all(g, m)[2]]
    loose_raise = [s for s in stmts_of(g.node) if isinstance(s, ast.Raise) and _catch_all(g, s)[1] is None]
    return not inner and not loose_raise


def _harmless_parser_method(repo, fi, c):
    """``x.to_dict()``-like call of a parser method whose body cannot raise."""
    if isinstance(c, ast.Call) and isinstance(c.func, ast.Attribute) and c.func.attr in PARSER_METHODS:
        g = fi.mod.functions.get('%s.%s' % (PARSER_CLASS, c.func.attr))
        return g is not None and _cannot_raise(repo, g)
    return False


def _leaky_parser_functions(repo, flaw):
    """Module-level functions of flaw.py out of which a parser exception can propagate (they call the parser, or
    another such function, outside a sound catch-all).  Methods of the parser class itself are not listed."""
    funcs = [fi for q, fi in flaw.functions.items() if '.' not in q]
    leaky, calls_parser = set(), set()
    changed = True
    while changed:
        changed = False
        for fi in funcs:
            for c in walk_body(fi.node):
                if not isinstance(c, ast.Call):
                    continue
                g = _module_callee(repo, fi, c)
                site = (_is_parser_call(fi, c) and not _harmless_parser_method(repo, fi, c)) or (g is not None and g.qualname in leaky)
                touches = _is_parser_call(fi, c) or (g is not None and g.qualname in calls_parser)
                if touches and fi.qualname not in calls_parser:
                    calls_parser.add(fi.qualname)
                    changed = True
                if site and fi.qualname not in leaky:
                    tr, h, problem = _catch_all(fi, c)
                    if h is None or problem:
                        leaky.add(fi.qualname)
                        changed = True
    return leaky, calls_parser


def _maybe_unbound_at(fi, name, use_stmt):
    """Can control reach ``use_stmt`` without a completed assignment of local ``name``?  (An assignment whose right
    hand side raises has not happened: only the exceptional edges of assignment nodes are followed.)"""
    cfg = cfg_of(fi)
    assign_nodes = set()
    for st, v, idx in assigned_value(fi.node, name):
        if isinstance(st, ast.stmt):
            assign_nodes.update(cfg.nodes_of(st))
            if isinstance(st, (ast.For, ast.AsyncFor)):
                # the target is bound on the 'iter' node only
                assign_nodes.difference_update(cfg.nodes_of(st))
                assign_nodes.update(n.id for n in cfg.nodes if n.kind == 'iter' and n.stmt is st)
    targets = set(cfg.nodes_of(use_stmt))
    seen, todo = {cfg.entry}, [cfg.entry]
    while todo:
        n = todo.pop()
        if n in targets:
            return True
        for m in cfg.succ[n]:
            if m in seen:
                continue
            if n in assign_nodes and (n, m) not in cfg.exc_edges:
                continue
            seen.add(m)
            todo.append(m)
    return False


# ------------------------------------------------------------------------------------------------ Windows-only code
_PLATFORM_EXPRS = ('os.name', 'sys.platform', 'platform.system()')
_WINDOWS_VALUES = ('nt', 'win32', 'Windows', 'cygwin', 'ce')


def _windows_test(t, mod, depth=0):
    """+1 when ``t`` true implies Windows, -1 when ``t`` false implies Windows, 0 when it says nothing."""
    if isinstance(t, ast.Name) and depth < 3:
        vals = mod.assigns.get(t.id) or []
        if len(vals) == 1 and isinstance(vals[0], ast.expr):
            return _windows_test(vals[0], mod, depth + 1)
        return 0
    if isinstance(t, ast.UnaryOp) and isinstance(t.op, ast.Not):
        return -_windows_test(t.operand, mod, depth + 1)
    if isinstance(t, ast.Compare) and len(t.ops) == 1:
        l, r, op = t.left, t.comparators[0], t.ops[0]
        if norm(r) in _PLATFORM_EXPRS and isinstance(op, (ast.Eq, ast.NotEq, ast.Is, ast.IsNot)):
            l, r = r, l
        if norm(l) not in _PLATFORM_EXPRS:
            return 0
        if isinstance(r, ast.Constant) and r.value in _WINDOWS_VALUES:
            if isinstance(op, (ast.Eq, ast.Is)):
                return 1
            if isinstance(op, (ast.NotEq, ast.IsNot)):
                return -1
        if isinstance(r, (ast.Tuple, ast.List, ast.Set)) and r.elts and \
                all(isinstance(e, ast.Constant) and e.value in _WINDOWS_VALUES for e in r.elts):
            if isinstance(op, ast.In):
                return 1
            if isinstance(op, ast.NotIn):
                return -1
        return 0
    if isinstance(t, ast.Call) and norm(t) in ("sys.platform.startswith('win')", "os.name.startswith('nt')"):
        return 1
    return 0


def windows_only(mod, u):
    """Exemption for R20.a: every load of the name is dominated by a Windows-only condition (dead on the analysed platform)."""
    for nd in u.nodes:
        fnode = mod.enclosing_function(nd)
        if fnode is None:
            return None
        fi = mod.func_of_node(fnode)
        if fi is None:
            return None
        gated = False
        for t, p in conds(fi, nd):
            w = _windows_test(t, mod)
            if (w == 1 and p is True) or (w == -1 and p is False):
                gated = True
                break
        if not gated:
            return None
    return 'dominated by a Windows-only test (os.name == \'nt\')' if u.nodes else None


# ------------------------------------------------------------------------------------------------ the failsafe, by role
def _flat_view(repo, mod):
    """A copy of the analysed module in which the *public* plain functions that are only ever called (never passed
    around as values, never re-bound, not named by any rule) are dissolved into their callers as well -- the loader
    does this for private helpers only.  A refactoring that splits create_app / from_string into builder functions
    then presents the same flat shape whatever the helpers are called.  Falls back to the module itself."""
    import copy
    from .. import normalize
    try:
        anchors = normalize.anchor_names()
        used_as_value = set()
        for n in ast.walk(mod.tree):
            if isinstance(n, ast.Name) and isinstance(n.ctx, ast.Load):
                par = mod.parents.get(n)
                if not (isinstance(par, ast.Call) and par.func is n):
                    used_as_value.add(n.id)
        called = set(n.func.id for n in ast.walk(mod.tree) if isinstance(n, ast.Call) and isinstance(n.func, ast.Name))
        cands = []
        for st in mod.tree.body:
            if isinstance(st, ast.FunctionDef) and not st.name.startswith('_') and st.name not in anchors and \
                    st.name in called and st.name not in used_as_value and len(mod.assigns.get(st.name, [])) == 1:
                probe = copy.copy(st)
                probe.name = '_' + st.name
                if normalize._eligible_def(probe) == 'func':
                    cands.append(st.name)
        if not cands:
            return mod
        view = copy.copy(mod)
        view.tree = copy.deepcopy(mod.tree)
        inl = normalize.Inliner(view.tree, anchors)
        for st in view.tree.body:
            if isinstance(st, ast.FunctionDef) and st.name in cands:
                inl.mod_helpers[st.name] = normalize.Helper(st, 'func')
        n = inl.run()
        if not n:
            return mod
        view.tree = normalize.Canon().visit(view.tree)
        ast.fix_missing_locations(view.tree)
        view.functions, view.classes, view.imports, view.assigns, view.parents = {}, {}, {}, {}, {}
        view._index()
        view.inlined_calls = mod.inlined_calls + n
        return view
    except Exception:
        return mod


_METHOD_ROUTES = ('GET', 'POST', 'PUT', 'DELETE', 'HEAD', 'OPTIONS', 'PATCH', 'TRACE', 'CONNECT')


class _Route(object):
    def __init__(self, kind, node, pattern=None, endpoint=None, endpoint_text=None, render=None, app=None, methods=None):
        self.kind, self.node, self.pattern, self.endpoint, self.endpoint_text, self.render, self.app, self.methods = \
            kind, node, pattern, endpoint, endpoint_text, render, app, methods


class _Failsafe(object):
    """What create_app builds, read off the Application(...) call it returns."""

    def __init__(self, repo):
        self.repo = repo
        self.flaw_src = repo.mod(FLAW)                 # as loaded (what symtable sees)
        self.flaw = _flat_view(repo, self.flaw_src)    # public call-only helpers dissolved, too
        self.ca = self.flaw.func('create_app')
        self._cache = {}

    def _memo(self, key, fn):
        if key not in self._cache:
            try:
                self._cache[key] = (True, fn())
            except AnalysisError as e:
                self._cache[key] = (False, e)
        ok, v = self._cache[key]
        if not ok:
            raise AnalysisError(str(v))
        return v

    # -- the Application(...) call ---------------------------------------------------------------------
    def _is_application(self, c):
        if not isinstance(c, ast.Call):
            return False
        if call_tail(c) == 'Application':
            return True
        if isinstance(c.func, ast.Name):
            try:
                kind, m, obj = self.repo.resolve(self.flaw, c.func.id)
            except Exception:
                return False
            return kind == 'class' and obj.name == 'Application'
        return False

    @property
    def app_call(self):
        def find():
            calls = [c for c in walk_body(self.ca.node) if self._is_application(c)]
            if len(calls) != 1:
                raise AnalysisError('create_app: expected one Application(...) construction, found %d' % len(calls))
            return calls[0]
        return self._memo('app', find)

    def _app_arg(self, name, pos):
        v = argn(self.app_call, name, pos)
        if v is None or (isinstance(v, ast.Constant) and v.value is None):
            raise AnalysisError('create_app: Application(...) is not given %s' % name)
        return v

    # -- routes ----------------------------------------------------------------------------------------------
    @property
    def routes_node(self):
        return self._app_arg('routes', 0)

    @property
    def routes(self):
        return self._memo('routes', self._routes)

    def _routes(self):
        ca = self.ca
        out = []
        for e in _seq_elements(ca, self.routes_node, 'create_app routes'):
            e0 = _deref(ca, e)
            methods = None
            if isinstance(e0, ast.Subscript) and isinstance(e0.slice, (ast.Constant, ast.UnaryOp)):
                # pages[0] / pages[-1] of a list that can be followed
                idx = _const_index(e0.slice)
                seq = _seq_elements(ca, e0.value, 'create_app routes')
                if not isinstance(idx, int) or not -len(seq) <= idx < len(seq):
                    raise AnalysisError('create_app: route entry %s cannot be read' % short(e0))
                e0 = _deref(ca, seq[idx])
            if (isinstance(e0, ast.BinOp) and isinstance(e0.op, ast.Add)) or \
                    (isinstance(e0, ast.Tuple) and any(isinstance(x, ast.Starred) for x in e0.elts)):
                parts = _seq_elements(ca, e0, 'create_app route entry')      # ('/',) + page   /   (pattern, *page)
            elif isinstance(e0, ast.Tuple) and not any(isinstance(x, ast.Starred) for x in e0.elts):
                parts = list(e0.elts)
            elif isinstance(e0, ast.Call) and call_tail(e0) == 'SubApplication' and len(e0.args) == 2 and not e0.keywords:
                parts = list(e0.args)
            elif isinstance(e0, ast.Call) and call_tail(e0) in ('Route',) + _METHOD_ROUTES and not any(k.arg is None for k in e0.keywords):
                parts = [argn(e0, 'pattern', 0), argn(e0, 'endpoint', 1), argn(e0, 'render', 2)]
                if call_tail(e0) in _METHOD_ROUTES:
                    methods = call_tail(e0)
                mk = argn(e0, 'methods', None)
                if mk is not None and not (isinstance(mk, ast.Constant) and mk.value is None):
                    methods = norm(mk)
                extra = [k.arg for k in e0.keywords if k.arg not in ('pattern', 'endpoint', 'render', 'methods')]
                if None in parts or extra or len(e0.args) > 3:
                    raise AnalysisError('create_app: route %s cannot be read' % short(e0))
            else:
                raise AnalysisError('create_app: route entry %s is not a (pattern, endpoint, render) tuple' % short(e))
            pattern = _fold(self.repo, ca, parts[0]) if parts else _UNFOLDED
            if not isinstance(pattern, str):
                raise AnalysisError('create_app: route pattern %s is not a constant' % short(parts[0] if parts else e))
            if len(parts) == 3:
                ep = _deref(ca, parts[1])
                epf = None
                if isinstance(ep, ast.Name):
                    try:
                        kind, m, obj = self.repo.resolve(self.flaw, ep.id)
                    except Exception:
                        kind, obj = 'unknown', None
                    if kind == 'func':
                        epf = obj
                render = _fold(self.repo, ca, parts[2])
                if render is _UNFOLDED:
                    rc = _deref(ca, parts[2])
                    # render = factory('name'): the render function the factory would have been asked for anyway
                    if isinstance(rc, ast.Call) and len(rc.args) == 1 and not rc.keywords and isinstance(rc.func, ast.Name) and \
                            isinstance(_deref(ca, rc.func), ast.Call) and isinstance(_fold(self.repo, ca, rc.args[0]), str):
                        render = _fold(self.repo, ca, rc.args[0])
                        self._explicit_renders = getattr(self, '_explicit_renders', []) + [rc.func]
                    else:
                        render = norm(rc)
                out.append(_Route('page', e, pattern, epf, epf.qualname if epf is not None else norm(ep), render, methods=methods))
            elif len(parts) == 2:
                out.append(_Route('mount', e, pattern, app=_deref(ca, parts[1])))
            else:
                raise AnalysisError('create_app: route entry %s has %d elements' % (short(e0), len(parts)))
        if not out:
            raise AnalysisError('create_app: no routes found')
        return out

    @property
    def page_routes(self):
        return [r for r in self.routes if r.kind == 'page']

    @property
    def endpoint(self):
        def find():
            eps = [r.endpoint for r in self.page_routes]
            if not eps or any(e is None for e in eps):
                raise AnalysisError('failsafe endpoint %r is not a module-level function'
                                    % sorted(set(r.endpoint_text for r in self.page_routes)))
            if len(set(e.key for e in eps)) != 1:
                raise AnalysisError('page routes name several endpoints: %r' % sorted(set(e.qualname for e in eps)))
            self.repo.functions_touched.add(eps[0].key)
            return eps[0]
        return self._memo('endpoint', find)

    # -- resources ---------------------------------------------------------------------------------------------
    @property
    def resources_node(self):
        return self._app_arg('resources', 1)

    @property
    def resources(self):
        return self._memo('resources', lambda: _dict_items(self.ca, self.resources_node, 'create_app resources'))

    def resource_use_stmt(self, key):
        """The statement in which the value of resource ``key`` is read."""
        v = self.resources.get(key)
        return stmt_of(self.flaw, v) if v is not None else None

    # -- template ----------------------------------------------------------------------------------------------
    @property
    def registrations(self):
        """[(function, register_source call)]: in create_app, else in the functions of the module it calls."""
        ca = self.ca
        regs = [(ca, c) for c in walk_body(ca.node) if isinstance(c, ast.Call) and call_tail(c) == 'register_source']
        if not regs:
            for c in walk_body(ca.node):
                g = _module_callee(self.repo, ca, c)
                if g is not None:
                    regs += [(g, c2) for c2 in walk_body(g.node) if isinstance(c2, ast.Call) and call_tail(c2) == 'register_source']
        return regs

    @property
    def template(self):
        """(registered name, source expression, folded text, register_source call, function holding that call)"""
        def find():
            regs = self.registrations
            if len(regs) != 1:
                raise AnalysisError('create_app: expected one register_source(...) call, found %d' % len(regs))
            fi, c = regs[0]
            name_e, src_e = argn(c, 'name', 0), argn(c, 'source', 1)
            if name_e is None or src_e is None:
                raise AnalysisError('create_app: cannot read %s' % short(c))
            name = _fold(self.repo, fi, name_e)
            text = _fold(self.repo, fi, src_e)
            if not isinstance(text, str):
                raise AnalysisError('cannot fold the registered template source %s' % short(src_e))
            return (name if name is not _UNFOLDED else norm(name_e)), _deref(fi, src_e), text, c, fi
        return self._memo('template', find)

    def factory_is_registered_one(self):
        """The render factory handed to Application is the object register_source was called on."""
        ca = self.ca
        _, _, _, reg, rfi = self.template
        rf = argn(self.app_call, 'render_factory', 3)
        if rf is None or not isinstance(reg.func, ast.Attribute):
            return False
        holder = _canon_name(rfi, reg.func.value)
        if holder is None:
            return False
        if rfi is ca:
            if any(_canon_name(ca, f) != holder for f in getattr(self, '_explicit_renders', [])):
                return False
            return _canon_name(ca, rf) == holder
        made = _deref(ca, rf)
        g = _module_callee(self.repo, ca, made) if isinstance(made, ast.Call) else None
        if g is None or g.key != rfi.key:
            return False
        rets = returns_of(rfi)
        return bool(rets) and all(r.value is not None and _canon_name(rfi, r.value) == holder for r in rets)

    # -- endpoint context --------------------------------------------------------------------------------------
    @property
    def context(self):
        """[(return stmt, {key: value expr})] of the endpoint."""
        def find():
            epf = self.endpoint
            out = []
            for r in returns_of(epf):
                if r.value is None:
                    raise AnalysisError('%s returns nothing on some path' % epf.qualname)
                out.append((r, _dict_items(epf, r.value, '%s context' % epf.qualname)))
            if not out:
                raise AnalysisError('%s has no return' % epf.qualname)
            return out
        return self._memo('context', find)


def _param_behind(fi, expr):
    """Name of the parameter of ``fi`` an expression denotes (aliases followed), else None."""
    e = _deref(fi, expr)
    if isinstance(e, ast.Name) and e.id in _all_params(fi) and not assigned_value(fi.node, e.id):
        return e.id
    return None


def _is_given_list(fi, expr, param, depth=0):
    """``expr`` denotes the object passed as ``param`` (or, when that is falsy, an empty stand-in)."""
    if depth > 4:
        return False
    if isinstance(expr, ast.Constant):
        return expr.value is None
    if isinstance(expr, (ast.List, ast.Tuple)):
        return not expr.elts
    if isinstance(expr, ast.BoolOp) and isinstance(expr.op, ast.Or):
        return all(_is_given_list(fi, v, param, depth + 1) for v in expr.values) and \
            any(isinstance(v, ast.Name) for v in expr.values)
    if isinstance(expr, ast.Name):
        if expr.id == param:
            return not assigned_value(fi.node, param) or \
                all(idx is None and not isinstance(st, ast.AugAssign) and _is_given_list(fi, v, param, depth + 1)
                    for st, v, idx in assigned_value(fi.node, param))
        binds = assigned_value(fi.node, expr.id)
        if not binds or expr.id in _all_params(fi):
            return False
        return all(idx is None and isinstance(st, (ast.Assign, ast.AnnAssign)) and _is_given_list(fi, v, param, depth + 1)
                   for st, v, idx in binds)
    return False


# ------------------------------------------------------------------------------------------------ rule groups
def _group(rep, fn, *args):
    """Run one group of rules: an AnalysisError (or an internal error) in it is a gap, the other groups still run."""
    def wrapped():
        try:
            return fn(*args)
        except AnalysisError:
            raise
        except RecursionError:
            raise AnalysisError('%s: recursion limit' % fn.__name__)
        except Exception as e:   # a rule must never crash the checker
            raise AnalysisError('%s: internal error %s: %s' % (fn.__name__, type(e).__name__, e))
    wrapped.__name__ = fn.__name__.lstrip('_')
    return rep.guard(wrapped)


def _names_resolve(rep, fs):
    flaw, server = fs.flaw_src, rep.repo.mod('clastic.server')
    rep.rule('R20.a', 'every global Name load in flaw.py (all scopes) and in the failsafe launcher functions of server.py resolves')
    check_unbound(rep, 'R20.a', [flaw])
    launcher = {'run_simple', 'run_simple.serve_error_app', 'restart_with_reloader', 'restart_with_reloader.consume_lines',
                'run_with_reloader'}
    check_unbound(rep, 'R20.a', [server], scope_filter=lambda m, sc: sc in launcher, exempt=windows_only)
    rep.floor('R20.a', 8)


def _parser_contained(rep, fs):
    """R20.b (1): no exception of the traceback parser, and none of the endpoint's own text handling, gets out."""
    repo, flaw, ca = fs.repo, fs.flaw, fs.ca
    leaky, calls_parser = _leaky_parser_functions(repo, flaw)
    sites = []
    for c in walk_body(ca.node):
        if not isinstance(c, ast.Call):
            continue
        g = _module_callee(repo, ca, c)
        if _is_parser_call(ca, c) or (g is not None and g.qualname in leaky):
            sites.append(c)
    harmless = [c for c in sites if _harmless_parser_method(repo, ca, c) and (_catch_all(ca, c)[1] is None or _catch_all(ca, c)[2])]
    for c in harmless:
        sites.remove(c)
        rep.ok('R20.b', fkey(ca, c), 'this parser method cannot raise (no call, subscript or raise in its body)', flaw, c)
    contained_elsewhere = [c for c in walk_body(ca.node) if isinstance(c, ast.Call) and _module_callee(repo, ca, c) is not None
                           and _module_callee(repo, ca, c).qualname in calls_parser]
    deferred = []
    for fn in _deferred_functions(ca):
        inner = [c for c in ast.walk(fn) if isinstance(c, ast.Call) and
                 (_is_parser_call(ca, c) or (_module_callee(repo, ca, c) is not None and _module_callee(repo, ca, c).qualname in leaky))
                 and not _harmless_parser_method(repo, ca, c)]
        if inner:
            deferred.append((fn, inner))
    # references handed on: _attempt(_parse, text, default={}) / _attempt(_ParsedTB.from_string, text)
    for n in walk_body(ca.node):
        par = flaw.parents.get(n)
        if isinstance(par, ast.Call) and par.func is n:
            continue
        ref = None
        if isinstance(n, ast.Name) and isinstance(n.ctx, ast.Load) and n.id not in _all_params(ca) and not assigned_value(ca.node, n.id):
            try:
                kind, m, obj = repo.resolve(flaw, n.id)
            except Exception:
                kind, m, obj = 'unknown', None, None
            if kind == 'func' and m is flaw and obj.qualname in leaky:
                ref = n
        elif isinstance(n, ast.Attribute) and isinstance(n.ctx, ast.Load) and n.attr == 'from_string' and norm(n.value) == PARSER_CLASS:
            ref = n
        if ref is not None:
            deferred.append((ref, [ref]))
    if not sites and not contained_elsewhere and not harmless and not deferred:
        raise AnalysisError('create_app no longer calls the traceback parser')
    for fn, inner in deferred:
        verdict, detail = _runner_verdict(repo, ca, fn)
        if verdict is None:
            raise AnalysisError('create_app: the parser is called from %s, and where that runs cannot be told (%s)' % (short(fn, 50), detail))
        for c in inner:
            rep.check('R20.b', fkey(ca, c), verdict,
                      'parser call runs under the catch-all of %s' % detail if verdict else
                      'parser call %s can raise out of create_app: %s' % (short(c), detail), flaw, c)
    for c in sites:
        tr, h, problem = _catch_all(ca, c)
        ok = h is not None and not problem
        rep.check('R20.b', fkey(ca, c), ok,
                  'parser call is under a catch-all handler that completes with a harmless value' if ok else
                  'parser call %s can raise out of create_app (%s)'
                  % (short(c), problem or 'no catch-all handler with a constant fallback'), flaw, c)
    for c in contained_elsewhere:
        if c not in sites:
            rep.ok('R20.b', fkey(ca, c), 'the called function contains every parser exception itself', flaw, c)
    # whatever create_app hands on as the parsed error is bound on every path, the handler's included
    try:
        res = fs.resources
    except AnalysisError:
        res = None
    if res is not None:
        for k, v in sorted(res.items(), key=lambda kv: str(kv[0])):
            if not isinstance(v, ast.Name) or v.id in _all_params(ca) or not assigned_value(ca.node, v.id):
                continue
            binds = assigned_value(ca.node, v.id)
            guarded = [st for st, val, idx in binds if isinstance(st, ast.stmt) and
                       any(part in ('body', 'handler', 'orelse') for _, part in enclosing_tries(flaw, st, ca.node))]
            if not guarded:
                continue
            use = stmt_of(flaw, v)
            unb = _maybe_unbound_at(ca, v.id, use)
            rep.check('R20.b', fkey(ca, 'resource %s bound' % k), not unb,
                      'local %s is assigned on every path to the resources (normal and handler)' % v.id if not unb else
                      'resource %r reads local %s, which is unassigned when the parser raised (the handler substitutes nothing): '
                      'UnboundLocalError out of create_app' % (k, v.id), flaw, use)
    # create_app only passes its inputs along: anything it does *with* them happens where it cannot stop the construction
    from .common import implies_present
    cps = ca.params()
    if len(cps) >= 2:
        text_alias, files_alias = _aliases_of(ca, {cps[0]}), _aliases_of(ca, {cps[1]})
        for n in walk_body(ca.node):
            if not (isinstance(n, (ast.Attribute, ast.Subscript)) and isinstance(n.ctx, ast.Load) and isinstance(n.value, ast.Name)):
                continue
            if n.value.id in text_alias:
                tr, h, problem = _catch_all(ca, n)
                ok = h is not None and not problem
                rep.check('R20.b', fkey(ca, n), ok, 'use of the error text is under a catch-all handler' if ok else
                          '%s on the error text can raise (None / bytes / odd text) %s: create_app does not construct'
                          % (short(n, 50), 'outside any catch-all handler' if h is None else '-- ' + problem), flaw, n)
            elif n.value.id in files_alias:
                tr, h, problem = _catch_all(ca, n)
                cs = conds(ca, n)
                ok = (h is not None and not problem) or any(implies_present(cs, a) for a in files_alias)
                rep.check('R20.b', fkey(ca, n), ok, 'the file list is only touched when it was given' if ok else
                          '%s runs also when no file list was given (monitored_files=None): create_app does not construct'
                          % short(n, 50), flaw, n)
    # the endpoint runs per request: its own text handling is contained the same way
    epf = fs.endpoint
    risky, n_risky = _risky_nodes(repo, epf)
    for n, why in risky:
        n_risky += 1
        tr, h, problem = _catch_all(epf, n)
        ok = h is not None and not problem
        rep.check('R20.b', fkey(epf, n), ok,
                  '%s is under a catch-all handler that completes with a harmless value' % why if ok else
                  '%s can raise (empty / non-text input) %s' % (short(n), 'outside any catch-all handler' if h is None else '-- ' + problem),
                  flaw, n)
    for fn in _deferred_functions(epf):
        inner = [n for n in ast.walk(fn) if (isinstance(n, ast.Subscript) and isinstance(n.ctx, ast.Load)) or
                 (isinstance(n, ast.Call) and not _safe_builtin_call(n, epf))]
        if not inner:
            continue
        verdict, detail = _runner_verdict(repo, epf, fn)
        if verdict is None:
            raise AnalysisError('%s: where %s runs cannot be told (%s)' % (epf.qualname, short(fn, 50), detail))
        n_risky += 1
        rep.check('R20.b', fkey(epf, fn), verdict,
                  '%s runs under the catch-all of %s' % (short(fn, 50), detail) if verdict else
                  '%s can raise (empty / non-text input): %s' % (short(fn, 50), detail), flaw, fn)
    ctx_last = [v for _, items in fs.context for k, v in items.items() if k == 'last_line']
    if not n_risky and ctx_last and not all(_param_behind(epf, v) for v in ctx_last):
        raise AnalysisError('%s: the computation of last_line was not found' % epf.qualname)


_SAFE_CONSTRUCTORS = ('dict', 'list', 'tuple', 'set', 'frozenset')
_SAFE_PREDICATES = ('isinstance', 'bool', 'id', 'type', 'callable')


_CONTAINER_METHODS = ('update', 'setdefault', 'append', 'extend', 'insert', 'add', 'copy', 'items', 'keys', 'values', 'get')


def _fresh_is_container(fi, name):
    """Every binding of the local is a dict / list / set display or constructor call (so the container methods are the builtin ones)."""
    if fi.node.args.kwarg is not None and fi.node.args.kwarg.arg == name and not assigned_value(fi.node, name):
        return True       # **kwargs: a dict made for this call
    binds = assigned_value(fi.node, name)
    return bool(binds) and all(
        idx is None and (isinstance(v, (ast.Dict, ast.List, ast.Set, ast.DictComp, ast.ListComp, ast.SetComp)) or
                         (isinstance(v, ast.Call) and isinstance(v.func, ast.Name) and v.func.id in ('dict', 'list', 'set')))
        for st, v, idx in binds)


def _safe_builtin_call(n, fi=None):
    """A call that cannot raise whatever the request data are: container constructors over displays / constant
    sequences (``dict(a=x)``, ``dict(zip(NAMES, (a, b)))``, ``list()``), type predicates."""
    if not (isinstance(n.func, ast.Name) and not any(k.arg is None for k in n.keywords)):
        return False

    def inert(a, depth=0):
        if isinstance(a, (ast.Dict, ast.List, ast.Tuple, ast.Set, ast.Constant)):
            return True        # a display of names / constants is just built
        if fi is not None and isinstance(a, ast.Name) and a.id not in _all_params(fi) and not assigned_value(fi.node, a.id):
            v = fi.mod.repo.try_fold(a, fi.mod, None)
            return isinstance(v, (tuple, list, str, frozenset))     # module-level constant sequence
        if isinstance(a, ast.Call) and isinstance(a.func, ast.Name) and a.func.id in ('zip', 'enumerate') and not a.keywords and depth < 3:
            return all(inert(x, depth + 1) for x in a.args)
        return False
    if n.func.id in _SAFE_CONSTRUCTORS + ('zip', 'enumerate'):
        # dict(a=x) / list() / tuple([..]) cannot raise; list(x) can (x not iterable)
        return all(inert(a) for a in n.args)
    if n.func.id in _SAFE_PREDICATES:
        return not any(isinstance(a, ast.Starred) for a in n.args)
    return False


def _risky_nodes(repo, fi, depth=0, seen=None):
    """([(node, description)], number of self-contained module calls): expressions of ``fi`` that can raise for an
    odd input -- subscript loads and calls (other than container constructors and calls of module functions that
    contain their own exceptions)."""
    out, contained = [], 0
    seen = set() if seen is None else seen
    seen.add(fi.key)
    in_handlers = set()
    for n in walk_body(fi.node):
        if isinstance(n, ast.ExceptHandler):
            for s in ast.walk(n):
                in_handlers.add(id(s))
    from .. import effects
    fresh = effects.fresh_locals(repo, fi)
    for n in walk_body(fi.node):
        if id(n) in in_handlers:
            continue      # handler bodies are judged by _handler_completes
        if isinstance(n, ast.Call) and isinstance(n.func, ast.Attribute) and isinstance(n.func.value, ast.Name) and \
                n.func.value.id in fresh and _fresh_is_container(fi, n.func.value.id) and \
                (n.func.attr in _CONTAINER_METHODS or (n.func.attr == 'pop' and len(n.args) == 2)):
            continue      # info.update(k=v) / lines.append(x) / kwargs.pop('k', default) on a container built right here
        if isinstance(n, ast.Subscript) and isinstance(n.ctx, ast.Load):
            out.append((n, 'subscript %s' % short(n, 50)))
        elif isinstance(n, ast.Call):
            if _safe_builtin_call(n, fi):
                continue
            if call_tail(n) == 'suppress' and isinstance(fi.mod.parents.get(n), ast.withitem):
                continue      # with suppress(Exception): -- the guard itself
            g = _module_callee(repo, fi, n)
            if g is not None and depth < 4 and g.key not in seen:
                inner, _ = _risky_nodes(repo, g, depth + 1, seen)
                inner = [m for m, w in inner if _catch_all(g, m)[1] is None or _catch_all(g, m)[2]]
                loose_raise = [s for s in stmts_of(g.node) if isinstance(s, ast.Raise) and _catch_all(g, s)[1] is None]
                if not inner and not loose_raise:
                    contained += 1
                    continue
            par = fi.mod.parents.get(n)
            if isinstance(par, ast.Subscript) and par.value is n:
                continue  # reported with the subscript around it
            out.append((n, 'call %s' % short(n, 50)))
    return out, contained


def _routes_agree(rep, fs):
    """R20.b (2): route / template / resource agreement."""
    repo, flaw, ca = fs.repo, fs.flaw, fs.ca
    routes = fs.routes
    rnode = fs.routes_node
    pages = fs.page_routes
    pats = [r.pattern for r in pages]
    ok = '/' in pats and any('*>' in p for p in pats)
    rep.check('R20.b', fkey(ca, 'routes'), ok, 'root and catch-all routes present: %r' % pats if ok else
              'failsafe lacks the root or the catch-all route: %r' % pats, flaw, rnode)
    limited = [(r.pattern, r.methods) for r in pages if r.methods]
    rep.check('R20.b', fkey(ca, 'routes any method'), not limited, 'the page routes answer every method' if not limited else
              'page routes are restricted to some methods (%r): other methods get 405 instead of the page' % limited, flaw, rnode)
    eps = set(r.endpoint_text for r in pages)
    tmpls = set(r.render if isinstance(r.render, str) else repr(r.render) for r in pages)
    same = len(eps) == 1 and len(tmpls) == 1
    rep.check('R20.b', fkey(ca, 'routes same endpoint/template'), same,
              'all page routes use endpoint %s and template %s' % (sorted(eps), sorted(tmpls)) if same else
              'page routes disagree on endpoint/template: %r' % [(r.pattern, r.endpoint_text, r.render) for r in pages], flaw, rnode)
    # registered template name == rendered name
    tmpl_name, src_e, text, reg, _rfi = fs.template
    reg_ok = tmpl_name in tmpls
    rep.check('R20.b', fkey(ca, 'register_source'), reg_ok,
              'template %r is registered from %s and is the one the routes render' % (tmpl_name, short(src_e, 40)) if reg_ok else
              'registered template (%r) and rendered template (%r) differ' % (tmpl_name, sorted(tmpls)), flaw, reg)
    # the render factory given to Application is the one the template was registered with
    ok = fs.factory_is_registered_one()
    rep.check('R20.b', fkey(ca, 'render_factory'), ok, 'Application gets the render factory holding the template' if ok else
              'Application is not given the render factory the template was registered with', flaw, fs.app_call)
    # resources keys == endpoint parameters
    res = fs.resources
    keys = set(res)
    epf = fs.endpoint
    a = epf.node.args
    pos = a.posonlyargs + a.args
    required = [x.arg for x in pos[:len(pos) - len(a.defaults)]] + \
        [x.arg for x, d in zip(a.kwonlyargs, a.kw_defaults) if d is None]
    builtins_ = set(repo.mod('clastic.route').const('RESERVED_ARGS'))
    path_vars = set()
    missing = [p for p in required if p not in keys and p not in builtins_ and p not in path_vars]
    rep.check('R20.b', fkey(ca, 'resources vs endpoint params'), not missing,
              'every required endpoint parameter %r is a resource or built-in' % required if not missing else
              'endpoint parameters %r are not provided by create_app resources %r' % (missing, sorted(map(str, keys))), flaw,
              fs.resources_node)
    # nothing else is configured that changes which requests reach the page (slash handling, middlewares, error handler)
    app = fs.app_call
    extras = []
    for name_, pos_ in (('middlewares', 2), ('error_handler', 4)):
        v = argn(app, name_, pos_)
        if v is not None and not (isinstance(v, ast.Constant) and v.value is None) and \
                not (isinstance(v, (ast.List, ast.Tuple)) and not v.elts):
            extras.append('%s=%s' % (name_, short(v, 30)))
    for k in app.keywords:
        if k.arg == 'slash_mode':
            val = k.value
            dflt = None
            try:
                ai = repo.mod('clastic.application').functions.get('Application.__init__')
                for n_ in ast.walk(ai.node):
                    if isinstance(n_, ast.Call) and call_tail(n_) == 'pop' and n_.args and isinstance(n_.args[0], ast.Constant) \
                            and n_.args[0].value == 'slash_mode' and len(n_.args) == 2:
                        dflt = norm(n_.args[1])
            except Exception:
                dflt = None
            if dflt is None or norm(val).rpartition('.')[2] != dflt.rpartition('.')[2]:
                extras.append('slash_mode=%s' % short(val, 30))
        elif k.arg is None or k.arg not in ('routes', 'resources', 'middlewares', 'render_factory', 'error_handler', 'debug'):
            extras.append('%s=%s' % (k.arg or '**', short(k.value, 30)))
    if len(app.args) > 5 or any(isinstance(a, ast.Starred) for a in app.args):
        extras.append('extra positional arguments')
    rep.check('R20.b', fkey(ca, 'Application configuration'), not extras,
              'the failsafe Application is configured with routes, resources and render factory only' if not extras else
              'the failsafe Application is also given %s: requests may be answered by something other than the page' % ', '.join(extras),
              flaw, app)
    rep.floor('R20.b', 7)
    last = routes[-1]
    ok = last.kind == 'page' and '*>' in last.pattern
    rep.check('R20.b', fkey(ca, 'catch-all last'), ok,
              'the catch-all page route is the last route (everything not served before it gets the page)' if ok else
              'the catch-all route is not the last route', flaw, rnode)


def _static_nonbreaking(rep, fs):
    # the embedded asset application must not pre-empt the catch-all page: every error it raises is non-breaking
    from .c14 import check_nonbreaking, HTTP_ERRS, STATIC
    from .common import raises_of, raise_type
    from ..astutil import kwarg
    repo = rep.repo
    n = check_nonbreaking(rep, 'R20.b')
    # the same judgement for HTTP errors raised one step away from the serving functions: in closures nested in
    # them and in functions of the module they call (a refactoring may move a raise there)
    st = repo.mod(STATIC)
    serving = [st.functions.get(q) for q in ('build_file_response', 'StaticApplication.get_file_response', 'StaticFileRoute.get_file_response')]
    serving = [f for f in serving if f is not None]
    near, todo = {}, list(serving)
    while todo:
        fi = todo.pop()
        for q, g in st.functions.items():
            if q.startswith(fi.qualname + '.') and g.key not in near and g not in serving:
                near[g.key] = g
                todo.append(g)
        for c in walk_body(fi.node):
            g = _module_callee(repo, fi, c)
            if g is not None and g.key not in near and g not in serving:
                near[g.key] = g
                todo.append(g)
    for key in sorted(near):
        g = near[key]
        for r in raises_of(g):
            if isinstance(r.exc, ast.Call) and raise_type(r) in HTTP_ERRS:
                n += 1
                v = kwarg(r.exc, 'is_breaking')
                ok = isinstance(v, ast.Constant) and v.value is False
                rep.check('R20.b', fkey(g, r), ok, '%s is raised non-breaking' % raise_type(r) if ok else
                          '%s raised without is_breaking=False: routes after this static application are never tried' % raise_type(r), st, r)
    if n < 4:
        raise AnalysisError('static serving: only %d raises of HTTP errors found' % n)


def _aliases_of(fi, roots):
    alias = set(roots)
    changed = True
    while changed:
        changed = False
        for s in stmts_of(fi.node):
            if isinstance(s, ast.Assign) and len(s.targets) == 1 and isinstance(s.targets[0], ast.Name) and s.targets[0].id not in alias:
                v = s.value
                cands = [v] + (list(v.values) if isinstance(v, ast.BoolOp) else []) + ([v.body, v.orelse] if isinstance(v, ast.IfExp) else [])
                if any(isinstance(x, ast.Name) and x.id in alias for x in cands):
                    alias.add(s.targets[0].id)
                    changed = True
    return alias


def _permutes_in_place(e):
    """``xs[:] = sorted(xs, ...)`` / ``xs[:] = reversed(xs)``: the list keeps exactly its entries."""
    t, st = e.target, e.node
    if not (isinstance(st, ast.Assign) and len(st.targets) == 1 and isinstance(t.slice, ast.Slice) and
            t.slice.lower is None and t.slice.upper is None and t.slice.step is None and isinstance(t.value, ast.Name)):
        return False
    v = st.value
    if isinstance(v, ast.Call) and call_name(v) == 'list' and len(v.args) == 1:
        v = v.args[0]
    return isinstance(v, ast.Call) and call_name(v) in ('sorted', 'reversed') and v.args and \
        isinstance(v.args[0], ast.Name) and v.args[0].id == t.value.id


def _file_lists_kept(rep, fs):
    """R20.b (3): the monitored-file list that is shown is the list that was given: filtering builds new lists, nothing
    removes entries from the caller's list (sorting it in place keeps its content)."""
    from .. import effects
    repo, flaw, ca = fs.repo, fs.flaw, fs.ca
    todo = [(ca, set(ca.params()))]
    anchor = flaw.functions.get('_filter_site_files')
    if anchor is not None:
        repo.functions_touched.add(anchor.key)
        todo.append((anchor, set(anchor.params())))
    done = {}
    while todo:
        fi, roots = todo.pop(0)
        if fi.key in done:
            continue
        alias = _aliases_of(fi, roots)
        done[fi.key] = (fi, alias)
        for c in walk_body(fi.node):
            g = _module_callee(repo, fi, c)
            if g is None or g.key in done:
                continue
            ps = g.params()
            roots2 = set(ps[i] for i, x in enumerate(c.args) if isinstance(x, ast.Name) and x.id in alias and i < len(ps))
            roots2 |= set(k.arg for k in c.keywords if k.arg in ps and isinstance(k.value, ast.Name) and k.value.id in alias)
            if roots2:
                todo.append((g, roots2))
    for key in sorted(done):
        ffi, alias = done[key]
        shrink = [e for e in effects.effects_in(ffi.node) if e.root in alias and
                  ((e.kind == 'mutcall' and e.method in ('remove', 'pop', 'clear', 'popitem', 'discard')) or e.kind == 'delete' or
                   (e.kind == 'store' and isinstance(e.target, ast.Subscript) and not _permutes_in_place(e)))]
        rep.check('R20.b', fkey(ffi, 'input lists keep their entries'), not shrink,
                  'no entry is removed from the given file list (filters build new lists)' if not shrink else
                  '%s removes entries from the caller\'s monitored-file list in place (%s): the page (and the reloader that owns the list) '
                  'loses files' % (ffi.qualname, [short(e.node) for e in shrink]), flaw, shrink[0].node if shrink else ffi.node)


def _shown_is_given(rep, fs):
    """The error text and the full file list on the page are the objects create_app was given: template key ->
    endpoint context value -> endpoint parameter -> resource of that name -> create_app parameter."""
    flaw, ca, epf = fs.flaw, fs.ca, fs.endpoint
    res = fs.resources
    cparams = ca.params()
    for tkey, pidx, label in (('tb_str', 0, 'the error text itself is the %s resource'),
                              ('all_mon_files', 1, 'the full file list shown is the list that was given (%s)')):
        rkeys = set()
        bad = None
        for r, items in fs.context:
            if tkey not in items:
                bad = 'the endpoint context has no %r' % tkey
                break
            p = _param_behind(epf, items[tkey])
            if p is None:
                bad = 'context value %s of %r is not the injected resource' % (short(items[tkey], 40), tkey)
                break
            rkeys.add(p)
        if bad is None and len(rkeys) != 1:
            bad = 'returns disagree on %r' % tkey
        rkey = sorted(rkeys)[0] if rkeys else tkey
        if bad is None and rkey not in res:
            bad = '%s resource is missing' % rkey
        if bad is None:
            v = res[rkey]
            if pidx >= len(cparams):
                raise AnalysisError('create_app has no parameter %d' % pidx)
            good = _is_given_list(ca, v, cparams[pidx]) and not (isinstance(v, ast.Constant))
            if not good:
                bad = '%s resource is not the given %s: %s' % (rkey, cparams[pidx], short(v, 50))
        rep.check('R20.b', fkey(ca, '%s resource' % tkey), bad is None, (label % rkey) if bad is None else bad, flaw,
                  fs.resources_node)


def _template_escapes(rep, fs):
    repo, flaw = fs.repo, fs.flaw
    rep.rule('R20.c', 'every reference in the failsafe template is HTML-escaped; autoescaping is never switched off')
    tmpl_name, src_e, text, reg, _rfi = fs.template
    cname = norm(src_e) if isinstance(src_e, ast.Name) else '_FLAW_TEMPLATE'
    tags = check_template_escaping(rep, 'R20.c', repo, flaw, cname, text)
    refs = set(t.refpath for t in tags if t.kind == 'ref')
    need = {'tb_str', 'last_line', 'exc_type', 'exc_msg'}
    rep.check('R20.c', '%s::%s::fields' % (FLAW, cname), need <= refs,
              'page shows %s' % sorted(need) if need <= refs else 'page template no longer shows %s' % sorted(need - refs), flaw)
    # the factory holding the template is built without its own escaping filters
    reg_fi = _rfi
    holder = _canon_name(reg_fi, reg.func.value) if isinstance(reg.func, ast.Attribute) else None
    made = _single_value(reg_fi, holder) if holder else None
    if isinstance(made, ast.Call):
        over = [k.arg for k in made.keywords if k.arg in ('filters', 'env', 'optimizers') or k.arg is None]
        rep.check('R20.c', fkey(reg_fi, 'render factory filters'), not over,
                  'the render factory uses the stock ashes filters' if not over else
                  'the render factory is built with its own %s: {x} is no longer known to be HTML-escaped by ashes\' h filter'
                  % ', '.join(str(x) for x in over), flaw, made)
    # the error text and the full file list are shown unconditionally (not inside another section / conditional)
    stack, nested = [], {}
    for t in tags:
        if t.kind == 'close':
            if stack:
                stack.pop()
            continue
        if (t.kind == 'ref' and t.refpath == 'tb_str') or (t.kind == 'section' and t.refpath == 'all_mon_files'):
            nested.setdefault(t.refpath, []).append([x.text for x in stack])
        if t.kind == 'section' and not t.selfclosing:
            stack.append(t)
    cond = dict((k, v) for k, v in nested.items() if v and all(v_ for v_ in v))
    rep.check('R20.c', '%s::%s::shown unconditionally' % (FLAW, cname), not cond,
              'the error text and the full file list are rendered outside any other section' if not cond else
              'the page shows %s only inside %s' % (sorted(cond), sorted(set(x for v in cond.values() for st_ in v for x in st_))), flaw)
    aw = autoescape_writes(repo)
    rep.check('R20.c', 'clastic::autoescape_filter', not aw, 'no code in clastic assigns autoescape_filter' if not aw else
              'autoescape_filter is assigned at %s' % ', '.join('%s:%s' % (m.relpath, getattr(n, 'lineno', '?')) for m, n in aw))
    rep.floor('R20.c', 8)
    # the endpoint passes the fields the template reads
    epf = fs.endpoint
    top_refs = set(t.refpath.split('.')[0] for t in tags if t.kind in ('ref', 'section') and not t.closing) - {''}
    sect_inner = {'exc_type', 'exc_msg', 'source_file'}
    missing = set()
    for r, items in fs.context:
        missing |= set(x for x in top_refs - sect_inner if x not in items)
    missing = sorted(missing)
    rep.check('R20.c', fkey(epf, 'context keys'), not missing,
              'endpoint supplies every top-level template key' if not missing else
              'template reads %r which %s does not supply' % (missing, epf.qualname), flaw, epf.node)


def _made_from(fi, roots):
    """Locals of ``fi`` that (may) hold something made from the names in ``roots``: the closure of ``roots`` under
    assignment, loop and with targets."""
    t = set(roots)
    changed = True

    def stores(target):
        return set(n.id for n in ast.walk(target) if isinstance(n, ast.Name) and isinstance(n.ctx, ast.Store))

    def loads(e):
        return set(n.id for n in ast.walk(e) if isinstance(n, ast.Name) and isinstance(n.ctx, ast.Load)) if e is not None else set()
    while changed:
        changed = False
        for st in stmts_of(fi.node):
            new = set()
            if isinstance(st, ast.Assign) and loads(st.value) & t:
                for tg in st.targets:
                    new |= stores(tg) or ({root_name(tg)} if root_name(tg) else set())
            elif isinstance(st, (ast.AugAssign, ast.AnnAssign)) and loads(st.value) & t:
                new |= stores(st.target) or ({root_name(st.target)} if root_name(st.target) else set())
            elif isinstance(st, (ast.For, ast.AsyncFor)) and loads(st.iter) & t:
                new |= stores(st.target)
            elif isinstance(st, (ast.With, ast.AsyncWith)):
                for it in st.items:
                    if it.optional_vars is not None and loads(it.context_expr) & t:
                        new |= stores(it.optional_vars)
            elif isinstance(st, ast.Expr) and isinstance(st.value, ast.Call) and isinstance(st.value.func, ast.Attribute) and \
                    isinstance(st.value.func.value, ast.Name) and any(loads(a) & t for a in st.value.args):
                new.add(st.value.func.value.id)          # parts.append(text)
            if new - t:
                t |= new
                changed = True
    return t


def _string_building(repo, fi, e):
    """The sub-expressions of ``e`` that build a string out of pieces: ``'..' % x``, ``'..' + x``, f-strings,
    ``'..'.format(x)``, ``'..'.join(xs)``, ``T.replace(a, b)`` -- the constant part may be a module-level constant."""
    def is_text(x):
        return isinstance(x, ast.JoinedStr) or isinstance(_fold(repo, fi, x), str)
    out = []
    for n in ast.walk(e):
        if isinstance(n, ast.JoinedStr) and any(isinstance(v, ast.FormattedValue) for v in n.values):
            out.append(n)
        elif isinstance(n, ast.BinOp) and isinstance(n.op, ast.Mod) and is_text(n.left):
            out.append(n)
        elif isinstance(n, ast.BinOp) and isinstance(n.op, ast.Add) and (is_text(n.left) or is_text(n.right)):
            out.append(n)
        elif isinstance(n, ast.Call) and isinstance(n.func, ast.Attribute) and n.func.attr in ('format', 'join', 'replace', 'format_map') \
                and is_text(n.func.value):
            out.append(n)
    return out


def _text_only_through_template(rep, fs):
    """R20.c (taint): what comes from the child process -- the error text, the file names, and whatever is made from
    them -- reaches HTML only as a *value* of the render context, where the template's filter escapes it: it is never
    part of the template source that is compiled, and the endpoint never writes it into a response by hand."""
    repo, flaw, ca = fs.repo, fs.flaw, fs.ca
    rep.rule('R20.c', 'every reference in the failsafe template is HTML-escaped; autoescaping is never switched off')
    for rfi, c in fs.registrations:
        src_e = argn(c, 'source', 1)
        if src_e is None:
            continue
        if rfi is ca:
            roots = set(ca.params())
        else:
            roots = set()
            made = _made_from(ca, set(ca.params()))
            for c2 in walk_body(ca.node):
                g = _module_callee(repo, ca, c2)
                if g is None or g.key != rfi.key:
                    continue
                gps = g.params()
                for i, a in enumerate(c2.args):
                    if i < len(gps) and set(n.id for n in ast.walk(a) if isinstance(n, ast.Name)) & made:
                        roots.add(gps[i])
                for k in c2.keywords:
                    if k.arg in gps and set(n.id for n in ast.walk(k.value) if isinstance(n, ast.Name)) & made:
                        roots.add(k.arg)
        made = _made_from(rfi, roots)
        names = set(n.id for e in (src_e, _closed(rfi, src_e)) for n in ast.walk(e) if isinstance(n, ast.Name))
        hit = sorted(names & made)
        rep.check('R20.c', fkey(rfi, 'template source'), not hit,
                  'the template source that is compiled does not depend on the error text or the file list' if not hit else
                  'the template source is made from %s (%s): template syntax in the error text is compiled and run, markup in it is '
                  'emitted as it is' % (', '.join(hit), short(src_e, 60)), flaw, c)
    epf = fs.endpoint
    made = _made_from(epf, set(_all_params(epf)))
    for r in returns_of(epf):
        if r.value is None:
            continue
        v = _deref(epf, r.value)
        if isinstance(v, ast.Dict) or (isinstance(v, ast.Call) and call_name(v) == 'dict') or isinstance(v, ast.Name):
            continue          # the render context (read by fs.context)
        by_hand = [n for n in _string_building(repo, epf, _closed(epf, r.value))
                   if set(x.id for x in ast.walk(n) if isinstance(x, ast.Name)) & made]
        if by_hand:
            rep.fail('R20.c', fkey(epf, r),
                     '%s returns %s, in which %s is written into the response by hand: it does not pass the template, so nothing '
                     'escapes it' % (epf.qualname, short(r.value, 50), short(by_hand[0], 50)), flaw, r)


def _is_decorated(g, what):
    return [norm(d) for d in g.node.decorator_list] == [what]


def _callee_of(repo, fi, c):
    """(FuncInfo, number of leading parameters the call does not spell) of the function of the analysed module a call
    runs: a module-level function called by plain name, or a method of a class of the module called on the
    class / instance the calling method itself received (``cls.m(..)``, ``self.m(..)``) or on the class by name
    (``Parser.m(..)``).  None when it cannot be told."""
    if not isinstance(c, ast.Call):
        return None
    f = c.func
    if isinstance(f, ast.Name):
        if f.id in _all_params(fi) or assigned_value(fi.node, f.id):
            return None
        g = _module_callee(repo, fi, c)
        if g is None or not isinstance(g.node, ast.FunctionDef) or g.node.decorator_list:
            return None
        return g, 0
    if not (isinstance(f, ast.Attribute) and isinstance(f.value, ast.Name)):
        return None
    recv = f.value.id
    if assigned_value(fi.node, recv):
        return None
    ci, via_instance = None, False
    if fi.cls is not None and fi.params() and recv == fi.params()[0] and not _is_decorated(fi, 'staticmethod'):
        ci, via_instance = fi.cls, not _is_decorated(fi, 'classmethod')
    elif recv not in _all_params(fi):
        ci = fi.mod.classes.get(recv)
    if ci is None:
        return None
    try:
        if repo.subclasses(ci):
            return None            # the method may be overridden
    except Exception:
        return None
    g = ci.methods.get(f.attr)
    if g is None or not isinstance(g.node, ast.FunctionDef):
        return None
    if _is_decorated(g, 'staticmethod'):
        return g, 0
    if _is_decorated(g, 'classmethod'):
        return g, 1
    if not g.node.decorator_list:
        return g, (1 if via_instance else 0)
    return None


def _call_site_args(repo, g, pname):
    """[(calling function, argument expression)] for parameter ``pname`` of ``g`` over every call of ``g`` in its
    module; None when the function is also used as a value, is never called, or an argument cannot be matched."""
    mod = g.mod
    for n in ast.walk(mod.tree):
        if ((isinstance(n, ast.Name) and n.id == g.name) or (isinstance(n, ast.Attribute) and n.attr == g.name)) and \
                isinstance(n.ctx, ast.Load):
            par = mod.parents.get(n)
            if not (isinstance(par, ast.Call) and par.func is n):
                return None
    ps = g.params()
    if pname not in ps:
        return None
    out = []
    for caller in list(mod.functions.values()):
        for c in walk_body(caller.node):
            if not isinstance(c, ast.Call) or call_tail(c) != g.name:
                continue
            hit = _callee_of(repo, caller, c)
            if hit is None or hit[0].node is not g.node:
                return None
            if any(isinstance(a, ast.Starred) for a in c.args) or any(k.arg is None for k in c.keywords):
                return None
            a = None
            for k in c.keywords:
                if k.arg == pname:
                    a = k.value
            i = ps.index(pname) - hit[1]
            if a is None and 0 <= i < len(c.args):
                a = c.args[i]
            if a is None:
                return None
            out.append((caller, a))
    return out or None


def _partition_sources(repo, fi, expr, depth=0):
    """[(side, function, call)]: the ``<line>.partition(<sep>)`` calls whose result (position ``side``: 0 / 1 / 2) a name
    holds, one entry per binding; an entry is None for a binding that cannot be followed.  Followed through copies,
    ``x[i]`` of a partition result, and functions / methods of the module that return (a tuple of) such names."""
    if depth > 6:
        return [None]
    if isinstance(expr, ast.Subscript) and isinstance(expr.slice, ast.Constant) and isinstance(expr.slice.value, int):
        inner = _deref(fi, expr.value)
        if isinstance(inner, ast.Call) and call_tail(inner) == 'partition' and -3 <= expr.slice.value < 3:
            return [(expr.slice.value % 3, fi, inner)]
        return [None]
    if not isinstance(expr, ast.Name):
        return [None]
    binds = assigned_value(fi.node, expr.id)
    if not binds or expr.id in _all_params(fi):
        return [None]
    out = []
    for st, v, idx in binds:
        if idx is None and isinstance(v, (ast.Name, ast.Subscript)):
            out.extend(_partition_sources(repo, fi, v, depth + 1))
        elif isinstance(idx, int) and isinstance(v, ast.Call) and call_tail(v) == 'partition':
            out.append((idx, fi, v))
        elif isinstance(idx, int) and isinstance(v, ast.Tuple) and len(v.elts) > idx and \
                not any(isinstance(x, ast.Starred) for x in v.elts) and isinstance(v.elts[idx], (ast.Name, ast.Subscript)):
            out.extend(_partition_sources(repo, fi, v.elts[idx], depth + 1))         # a, b = head, tail
        elif (idx is None or isinstance(idx, int)) and isinstance(v, ast.Call) and _callee_of(repo, fi, v) is not None:
            g = _callee_of(repo, fi, v)[0]
            rets = returns_of(g)
            if not rets:
                out.append(None)
            for r in rets:
                rv = _deref(g, r.value) if r.value is not None else None
                if idx is not None:
                    rv = rv.elts[idx] if isinstance(rv, ast.Tuple) and len(rv.elts) > idx and \
                        not any(isinstance(x, ast.Starred) for x in rv.elts) else None
                if rv is None:
                    out.append(None)
                else:
                    out.extend(_partition_sources(repo, g, rv, depth + 1))
        else:
            out.append(None)
    return out


def _partition_side(repo, fi, expr, depth=0):
    """Index (0 / 1 / 2) of the ``<line>.partition(<sep>)`` result a name holds on every binding, else None."""
    sides = set(s[0] if s is not None else None for s in _partition_sources(repo, fi, expr, depth))
    return sides.pop() if len(sides) == 1 else None


# ------------------------------------------------------------------------------------------------ R20.f which line
# Abstract domain: the order in which an iterable yields the lines of the text (top-down / bottom-up / unknown) and,
# from that, the end of the text a picked line is searched from ('end' / 'start' / unknown).  Nothing is evaluated.
_FWD, _REV = 'top-down', 'bottom-up'
_KEEPS_ORDER = ('list', 'tuple', 'iter', 'enumerate')
_KEEPS_LINE = ('strip', 'lstrip', 'rstrip', 'expandtabs', 'decode')


def _flip(o):
    return None if o is None else (_REV if o == _FWD else _FWD)


def _reordered_in_place(fi, name):
    """Some ``x.reverse()`` / ``x.sort()`` in the function is applied to the list ``name`` denotes (aliases included)."""
    me = _canon_name(fi, ast.Name(id=name, ctx=ast.Load()))
    for n in walk_body(fi.node):
        if isinstance(n, ast.Call) and isinstance(n.func, ast.Attribute) and n.func.attr in ('reverse', 'sort') and \
                isinstance(n.func.value, ast.Name) and _canon_name(fi, n.func.value) == me:
            return True
    return False


def _order(repo, fi, e, depth=0):
    """Order in which the iterable ``e`` yields the lines of the text (or, for ``range``, the indices): _FWD, _REV, or
    None when it cannot be told."""
    if depth > 10 or e is None:
        return None
    if isinstance(e, ast.Call):
        f = e.func
        if isinstance(f, ast.Name) and not (f.id in _all_params(fi) or assigned_value(fi.node, f.id)):
            if f.id == 'reversed' and len(e.args) == 1 and not e.keywords:
                return _flip(_order(repo, fi, e.args[0], depth + 1))
            if f.id in _KEEPS_ORDER and e.args and not any(isinstance(a, ast.Starred) for a in e.args):
                return _order(repo, fi, e.args[0], depth + 1)
            if f.id in ('filter', 'map') and len(e.args) == 2 and not e.keywords:
                return _order(repo, fi, e.args[1], depth + 1)
            if f.id == 'range' and not e.keywords and 1 <= len(e.args) <= 3:
                if len(e.args) < 3:
                    return _FWD
                k = _const_index(e.args[2])
                return None if not k else (_FWD if k > 0 else _REV)
            v = _inline_expression_call(fi, e)
            if v is not None:
                return _order(repo, fi, v, depth + 1)
            return None
        if isinstance(f, ast.Attribute):
            if f.attr in ('splitlines', 'split', 'rsplit'):
                return _FWD                      # the pieces of a text, in the order of the text
            if f.attr == 'copy' and not e.args and not e.keywords:
                return _order(repo, fi, f.value, depth + 1)
        return None
    if isinstance(e, ast.Subscript) and isinstance(e.slice, ast.Slice):
        step = e.slice.step
        if step is None:
            return _order(repo, fi, e.value, depth + 1)
        k = _const_index(step)
        if not k:
            return None
        o = _order(repo, fi, e.value, depth + 1)
        return o if k > 0 else _flip(o)
    if isinstance(e, (ast.GeneratorExp, ast.ListComp)) and len(e.generators) == 1 and not e.generators[0].is_async:
        return _order(repo, fi, e.generators[0].iter, depth + 1)
    if isinstance(e, ast.Name):
        name = e.id
        if _reordered_in_place(fi, name):
            return None
        binds = assigned_value(fi.node, name)
        if name in _all_params(fi):
            if binds:
                return None
            sites = _call_site_args(repo, fi, name)
            if not sites:
                return None
            orders = set(_order(repo, caller, a, depth + 1) for caller, a in sites)
            return orders.pop() if len(orders) == 1 else None
        if not binds:
            return None
        orders = set()
        for st, v, idx in binds:
            if isinstance(st, (ast.Assign, ast.AnnAssign)) and idx is None:
                orders.add(_order(repo, fi, v, depth + 1))
            elif isinstance(st, ast.Assign) and isinstance(idx, int) and isinstance(v, ast.Tuple) and len(v.elts) > idx and \
                    not any(isinstance(x, ast.Starred) for x in v.elts):
                orders.add(_order(repo, fi, v.elts[idx], depth + 1))
            else:
                orders.add(None)
        return orders.pop() if len(orders) == 1 else None
    return None


def _covers_end(repo, fi, e, depth=0):
    """Does the sequence / iterable ``e`` of lines still hold the *last* line of the text?  True / False / None (cannot be
    told).  A slice with an upper bound (``lines[:-1]``, ``lines[1:-1]``), or a reversed slice that starts below the end
    (``lines[-2::-1]``), leaves it out."""
    if depth > 10 or e is None:
        return None
    if isinstance(e, ast.Call):
        f = e.func
        if isinstance(f, ast.Name) and not (f.id in _all_params(fi) or assigned_value(fi.node, f.id)):
            if f.id in _KEEPS_ORDER + ('reversed', 'sorted') and e.args and not any(isinstance(a, ast.Starred) for a in e.args):
                return _covers_end(repo, fi, e.args[0], depth + 1)
            if f.id in ('filter', 'map') and len(e.args) == 2 and not e.keywords:
                return _covers_end(repo, fi, e.args[1], depth + 1)
            v = _inline_expression_call(fi, e)
            if v is not None:
                return _covers_end(repo, fi, v, depth + 1)
            return None
        if isinstance(f, ast.Attribute):
            if f.attr in ('splitlines', 'split', 'rsplit'):
                return True
            if f.attr == 'copy' and not e.args and not e.keywords:
                return _covers_end(repo, fi, f.value, depth + 1)
        return None
    if isinstance(e, ast.Subscript) and isinstance(e.slice, ast.Slice):
        sl = e.slice
        step = 1 if sl.step is None else _const_index(sl.step)
        if not step:
            return None
        inner = _covers_end(repo, fi, e.value, depth + 1)
        if step > 0:
            if sl.upper is None:
                return inner
            return False if _const_index(sl.upper) is not None else None
        if sl.lower is None:
            return inner
        k = _const_index(sl.lower)
        if k is None:
            return None
        return inner if k == -1 else False
    if isinstance(e, (ast.GeneratorExp, ast.ListComp)) and len(e.generators) == 1 and not e.generators[0].is_async:
        return _covers_end(repo, fi, e.generators[0].iter, depth + 1)
    if isinstance(e, ast.Name):
        name = e.id
        binds = assigned_value(fi.node, name)
        if name in _all_params(fi):
            if binds:
                return None
            sites = _call_site_args(repo, fi, name)
            if not sites:
                return None
            vs = set(_covers_end(repo, caller, a, depth + 1) for caller, a in sites)
            return False if False in vs else (True if vs == {True} else None)
        if not binds:
            return None
        vs = set()
        for st, v, idx in binds:
            if isinstance(st, (ast.Assign, ast.AnnAssign)) and idx is None:
                vs.add(_covers_end(repo, fi, v, depth + 1))
            elif isinstance(st, ast.Assign) and isinstance(idx, int) and isinstance(v, ast.Tuple) and len(v.elts) > idx and \
                    not any(isinstance(x, ast.Starred) for x in v.elts):
                vs.add(_covers_end(repo, fi, v.elts[idx], depth + 1))
            else:
                vs.add(None)
        return False if False in vs else (True if vs == {True} else None)
    return None


def _affine(fi, e, var, depth=0):
    """(coefficient of ``var``, constant, coefficient of ``len(..)``) of an index expression made of ``var``, integer
    constants, ``len(<sequence>)``, ``+``, ``-``, unary ``-`` and ``~``; None for anything else."""
    if depth > 8:
        return None
    if isinstance(e, ast.Name):
        if e.id == var:
            return (1, 0, 0)
        v = _single_value(fi, e.id)
        return _affine(fi, v, var, depth + 1) if v is not None else None
    k = _const_index(e)
    if k is not None:
        return (0, k, 0)
    if isinstance(e, ast.Call) and call_name(e) == 'len' and len(e.args) == 1 and not e.keywords:
        return (0, 0, 1)
    if isinstance(e, ast.UnaryOp) and isinstance(e.op, (ast.USub, ast.Invert, ast.UAdd)):
        a = _affine(fi, e.operand, var, depth + 1)
        if a is None:
            return None
        if isinstance(e.op, ast.UAdd):
            return a
        if isinstance(e.op, ast.USub):
            return (-a[0], -a[1], -a[2])
        return (-a[0], -a[1] - 1, -a[2])
    if isinstance(e, ast.BinOp) and isinstance(e.op, (ast.Add, ast.Sub)):
        a, b = _affine(fi, e.left, var, depth + 1), _affine(fi, e.right, var, depth + 1)
        if a is None or b is None:
            return None
        sg = 1 if isinstance(e.op, ast.Add) else -1
        return (a[0] + sg * b[0], a[1] + sg * b[1], a[2] + sg * b[2])
    return None


def _first_index_is_end(fi, sub, var, loop_iter):
    """For ``xs[<affine in var>]`` with ``var`` running over ``range(start, ..)``: is the first position visited the last
    element (``len(xs) - 1`` or ``-1``)?  True / False / None (not of that shape)."""
    it = loop_iter
    while isinstance(it, ast.Call) and call_name(it) in ('iter', 'list', 'tuple') and len(it.args) == 1:
        it = it.args[0]
    if not (isinstance(it, ast.Call) and call_name(it) == 'range' and not it.keywords and 1 <= len(it.args) <= 3):
        return None
    start = it.args[0] if len(it.args) >= 2 else ast.Constant(value=0)
    idx = _affine(fi, sub.slice, var)
    st = _affine(fi, start, '\0')
    if idx is None or st is None or idx[0] == 0:
        return None
    first = (idx[1] + idx[0] * st[1], idx[2] + idx[0] * st[2])
    return first in ((-1, 1), (-1, 0))


def _early_exit(loop):
    """The loop can be left before its iterable is used up: a ``break`` of its own or a ``return`` in its body."""
    def rec(nodes, inner):
        for n in nodes:
            if isinstance(n, (ast.FunctionDef, ast.AsyncFunctionDef, ast.ClassDef, ast.Lambda)):
                continue
            if isinstance(n, ast.Return) or (isinstance(n, ast.Break) and not inner):
                return True
            if rec(ast.iter_child_nodes(n), inner or isinstance(n, (ast.For, ast.AsyncFor, ast.While))):
                return True
        return False
    return rec(loop.body, False)


def _enclosing_loops(fi, node):
    out, prev, cur = [], node, fi.mod.parents.get(node)
    while cur is not None and cur is not fi.node:
        if isinstance(cur, (ast.For, ast.AsyncFor, ast.While)) and prev not in cur.orelse:
            out.append(cur)          # (the else clause runs once, after the loop)
        prev, cur = cur, fi.mod.parents.get(cur)
    return out


def _is_filtered(fi, e, depth=0):
    """The iterable is the outcome of a search: a comprehension with a condition, ``filter(..)``."""
    e = _deref(fi, e)
    if depth > 6:
        return False
    if isinstance(e, (ast.GeneratorExp, ast.ListComp)):
        return any(g.ifs for g in e.generators) or any(_is_filtered(fi, g.iter, depth + 1) for g in e.generators)
    if isinstance(e, ast.Call) and isinstance(e.func, ast.Name):
        if e.func.id == 'filter':
            return True
        if e.func.id in _KEEPS_ORDER + ('reversed',) and e.args:
            return _is_filtered(fi, e.args[0], depth + 1)
    if isinstance(e, ast.Subscript) and isinstance(e.slice, ast.Slice):
        return _is_filtered(fi, e.value, depth + 1)
    return False


class _Pick(object):
    """From which end of the text a line is taken: ``end`` True / False / None (cannot be told); ``search``: the line is
    the outcome of a search (loop, ``next``, filtered sequence) rather than a fixed position."""

    def __init__(self, end, why, search=False):
        self.end, self.why, self.search = end, why, search


def _first_or_last(order, first, what, search):
    if order is None:
        return _Pick(None, 'the order of %s cannot be told' % what, search)
    end = (order == _REV) == first
    return _Pick(end, 'the %s element of %s, which runs %s' % ('first' if first else 'last', what, order), search)


def _left_out(pick, covers, what):
    """A pick from the end of a sequence that no longer holds the last line of the text is not a pick from the end."""
    if pick.end is True and covers is False:
        return _Pick(False, '%s; but %s leaves out the last line of the text' % (pick.why, what), pick.search)
    return pick


def _index_sign(e, var):
    """+1 / -1: the sign with which ``var`` enters the affine index expression ``e`` (``i``, ``-i - 1``, ``~i``,
    ``len(xs) - 1 - i``); None when ``e`` is something else."""
    def mentions(x):
        return any(isinstance(n, ast.Name) and n.id == var for n in ast.walk(x))
    if isinstance(e, ast.Name):
        return 1 if e.id == var else None
    if isinstance(e, ast.UnaryOp) and isinstance(e.op, (ast.USub, ast.Invert)):
        s = _index_sign(e.operand, var)
        return -s if s else None
    if isinstance(e, ast.UnaryOp) and isinstance(e.op, ast.UAdd):
        return _index_sign(e.operand, var)
    if isinstance(e, ast.BinOp) and isinstance(e.op, (ast.Add, ast.Sub)):
        l, r = mentions(e.left), mentions(e.right)
        if l and not r:
            return _index_sign(e.left, var)
        if r and not l:
            s = _index_sign(e.right, var)
            return None if not s else (s if isinstance(e.op, ast.Add) else -s)
    return None


def _pick_indexed(repo, fi, sub, depth):
    """``xs[<index walking through a loop>]``."""
    names = set()
    for n in ast.walk(sub.slice):
        if not (isinstance(n, ast.Name) and isinstance(n.ctx, ast.Load)) or not assigned_value(fi.node, n.id):
            continue
        par = fi.mod.parents.get(n)
        if isinstance(par, ast.Call) and call_tail(par) == 'len' and n in par.args:
            continue                   # len(xs) - 1 - i
        names.add(n.id)
    what = short(sub, 40)
    if len(names) != 1:
        return _Pick(None, 'the index of %s cannot be followed' % what)
    var = names.pop()
    sign = _index_sign(sub.slice, var)
    so = _order(repo, fi, sub.value, depth + 1)
    if sign is None or so is None:
        return _Pick(None, 'the index of %s cannot be followed' % what)
    binds = assigned_value(fi.node, var)
    walk, early = None, None
    fors = [b for b in binds if b[2] == 'iter']
    if len(binds) == 1 and fors and isinstance(fors[0][0].target, ast.Name):
        walk, early = _order(repo, fi, fors[0][0].iter, depth + 1), _early_exit(fors[0][0])
    elif not fors:
        augs = [st for st, v, idx in binds if isinstance(st, ast.AugAssign)]
        plain = [st for st, v, idx in binds if not isinstance(st, ast.AugAssign)]
        loops = set(id(l) for a in augs for l in _enclosing_loops(fi, a)[:1])
        steps = set()
        for a in augs:
            k = _const_index(a.value)
            steps.add(None if not k or k < 0 or not isinstance(a.op, (ast.Add, ast.Sub)) else isinstance(a.op, ast.Add))
        if augs and len(loops) == 1 and len(steps) == 1 and None not in steps and \
                all(isinstance(st, ast.Assign) and not _enclosing_loops(fi, st) for st in plain):
            loop = _enclosing_loops(fi, augs[0])[0]
            walk = _FWD if steps.pop() else _REV
            early = _early_exit(loop) or (isinstance(loop, ast.While) and isinstance(loop.test, ast.BoolOp))
    if walk is None:
        return _Pick(None, 'how the index %s of %s moves cannot be told' % (var, what), True)
    if sign < 0:
        walk = _flip(walk)
    if so == _REV:
        walk = _flip(walk)
    end = (walk == _REV) == early
    pick = _Pick(end, '%s: the index %s walks the text %s and the search %s' %
                 (what, var, walk, 'stops at the first hit' if early else 'keeps the last hit'), True)
    covers = _covers_end(repo, fi, sub.value, depth + 1)
    if covers is not False and walk == _REV and early and fors:
        if _first_index_is_end(fi, sub, var, fors[0][0].iter) is False:
            covers = False
    return _left_out(pick, covers, 'the walk of %s' % what)


def _combine(picks, what):
    """Several bindings / returns: the outcomes of a search are judged, fixed positions next to them are the fall-back
    for a text in which the search finds nothing."""
    main = [p for p in picks if p.search] or picks
    if not main:
        return _Pick(None, '%s is never bound' % what)
    for p in main:
        if p.end is False:
            return p
    for p in main:
        if p.end is None:
            return p
    return main[0]


def _pick(repo, fi, e, depth=0):
    """From which end of the text the line-valued expression ``e`` is taken."""
    what = short(e, 40)
    if depth > 10:
        return _Pick(None, '%s: too deep to follow' % what)
    if isinstance(e, ast.BoolOp) and isinstance(e.op, ast.Or):
        return _pick(repo, fi, e.values[0], depth + 1)          # found or <fall-back>
    if isinstance(e, ast.Name):
        name = e.id
        binds = assigned_value(fi.node, name)
        if name in _all_params(fi):
            sites = _call_site_args(repo, fi, name) if not binds else None
            if not sites:
                return _Pick(None, 'parameter %s of %s cannot be followed to its callers' % (name, fi.qualname))
            return _combine([_pick(repo, caller, a, depth + 1) for caller, a in sites], name)
        picks = []
        for st, v, idx in binds:
            in_loop = bool(_enclosing_loops(fi, st))
            if idx == 'iter':
                o = _order(repo, fi, st.iter, depth + 1)
                early = _early_exit(st)
                if o is None:
                    picks.append(_Pick(None, 'the order of %s cannot be told' % short(st.iter, 40), True))
                else:
                    picks.append(_left_out(_Pick((o == _REV) == early, 'the loop over %s runs %s and %s' % (
                        short(st.iter, 40), o, 'stops at the first hit' if early else 'keeps the last hit'), True),
                        _covers_end(repo, fi, st.iter, depth + 1), short(st.iter, 40)))
            elif isinstance(st, (ast.Assign, ast.AnnAssign)) and idx is None:
                p = _pick(repo, fi, v, depth + 1)
                picks.append(_Pick(p.end, p.why, p.search or in_loop))
            elif isinstance(st, ast.Assign) and isinstance(idx, int) and isinstance(v, ast.Tuple) and len(v.elts) > idx and \
                    not any(isinstance(x, ast.Starred) for x in v.elts):
                p = _pick(repo, fi, v.elts[idx], depth + 1)
                picks.append(_Pick(p.end, p.why, p.search or in_loop))
            else:
                picks.append(_Pick(None, 'the binding %s of %s cannot be followed' % (short(st, 40), name), in_loop))
        return _combine(picks, name)
    if isinstance(e, ast.Subscript) and not isinstance(e.slice, ast.Slice):
        k = _const_index(e.slice)
        if k is None:
            return _pick_indexed(repo, fi, e, depth)
        base = e.value
        if isinstance(base, ast.Call) and isinstance(base.func, ast.Attribute) and base.func.attr in ('rpartition', 'partition'):
            # text.rpartition('\n')[2]: what follows the last line break; text.partition('\n')[0]: the first line
            if base.func.attr == 'rpartition' and k in (2, -1):
                return _Pick(True, '%s: the text after the last separator' % what)
            if base.func.attr == 'partition' and k in (0, -3):
                return _Pick(False, '%s: the text before the first separator' % what)
            return _Pick(None, '%s: not one line of the text' % what)
        if k not in (0, -1):
            return _Pick(False if _order(repo, fi, base, depth + 1) is not None else None,
                         '%s: a fixed position that is neither end of %s' % (what, short(base, 40)), _is_filtered(fi, base))
        return _left_out(_first_or_last(_order(repo, fi, base, depth + 1), k >= 0, short(base, 40), _is_filtered(fi, base)),
                         _covers_end(repo, fi, base, depth + 1), short(base, 40))
    if isinstance(e, ast.Call):
        f = e.func
        if isinstance(f, ast.Name) and not (f.id in _all_params(fi) or assigned_value(fi.node, f.id)):
            if f.id == 'next' and 1 <= len(e.args) <= 2 and not e.keywords:
                return _left_out(_first_or_last(_order(repo, fi, e.args[0], depth + 1), True, short(e.args[0], 40), True),
                                 _covers_end(repo, fi, e.args[0], depth + 1), short(e.args[0], 40))
            if f.id == 'str' and len(e.args) == 1 and not e.keywords:
                return _pick(repo, fi, e.args[0], depth + 1)
            v = _inline_expression_call(fi, e)
            if v is not None:
                return _pick(repo, fi, v, depth + 1)
        if isinstance(f, ast.Attribute) and f.attr in _KEEPS_LINE:
            return _pick(repo, fi, f.value, depth + 1)
        if isinstance(f, ast.Attribute) and f.attr == 'pop' and len(e.args) <= 1 and not e.keywords:
            k = _const_index(e.args[0]) if e.args else -1
            if k is None:
                return _Pick(None, '%s: position cannot be told' % what)
            return _left_out(_first_or_last(_order(repo, fi, f.value, depth + 1), k >= 0, short(f.value, 40), False),
                             _covers_end(repo, fi, f.value, depth + 1), short(f.value, 40))
        hit = _callee_of(repo, fi, e)
        if hit is not None:
            g = hit[0]
            picks = []
            for r in returns_of(g):
                if r.value is None or (isinstance(r.value, ast.Constant) and r.value.value is None):
                    continue
                p = _pick(repo, g, r.value, depth + 1)
                picks.append(_Pick(p.end, p.why, p.search or bool(_enclosing_loops(g, r))))
            return _combine(picks, 'the result of %s' % g.qualname)
    return _Pick(None, '%s is not a way of taking a line that can be followed' % what)


def _bytes_methods_on_text(rep, fs, parser):
    """R20.d: the path a *text* takes through the parser (and through create_app / the endpoint before it) calls no
    bytes-only method on it: ``x.decode(..)`` where the path conditions say ``isinstance(x, str)`` raises AttributeError
    for every text, so the parsed branch is never reached (abstract domain: str / not str, read off the isinstance
    tests that dominate the call)."""
    from .common import isinstance_test
    flaw = fs.flaw
    seen = 0
    for fi in (parser, fs.ca, fs.endpoint):
        for n in walk_body(fi.node):
            if not (isinstance(n, ast.Call) and isinstance(n.func, ast.Attribute) and n.func.attr == 'decode' and
                    isinstance(n.func.value, ast.Name)):
                continue
            var = n.func.value.id
            known_str = None
            for t, pol in conds(fi, n):
                while isinstance(t, ast.UnaryOp) and isinstance(t.op, ast.Not):
                    t, pol = t.operand, not pol
                if isinstance_test(t, var=var, cls='str') and not (isinstance(t.args[1], ast.Tuple) and len(t.args[1].elts) > 1):
                    known_str = pol
                elif isinstance_test(t, var=var, cls='bytes') and pol is True:
                    known_str = False
            seen += 1
            rep.check('R20.d', fkey(fi, n), known_str is not True,
                      '%s is not called where the value is known to be text' % short(n, 40) if known_str is not True else
                      '%s is called where isinstance(%s, str) holds: AttributeError for every text, so a standard traceback is '
                      'never parsed and the page never names its exception type and message' % (short(n, 40), var), flaw, n)


def _parsed_reaches_section(rep, fs):
    """R20.d: what the parser produced is what the template section around ``{exc_type}`` / ``{exc_msg}`` reads: section
    name -> endpoint context value -> endpoint parameter -> resource of that name -> a local of create_app one of whose
    bindings is made by the parser (the others being the handler's fall-back)."""
    repo, flaw, ca, epf = fs.repo, fs.flaw, fs.ca, fs.endpoint
    tmpl_name, src_e, text, reg, _rfi = fs.template
    tags = dust.tokenize(repo, text)
    stack, sections = [], set()
    for t in tags:
        if t.kind == 'close':
            if stack:
                stack.pop()
            continue
        if t.kind == 'ref' and t.refpath in ('exc_type', 'exc_msg'):
            sections.add(stack[-1].refpath if stack else None)
        if t.kind == 'section' and not t.selfclosing:
            stack.append(t)
    if len(sections) != 1 or None in sections:
        rep.notes.append('R20.d declined: the template section around {exc_type} / {exc_msg} cannot be told (%r)' % sorted(map(str, sections)))
        return
    sect = sections.pop().split('.')[0]
    leaky, calls_parser = _leaky_parser_functions(repo, flaw)

    def from_parser(fi, e, depth=0):
        if depth > 4 or e is None:
            return False
        for n in ast.walk(e):
            if isinstance(n, ast.Call):
                g = _module_callee(repo, fi, n)
                if _is_parser_call(fi, n) or (g is not None and g.qualname in calls_parser):
                    return True
            elif isinstance(n, ast.Name) and isinstance(n.ctx, ast.Load) and n.id not in _all_params(fi):
                if any(from_parser(fi, v, depth + 1) for st, v, idx in assigned_value(fi.node, n.id) if v is not None and v is not e):
                    return True
                if not assigned_value(fi.node, n.id) and n.id in calls_parser and n.id in fi.mod.functions:
                    return True           # a function that runs the parser, handed on by reference
            elif isinstance(n, ast.Attribute) and n.attr in PARSER_METHODS and norm(n.value) == PARSER_CLASS:
                return True               # _ParsedTB.from_string handed on by reference
            elif isinstance(n, ast.Lambda):
                continue
        return False
    res = fs.resources
    for r, items in fs.context:
        key = fkey(epf, 'section %s' % sect)
        if sect not in items:
            rep.fail('R20.d', key, 'the endpoint context has no %r, the section the template shows the exception type and message in' % sect,
                     flaw, r)
            continue
        pname = _param_behind(epf, items[sect])
        if pname is None:
            made = _made_from(epf, set(_all_params(epf)))
            if not (set(n.id for n in ast.walk(items[sect]) if isinstance(n, ast.Name)) & made):
                rep.fail('R20.d', key, 'the value of %r in the endpoint context (%s) is not made from anything the endpoint was given: '
                         'the parsed exception type and message never reach the page' % (sect, short(items[sect], 40)), flaw, r)
            else:
                rep.notes.append('R20.d declined: how the context value %s of %r is made cannot be followed' % (short(items[sect], 40), sect))
            continue
        if pname not in res:
            continue          # (reported by R20.b: resources vs endpoint parameters)
        v = res[pname]
        ok = v is not None and from_parser(ca, v)
        rep.check('R20.d', key, ok,
                  'the section {#%s} reads the resource %r, which create_app makes with the traceback parser' % (sect, pname) if ok else
                  'the section {#%s} reads the resource %r, but what create_app puts there (%s) is not made by the traceback parser: the page '
                  'never names the exception type and message' % (sect, pname, short(v, 40) if v is not None else '?'), flaw, r)


def _parsed_branch(rep, fs):
    flaw = fs.flaw
    td = flaw.func('_ParsedTB.to_dict')
    rep.rule('R20.d', '_ParsedTB.to_dict exports what {#parsed_err} reads; from_string has a normal return and is fed type and message')
    need = {'exc_type', 'exc_msg'}     # (the parser is never run on sample tracebacks: shapes only)
    td_keys = None
    for r in returns_of(td):
        if r.value is None:
            continue
        ks = set(_dict_items(td, r.value, 'to_dict'))
        td_keys = ks if td_keys is None else (td_keys & ks)
    if td_keys is None:
        raise AnalysisError('to_dict: no dict return found')
    if td_keys is not None:
        rep.check('R20.d', fkey(td, 'keys'), need <= td_keys, 'to_dict exports %s' % sorted(need) if need <= td_keys else
                  'to_dict no longer exports %s' % sorted(need - td_keys), flaw, td.node)
    fs_ = flaw.func('_ParsedTB.from_string')
    cfg = cfg_of(fs_)
    rets = returns_of(fs_)
    ok = bool(rets) and any(cfg.reachable(n) for r in rets for n in cfg.nodes_of(r))
    rep.check('R20.d', fkey(fs_, 'return'), ok, 'from_string has a reachable return of a parsed object' if ok else
              'from_string cannot return normally', flaw, fs_.node)
    init = flaw.func('_ParsedTB.__init__')
    ps = init.params()
    if len(ps) < 3:
        raise AnalysisError('_ParsedTB.__init__ has fewer than two fields')
    cls_name = fs_.params()[0] if fs_.params() else 'cls'
    ctor = [c for c in walk_body(fs_.node) if isinstance(c, ast.Call) and isinstance(c.func, ast.Name) and c.func.id in (cls_name, PARSER_CLASS)]
    if not ctor:
        raise AnalysisError('from_string: construction of the parsed object not found')
    verdicts = []
    for c in ctor:
        a0, a1 = argn(c, ps[1], 0), argn(c, ps[2], 1)
        s0, s1 = _partition_side(fs.repo, fs_, a0), _partition_side(fs.repo, fs_, a1)
        if s0 is None or s1 is None:
            # not traceable to the partition: fall back on the conventional local names
            if norm(a0) == 'exc_type' and norm(a1) == 'exc_msg':
                verdicts.append(True)
            elif norm(a0) == 'exc_msg' and norm(a1) == 'exc_type':
                verdicts.append(False)
            else:
                raise AnalysisError('from_string: cannot tell which of %s / %s is the exception type' % (short(a0, 30), short(a1, 30)))
        else:
            verdicts.append(s0 == 0 and s1 == 2)
    ok = all(verdicts)
    rep.check('R20.d', fkey(fs_, 'cls(exc_type, exc_msg, ...)'), ok,
              'parsed type and message are passed in constructor order' if ok else
              'from_string does not construct cls(exc_type, exc_msg, ...)', flaw, fs_.node)
    _bytes_methods_on_text(rep, fs, fs_)
    asg = dict((norm(s.targets[0]), norm(s.value)) for s in stmts_of(init.node) if isinstance(s, ast.Assign))
    ok = asg.get('self.exc_type') == ps[1] and asg.get('self.exc_msg') == ps[2]
    rep.check('R20.d', fkey(init, 'fields'), ok, 'constructor stores type and message in the matching fields' if ok else
              'constructor cross-wires exc_type / exc_msg: %r' % asg, flaw, init.node)


def _exception_line_from_end(rep, fs):
    """R20.f: a standard traceback names the exception that ended it on its *last* line (a chained traceback names the
    earlier ones further up), so the line whose ``partition(':')`` supplies the type and message given to the parsed
    object has to be looked for from the end of the text: each such line is followed back to the iteration / index /
    ``next`` / ``pop`` that produced it, and that has to deliver the bottom-most candidate."""
    flaw, repo = fs.flaw, fs.repo
    rep.rule('R20.f', 'the line split into exception type and message is searched from the end of the traceback text')
    fs_ = flaw.func('_ParsedTB.from_string')
    init = flaw.func('_ParsedTB.__init__')
    ps = init.params()
    if len(ps) < 3:
        raise AnalysisError('_ParsedTB.__init__ has fewer than two fields')
    cls_name = fs_.params()[0] if fs_.params() else 'cls'
    ctor = [c for c in walk_body(fs_.node) if isinstance(c, ast.Call) and isinstance(c.func, ast.Name) and c.func.id in (cls_name, PARSER_CLASS)]
    if not ctor:
        raise AnalysisError('from_string: construction of the parsed object not found')
    for n, c in enumerate(ctor):
        sites = []
        for a in (argn(c, ps[1], 0), argn(c, ps[2], 1)):
            srcs = _partition_sources(repo, fs_, a) if a is not None else [None]
            if not srcs or None in srcs:
                raise AnalysisError('from_string: %s cannot be followed back to the partition(..) of a line of the text'
                                    % (short(a, 30) if a is not None else 'the type / message argument'))
            for side, g, call in srcs:
                if not any(call is c_ for g_, c_ in sites):
                    sites.append((g, call))
        picks = []
        for g, call in sites:
            if not isinstance(call.func, ast.Attribute):
                raise AnalysisError('%s: %s is not a method call on a line' % (g.qualname, short(call, 40)))
            p = _pick(repo, g, call.func.value)
            # a split made inside a loop belongs to the search; one made at a fixed position next to it is the
            # fall-back for a text in which the search finds nothing
            picks.append(_Pick(p.end, '%s in %s: %s' % (short(call, 40), g.qualname, p.why),
                               p.search or bool(_enclosing_loops(g, call))))
        p = _combine(picks, 'the exception line')
        if p.end is None:
            raise AnalysisError('from_string: cannot tell from which end of the text the line split into type and message '
                                'is taken (%s)' % p.why)
        rep.check('R20.f', fkey(fs_, 'exception line' + ('' if n == 0 else ' #%d' % (n + 1))), p.end,
                  'the exception line is the bottom-most candidate (%s)' % p.why if p.end else
                  ('the search for the line split into type and message does not reach the last line of the text, which is where a '
                   'standard traceback names its exception (%s)' % p.why) if ('leaves out the last line' in p.why or 'neither end' in p.why) else
                  'the line split into type and message is searched from the top of the text, so a chained traceback is '
                  'reported with its first exception, not the one on its last line (%s)' % p.why, flaw, c)


# ------------------------------------------------------------------------------------------------ R20.e the launcher
def _stores_name(fnode, name):
    """Plain (re)bindings of ``name`` in a function body (its own scope): assignments, for / with / except targets."""
    out = []
    declared = set()
    for n in walk_body(fnode):
        if isinstance(n, (ast.Nonlocal, ast.Global)):
            declared.update(n.names)
    if name in declared:
        return []
    for st, v, idx in assigned_value(fnode, name):
        if isinstance(st, ast.AugAssign):
            continue            # xs += [...] extends the same list
        out.append(st)
    return out


_GROWS = ('extend', 'append', 'insert')


def _list_updates(repo, mod, fi, name, origin, depth=0, seen=None):
    """Follow the list known as ``name`` in function ``fi``: (is it updated in place somewhere, [(function, stmt, why)]
    where something that should update it rebinds a name / attribute of its own instead).  Followed into nested
    functions, module functions that are handed the list (directly or through functools.partial) and classes of the
    module constructed with it (``self.x = <param>`` ... ``self.x[:] = ...``)."""
    from .. import effects
    seen = set() if seen is None else seen
    if depth > 4 or (fi.key, name) in seen:
        return False, []
    seen.add((fi.key, name))
    updated, problems = False, []
    scopes_ = [fi] + [g for q, g in sorted(mod.functions.items()) if q.startswith(fi.qualname + '.')]
    for sc in scopes_:
        shadowed = sc is not fi and name in sc.params()
        if shadowed:
            continue
        if sc is not fi or not origin:
            # a closure (or a helper that was handed the list) assigning the bare name makes a new local
            for st in _stores_name(sc.node, name):
                problems.append((sc, st, '%s rebinds %s as a name of its own (%s): the list handed to the error hook never '
                                 'sees the files the child reported' % (sc.qualname, name, short(st, 60))))
        for e in effects.effects_in(sc.node):
            if e.root == name and e.chain and len([x for x in e.chain[1:] if x not in ('[]',)]) == 0 and \
                    ((e.kind == 'store' and isinstance(e.target, ast.Subscript)) or (e.kind == 'mutcall' and e.method in _GROWS)):
                updated = True
        for c in walk_body(sc.node):
            if not isinstance(c, ast.Call):
                continue
            args, callee = list(c.args), c.func
            if call_tail(c) == 'partial' and c.args:
                callee, args = c.args[0], list(c.args[1:])
            if not isinstance(callee, ast.Name):
                continue
            pos = [i for i, a in enumerate(args) if isinstance(a, ast.Name) and a.id == name]
            kws = [k.arg for k in c.keywords if k.arg and isinstance(k.value, ast.Name) and k.value.id == name]
            if not pos and not kws:
                continue
            try:
                kind, m, g = repo.resolve(mod, callee.id)
            except Exception:
                continue
            if m is not mod:
                continue
            if kind == 'func':
                gps = g.params()
                for pn in [gps[i] for i in pos if i < len(gps)] + [k for k in kws if k in gps]:
                    u, pr = _list_updates(repo, mod, g, pn, False, depth + 1, seen)
                    updated, problems = updated or u, problems + pr
            elif kind == 'class':
                init = repo.find_method(g, '__init__')
                if init is None or init.mod is not mod:
                    continue
                ips = init.params()[1:]
                for pn in [ips[i] for i in pos if i < len(ips)] + [k for k in kws if k in ips]:
                    attrs = [s_.targets[0].attr for s_ in stmts_of(init.node)
                             if isinstance(s_, ast.Assign) and len(s_.targets) == 1 and isinstance(s_.targets[0], ast.Attribute)
                             and isinstance(s_.targets[0].value, ast.Name) and s_.targets[0].value.id == init.params()[0]
                             and isinstance(s_.value, ast.Name) and s_.value.id == pn]
                    for meth in g.methods.values():
                        self_ = meth.params()[0] if meth.params() else None
                        for s_ in stmts_of(meth.node):
                            if meth is not init and isinstance(s_, ast.Assign):
                                for t in s_.targets:
                                    if isinstance(t, ast.Attribute) and isinstance(t.value, ast.Name) and t.value.id == self_ and t.attr in attrs:
                                        problems.append((meth, s_, '%s rebinds the attribute %s.%s (%s): the caller\'s list, which is handed '
                                                         'to the error hook, never sees the files the child reported'
                                                         % (meth.qualname, self_, t.attr, short(s_, 60))))
                        for e in effects.effects_in(meth.node):
                            if e.chain and len(e.chain) >= 2 and e.chain[0] == self_ and e.chain[1] in attrs and \
                                    all(x == '[]' for x in e.chain[2:]) and \
                                    ((e.kind == 'store' and isinstance(e.target, ast.Subscript)) or (e.kind == 'mutcall' and e.method in _GROWS)):
                                updated = True
    return updated, problems


def locate_hook(repo, server, rwr):
    """(function holding the call, [the call of the error hook ``hook(text, files)``], name of the file list in
    restart_with_reloader): the hook is a parameter of restart_with_reloader called with two positional arguments, in
    restart_with_reloader itself or in a function of the module it hands the hook (and the list) to."""
    def hook_calls(fi, hook_params):
        return [c for c in walk_body(fi.node) if isinstance(c, ast.Call) and isinstance(c.func, ast.Name) and c.func.id in hook_params
                and len(c.args) == 2 and not c.keywords and not assigned_value(fi.node, c.func.id)]
    owner, hooks = rwr, hook_calls(rwr, rwr.params())
    X = None
    if len(hooks) == 1:
        X = _canon_name(rwr, hooks[0].args[1])
    elif not hooks:
        # one level down: restart_with_reloader hands its hook (and its list) to a function of the module
        for c in walk_body(rwr.node):
            g = _module_callee(repo, rwr, c)
            if g is None:
                continue
            gps = g.params()
            handed = [gps[i] for i, a in enumerate(c.args) if isinstance(a, ast.Name) and a.id in rwr.params() and i < len(gps)]
            hs = hook_calls(g, handed)
            if len(hs) == 1 and isinstance(hs[0].args[1], ast.Name) and hs[0].args[1].id in gps and \
                    not assigned_value(g.node, hs[0].args[1].id) and gps.index(hs[0].args[1].id) < len(c.args):
                back = c.args[gps.index(hs[0].args[1].id)]
                owner, hooks, X = g, hs, _canon_name(rwr, back)
                break
    return owner, hooks, X


def _launcher_handover(rep, fs):
    """R20.e: the development server gives the failsafe the error text and the file list the child reported.  The
    constructs are located by role; where they cannot be, the judgement is declined (a note), never guessed."""
    repo = fs.repo
    server = repo.mod('clastic.server')
    rep.rule('R20.e', 'the launcher passes the error text and the monitored-file list it collected on to flaw.create_app')
    cparams = fs.ca.params()
    builders = [(fi, c) for q, fi in sorted(server.functions.items()) for c in walk_body(fi.node)
                if isinstance(c, ast.Call) and call_tail(c) == 'create_app']
    if len(cparams) < 2 or not builders:
        rep.notes.append('R20.e declined: no call of flaw.create_app found in server.py')
    for fi, c in builders:
        a0, a1 = argn(c, cparams[0], 0), argn(c, cparams[1], 1)
        ps = fi.params()
        def unwrapped(a):
            # a copy of the parameter carries what the parameter carries: list(files), tuple(files), files[:], str(text)
            for _ in range(4):
                a = _deref(fi, a)
                if isinstance(a, ast.Call) and call_name(a) in ('list', 'tuple', 'str') and len(a.args) == 1 and not a.keywords:
                    a = a.args[0]
                elif isinstance(a, ast.Subscript) and isinstance(a.slice, ast.Slice) and a.slice.lower is None and \
                        a.slice.upper is None and a.slice.step is None:
                    a = a.value
                else:
                    break
            return a
        p0 = _param_behind(fi, unwrapped(a0)) if a0 is not None else None
        p1 = _param_behind(fi, unwrapped(a1)) if a1 is not None else None
        if a0 is not None and a1 is not None and (p0 is None or p1 is None):
            # not the bare parameters: each has at least to be made from the parameter of its position (the hook is
            # called as hook(text, files)); something else -- a closure variable, the other parameter -- is not what
            # the launcher collected
            foreign = []
            if len(ps) >= 2:
                for a, mine, what in ((a0, ps[0], 'error text'), (a1, ps[1], 'file list')):
                    names = set(n.id for e in (a, _closed(fi, a)) for n in ast.walk(e) if isinstance(n, ast.Name))
                    if mine not in names:
                        foreign.append('the %s it builds the failsafe from (%s) is not made from its parameter %s' % (what, short(a, 40), mine))
            if foreign:
                rep.fail('R20.e', fkey(fi, 'create_app arguments'), '%s: %s' % (fi.qualname, '; '.join(foreign)), server, c)
            else:
                rep.notes.append('R20.e declined: the arguments of %s are not parameters of %s' % (short(c, 60), fi.qualname))
            continue
        ok = p0 is not None and p1 is not None and p0 != p1 and ps.index(p0) < ps.index(p1)
        rep.check('R20.e', fkey(fi, 'create_app arguments'), ok,
                  'the failsafe is built from the error text and the file list this function was given' if ok else
                  'create_app is not called with (error text, monitored files) as received: %s' % short(c, 80), server, c)
    rwr = server.functions.get('restart_with_reloader')
    if rwr is None or not rwr.params():
        rep.notes.append('R20.e declined: restart_with_reloader(error_func) not found')
        return
    owner, hooks, X = locate_hook(repo, server, rwr)
    if len(hooks) != 1 or X is None or X in rwr.params():
        rep.notes.append('R20.e declined: the call of the error hook (text, files) in restart_with_reloader was not found')
        return
    # the list is created once, outside the restart loop
    made = [st for st, v, idx in assigned_value(rwr.node, X)]
    in_loop = []
    for st in made:
        cur = st
        while cur is not None and cur is not rwr.node:
            cur = server.parents.get(cur)
            if isinstance(cur, (ast.While, ast.For)):
                in_loop.append(st)
                break
    updated, problems = _list_updates(repo, server, rwr, X, True)
    for st in in_loop:
        problems.append((rwr, st, 'the file list %s is re-created in every round of the restart loop (%s): what the previous child '
                         'reported is lost when the next one dies' % (X, short(st, 50))))
    for fi, st, why in problems:
        rep.fail('R20.e', fkey(fi, st), why, server, st)
    if not problems:
        if not updated:
            rep.notes.append('R20.e declined: no in-place update of the monitored-file list %s was found' % X)
            return
        rep.ok('R20.e', fkey(rwr, 'file list %s' % X), 'the list given to the error hook is the one filled in place from the child\'s report',
               server, hooks[0])


def _page_body_total(rep, fs):
    """R20.l: the render factory the failsafe application is built with (found by role: the ``render_factory`` argument of
    the Application constructed by create_app or by a function of the tree it calls) produces render functions that hand
    bytes from a total encoding to ``Response``."""
    from . import bodytext
    repo = rep.repo
    flaw = repo.mod('clastic.flaw')
    ca = flaw.func('create_app')

    def class_of(fi, e, depth=0):
        """the class of the tree an expression evaluates to an instance of (through locals and returning functions)"""
        if depth > 5 or e is None:
            return None
        if isinstance(e, ast.Name):
            vals = [s.value for s in ast.walk(fi.node) if isinstance(s, ast.Assign) and len(s.targets) == 1 and
                    isinstance(s.targets[0], ast.Name) and s.targets[0].id == e.id]
            found = set(class_of(fi, v, depth + 1) for v in vals)
            return found.pop() if len(found) == 1 else None
        if isinstance(e, ast.Call):
            r = repo.resolve_class(fi.mod, e.func) if isinstance(e.func, (ast.Name, ast.Attribute)) else None
            if r is not None and not isinstance(r, str) and hasattr(r, 'methods'):
                return r
            if isinstance(e.func, ast.Name):
                kind, m, obj = repo.resolve(fi.mod, e.func.id)
                if kind == 'func' and m is not None and not m.external:
                    found = set(class_of(obj, x.value, depth + 1) for x in returns_of(obj) if x.value is not None)
                    return found.pop() if len(found) == 1 else None
        return None

    def factories(fi, depth=0, seen=None):
        seen = seen if seen is not None else set()
        if fi.key in seen or depth > 3:
            return []
        seen.add(fi.key)
        out = []
        for n in ast.walk(fi.node):
            if not isinstance(n, ast.Call):
                continue
            r = repo.resolve_class(fi.mod, n.func) if isinstance(n.func, (ast.Name, ast.Attribute)) else None
            if r is not None and not isinstance(r, str) and hasattr(r, 'methods') and repo.is_subclass(r, 'Application'):
                v = argn(n, 'render_factory', 3)
                if v is not None:
                    out.append(class_of(fi, v))
            elif isinstance(n.func, ast.Name):
                kind, m, obj = repo.resolve(fi.mod, n.func.id)
                if kind == 'func' and m is not None and not m.external and m is fi.mod:
                    out.extend(factories(obj, depth + 1, seen))
        return out
    found = factories(ca)
    if not found or any(c is None for c in found) or len(set(found)) != 1 or found[0].mod.external:
        raise AnalysisError('create_app: the render factory of the failsafe application was not identified')
    cls = found[0]
    quals = sorted(q for q, fi in cls.mod.functions.items() if q.startswith(cls.qualname + '.') and q.count('.') == cls.qualname.count('.') + 1)
    bodytext.check_render_bodies(rep, 'R20.l', [(cls.mod.name, quals)], 1)


def run(rep):
    repo = rep.repo
    rep.decide('R20.l the page is handed to the response as bytes from a total encoding; R20.a names resolve; R20.b parser cannot prevent the page, route/template/resource agreement; '
               'R20.c template auto-escapes every reference; R20.d parsed branch reachable and fed; '
               'R20.e the launcher hands over the collected text and file list; '
               'R20.f the exception line is searched from the end of the text and the search covers the last line; '
               'R20.g the child\'s stderr reaches the hook as the error text; R20.h the failsafe server is served and taken down; '
               'R20.i no code named at run time; R20.j function-level imports cannot stop the construction; '
               'R20.k file names are handled by total string operations only; '
               'R20.m no walk of the parser reads beyond the list in its last step whatever the length')
    rep.decline('totality over non-text inputs (bytes/None through ashes); coverage of traceback grammars (which strings count as '
                'the exception line: value-level, C20a-1); whether the frame lines come in whole File/source records (a look-ahead inside '
                'the record a step of the walk owns fails only for a last record cut short; the pinned pairing loop has that form)')
    rep.assume('ashes 19.2.0 filter semantics as read from the pinned source (apply_filters)')
    fs = _Failsafe(repo)
    repo.mod('clastic.server')

    _group(rep, _names_resolve, rep, fs)
    rep.rule('R20.b', 'parsing is under a catch-all handler; routes share endpoint and template; resources = endpoint params')
    _group(rep, _parser_contained, rep, fs)
    _group(rep, _routes_agree, rep, fs)
    _group(rep, _static_nonbreaking, rep, fs)
    _group(rep, _file_lists_kept, rep, fs)
    _group(rep, _shown_is_given, rep, fs)
    _group(rep, _text_only_through_template, rep, fs)
    _group(rep, _template_escapes, rep, fs)
    _group(rep, _parsed_branch, rep, fs)
    _group(rep, _parsed_reaches_section, rep, fs)
    _group(rep, _exception_line_from_end, rep, fs)
    from . import c20_walks
    _group(rep, c20_walks.walks_stay_in_the_list, rep, fs)
    _group(rep, _launcher_handover, rep, fs)
    from . import c20_launcher
    _group(rep, c20_launcher.stderr_to_hook, rep, fs)
    _group(rep, c20_launcher.served_and_taken_down, rep, fs)
    from . import c20_inert
    _group(rep, c20_inert.no_code_named_at_run_time, rep, fs)
    _group(rep, c20_inert.function_level_imports, rep, fs)
    from . import c20_files
    _group(rep, c20_files.file_names_total, rep, fs)
    rep.rule('R20.l', 'the page text, built from arbitrary error text and file names, is handed to the response as bytes from an '
                      'encoding that cannot fail (werkzeug encodes a str body strictly: a lone surrogate would turn the page into a 500)')
    _group(rep, _page_body_total, rep, fs)
