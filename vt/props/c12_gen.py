"""C12 / R12.a, generated code -- the *set of line templates* of an accumulating chain builder.

The precise reading of ``build_chain_str`` (props/chain.py, codegen.py) follows a recursive, straight-line builder (and
the depth loop that indexes its parameters) and yields the template of one nesting level.  A builder that accumulates
the text in lists over a loop that carries state from one iteration to the next (``level += 1``; an accumulator object
the front-end dissolved into such lists) is outside that reading.  What R12.a needs from the generated text is weaker
than the nesting structure: *no line of it stores into the heap or declares a global, and the only free name any line
reads is* ``funcs``.  That is a property of the **set of line templates** the builder can emit, whatever their order and
number.  It is computed here by abstract evaluation, never by running the builder:

  * the statements before the loop are evaluated symbolically (codegen.TemplateEval);
  * the loop body is evaluated once, for a symbolic iteration: the loop targets stand for an element of the iterated
    parameter (``funcs[0]`` / ``params[0]``, the frame of the equivalent recursive activation) or for an integer; a local
    carried between iterations is accepted only when every assignment of it in the function is integer arithmetic over an
    integer parameter / constant (then it is *some integer*: ``unit * n`` is indentation and ``'%s' % n`` digits whatever
    its value); any other carried local is "cannot follow";
  * every string the body appends to a list that started as a (literal) list is one template of that list's *bag*;
  * the function must return ``''.join(<bags, concatenated / reversed in any way>)``: the text is a sequence of instances
    of the bags' templates; each template must consist of whole lines.

Anything else -- another loop shape, a template with a part that is not followed, text assembled in another way -- is an
AnalysisError (a gap, not a verdict).  The judgement per line is the one ``_judge_generated`` makes on the level template.
"""
import ast
import textwrap

from ..core import AnalysisError, norm, short
from .. import codegen, effects
from ..codegen import TemplateEval, Tmpl, Ex, SList


class _Bag(object):
    """The strings a loop appends to one list: instances of ``items`` (templates), any number, any order."""

    def __init__(self, items):
        self.items = list(items)


def _int_param(fi, name):
    a = fi.node.args
    pos = a.posonlyargs + a.args
    defaults = dict(zip([x.arg for x in pos[len(pos) - len(a.defaults):]], a.defaults))
    defaults.update((x.arg, d) for x, d in zip(a.kwonlyargs, a.kw_defaults) if d is not None)
    d = defaults.get(name)
    return isinstance(d, ast.Constant) and isinstance(d.value, int) and not isinstance(d.value, bool)


def _int_expr(fi, e, ints, depth=0):
    """``e`` can only evaluate to an integer: constants, integer-defaulted parameters, ``len(..)``, names already known to
    be integers, ``+`` / ``-`` of those."""
    if depth > 6:
        return False
    if isinstance(e, ast.Constant):
        return isinstance(e.value, int) and not isinstance(e.value, bool)
    if isinstance(e, ast.Name):
        return e.id in ints or (e.id in fi.params() and _int_param(fi, e.id))
    if isinstance(e, ast.BinOp) and isinstance(e.op, (ast.Add, ast.Sub)):
        return _int_expr(fi, e.left, ints, depth + 1) and _int_expr(fi, e.right, ints, depth + 1)
    if isinstance(e, ast.Call) and isinstance(e.func, ast.Name) and e.func.id == 'len' and len(e.args) == 1 and not e.keywords:
        return True
    return False


def _only_int(fi, name, ints):
    """Every binding of local ``name`` in the function is integer arithmetic (the name itself may occur in it)."""
    found = False
    for st in ast.walk(fi.node):
        if isinstance(st, ast.Assign):
            for t in st.targets:
                if isinstance(t, ast.Name) and t.id == name:
                    found = True
                    if not _int_expr(fi, st.value, ints | {name}):
                        return False
                elif any(isinstance(n, ast.Name) and n.id == name and isinstance(n.ctx, ast.Store) for n in ast.walk(t)):
                    return False
        elif isinstance(st, ast.AugAssign) and isinstance(st.target, ast.Name) and st.target.id == name:
            found = True
            if not (isinstance(st.op, (ast.Add, ast.Sub)) and _int_expr(fi, st.value, ints | {name})):
                return False
        elif isinstance(st, (ast.For, ast.comprehension)) and any(isinstance(n, ast.Name) and n.id == name for n in ast.walk(st.target)):
            return False
        elif isinstance(st, (ast.With, ast.NamedExpr, ast.ExceptHandler)):
            if isinstance(st, ast.NamedExpr) and isinstance(st.target, ast.Name) and st.target.id == name:
                return False
            if isinstance(st, ast.ExceptHandler) and st.name == name:
                return False
            if isinstance(st, ast.With) and any(i.optional_vars is not None and any(isinstance(n, ast.Name) and n.id == name for n in ast.walk(i.optional_vars)) for i in st.items):
                return False
    return found


class BagEval(TemplateEval):
    """TemplateEval that reads one top-level accumulating loop as bags of templates."""

    def __init__(self, repo, fi):
        TemplateEval.__init__(self, repo, fi)
        self.bags = {}            # list name -> _Bag
        self.result = None        # [_Bag] the returned text is made of
        self.loop = None
        self.empty_returns = 0

    def fail(self, why, st=None):
        return AnalysisError('%s: %s%s' % (self.fi.qualname, why, ' (%s)' % norm(st)[:50] if st is not None else ''))

    # -- statements ----------------------------------------------------------------------------------------------------
    def exec_stmt(self, st):
        if isinstance(st, ast.For) and self.parent is None and self._loop_guard is None:
            if self.loop is not None:
                raise self.fail('a second loop in the code generator', st)
            return self._bag_loop(st)
        if self.loop is not None and self._loop_guard is None and self.parent is None:
            # after the loop: only the assembly of the text
            if isinstance(st, ast.Return):
                self.result = self._joined_bags(st.value, st)
                self.returns.append((st, None))
                raise codegen._Return()
            if isinstance(st, ast.Assign) and len(st.targets) == 1 and isinstance(st.targets[0], ast.Name):
                self.env[st.targets[0].id] = ('text', self._joined_bags(st.value, st))
                return
            if isinstance(st, ast.Expr) and isinstance(st.value, ast.Call) and isinstance(st.value.func, ast.Attribute) and \
                    st.value.func.attr in ('reverse', 'sort') and isinstance(st.value.func.value, ast.Name) and \
                    isinstance(self.env.get(st.value.func.value.id), (_Bag, SList)) and not st.value.args and \
                    all(st.value.func.attr == 'sort' and k.arg == 'reverse' and isinstance(k.value, ast.Constant) for k in st.value.keywords):
                # the list is re-ordered in place: the same strings in another order -- the bag (order and number abstracted)
                # is what it was
                v = self.env[st.value.func.value.id]
                if isinstance(v, SList) and v.kind != 'list':
                    raise self.fail('%s of something that is not a list' % st.value.func.attr, st)
                return
            raise self.fail('after the accumulating loop only the assembly of the text is followed', st)
        return TemplateEval.exec_stmt(self, st)

    def _if(self, st):
        try:
            return TemplateEval._if(self, st)
        except AnalysisError:
            # a conditional that only chooses non-text data (``if seen is None: seen_ = set(..)``): the names it binds hold
            # "some data"; should one of them reach the text it is an unfollowed part there
            names = []
            for b in list(st.body) + list(st.orelse):
                if not (isinstance(b, ast.Assign) and len(b.targets) == 1 and isinstance(b.targets[0], ast.Name)) or \
                        isinstance(b.value, (ast.Constant, ast.JoinedStr, ast.BinOp)) or any(isinstance(n, ast.Constant) and isinstance(n.value, str) for n in ast.walk(b.value)):
                    raise
                names.append(b.targets[0].id)
            for n in names:
                if isinstance(self.env.get(n), (Tmpl, SList)):
                    raise
            for n in names:
                self.env[n] = Ex(ast.Name(id=n, ctx=ast.Load()))
            return None

    def _elem(self, coll_expr):
        """the value standing for one element of the iterated collection: ``P[0]`` in the frame of the recursive reading"""
        r = self.resolve(coll_expr)
        if not (isinstance(r, ast.Name) and r.id in self.params):
            raise self.fail('the loop iterates something other than a parameter of the builder', coll_expr)
        return Ex(ast.Subscript(value=ast.Name(id=r.id, ctx=ast.Load()), slice=ast.Constant(value=0), ctx=ast.Load()))

    def _bind_loop_targets(self, st, ints):
        zero = Ex(ast.Constant(value=0))
        it, tg = st.iter, st.target
        if isinstance(it, ast.Call) and isinstance(it.func, ast.Name) and not it.keywords and it.func.id not in self.env:
            fn = it.func.id
            if fn == 'range' and isinstance(tg, ast.Name) and 1 <= len(it.args) <= 2:
                self.env[tg.id] = zero
                ints.add(tg.id)
                return
            if fn == 'enumerate' and len(it.args) == 1 and isinstance(tg, (ast.Tuple, ast.List)) and len(tg.elts) == 2 and \
                    all(isinstance(e, ast.Name) for e in tg.elts):
                self.env[tg.elts[0].id] = zero
                ints.add(tg.elts[0].id)
                self.env[tg.elts[1].id] = self._elem(it.args[0])
                return
            if fn == 'zip' and isinstance(tg, (ast.Tuple, ast.List)) and len(tg.elts) == len(it.args) and all(isinstance(e, ast.Name) for e in tg.elts):
                for e, a in zip(tg.elts, it.args):
                    self.env[e.id] = self._elem(a)
                return
        if isinstance(tg, ast.Name):
            self.env[tg.id] = self._elem(it)
            return
        raise self.fail('loop header outside the modelled subset', st)

    def _bag_loop(self, st):
        if st.orelse:
            raise self.fail('loop with an else clause in a code generator', st)
        for s_ in st.body:
            for n in ast.walk(s_):
                if isinstance(n, (ast.Break, ast.Continue, ast.Return, ast.For, ast.While, ast.Try, ast.With, ast.Yield, ast.YieldFrom,
                                  ast.FunctionDef, ast.Lambda, ast.Global, ast.Nonlocal, ast.NamedExpr, ast.If)):
                    raise self.fail('the body of the accumulating loop is not straight-line code (%s)' % type(n).__name__, st)
        self.loop = st
        names = [n for s_ in st.body for n in ast.walk(s_) if isinstance(n, ast.Name)]
        stored = set(n.id for n in names if isinstance(n.ctx, (ast.Store, ast.Del)))
        stored |= set(n.id for n in ast.walk(st.target) if isinstance(n, ast.Name))
        if stored & set(self.params):
            raise self.fail('the loop re-binds a parameter', st)
        ints = set()
        self._bind_loop_targets(st, ints)
        targets = set(n.id for n in ast.walk(st.target) if isinstance(n, ast.Name))
        # locals carried from one iteration to the next: bound before the loop and re-bound in it
        carried = set(k for k in stored - targets if k in self.env)
        for k in sorted(carried):
            if isinstance(self.env.get(k), SList):
                raise self.fail('list %s is re-bound in the loop' % k, st)
            if not _only_int(self.fi, k, ints):
                raise self.fail('local %s is carried from one iteration to the next and is not integer arithmetic' % k, st)
            ints.add(k)
        lists = dict((k, v) for k, v in self.env.items() if isinstance(v, SList) and v.kind == 'list')
        before = dict((k, len(v.items)) for k, v in lists.items())
        # the lists are only ever appended to, as statements of the body (not handed on, not read)
        par = self.fi.mod.parents
        for n in names:
            if n.id in lists:
                a = par.get(n)
                c = par.get(a)
                ok = isinstance(a, ast.Attribute) and a.attr in ('append', 'extend') and isinstance(c, ast.Call) and c.func is a and \
                    isinstance(par.get(c), ast.Expr) and len(c.args) == 1 and not c.keywords and not isinstance(c.args[0], ast.Starred)
                ok = ok or (isinstance(a, ast.AugAssign) and a.target is n and isinstance(a.op, ast.Add))
                if not ok:
                    raise self.fail('list %s is used in the loop other than by appending to it' % n.id, st)
        self._loop_guard = {'stored': stored - carried - targets, 'assigned': set()}
        try:
            self.exec_block(st.body)
        finally:
            self._loop_guard = None
        for k in stored:
            if k in lists:
                continue
            self.env[k] = Ex(ast.Name(id='<%s of the last iteration>' % k, ctx=ast.Load()))
        for k, v in lists.items():
            if self.env.get(k) is not v:
                raise self.fail('list %s is re-bound in the loop' % k, st)
            if len(v.items) > before[k]:
                self.bags[k] = _Bag(v.items)
                self.env[k] = self.bags[k]
        if not self.bags:
            raise self.fail('the loop appends no text to a list', st)

    def _joined_bags(self, e, st):
        """``''.join(<expression over the bag lists>)`` -> the bags; anything else: AnalysisError."""
        if isinstance(e, ast.Name) and isinstance(self.env.get(e.id), tuple) and self.env[e.id][0] == 'text':
            return self.env[e.id][1]
        if not (isinstance(e, ast.Call) and isinstance(e.func, ast.Attribute) and e.func.attr == 'join' and len(e.args) == 1 and not e.keywords and
                isinstance(e.func.value, ast.Constant) and e.func.value.value == ''):
            raise self.fail('after the accumulating loop the text is not assembled as \'\'.join(<the lists>)', st)
        out = []

        def walk(x):
            if isinstance(x, ast.Name):
                v = self.env.get(x.id)
                if isinstance(v, _Bag):
                    out.append(v)
                    return
                if isinstance(v, SList) and v.kind == 'list':
                    out.append(_Bag(v.items))
                    return
                raise self.fail('%s is not one of the lists the loop fills' % x.id, st)
            if isinstance(x, ast.BinOp) and isinstance(x.op, ast.Add):
                walk(x.left)
                walk(x.right)
                return
            if isinstance(x, ast.Subscript) and isinstance(x.slice, ast.Slice):
                walk(x.value)
                return
            if isinstance(x, ast.Call) and isinstance(x.func, ast.Name) and x.func.id in ('reversed', 'list', 'tuple', 'iter') and len(x.args) == 1 and not x.keywords:
                walk(x.args[0])
                return
            if isinstance(x, (ast.List, ast.Tuple)):
                items = []
                for el in x.elts:
                    if isinstance(el, ast.Starred):
                        walk(el.value)
                    else:
                        items.append(self.eval(el))
                if items:
                    out.append(_Bag(items))
                return
            raise self.fail('the joined expression is not built from the lists the loop fills', st)
        walk(e.args[0])
        return out


def line_bag(repo, fi, level_param=None):
    """-> (lines, statement to report at): every line template the accumulating builder ``fi`` can emit, rendered with
    placeholder identifiers."""
    te = BagEval(repo, fi)
    te.run()
    if te.loop is None or te.result is None:
        raise AnalysisError('%s: no accumulating loop followed by a join found' % fi.qualname)
    # the other returns (guard clauses) must hand out the empty text
    for st, val in te.returns:
        if val is None:
            continue
        if not (isinstance(val, Tmpl) and all(isinstance(p, str) for p in val.parts) and ''.join(val.parts) == ''):
            raise AnalysisError('%s: a return besides the joined lists hands out text (%s)' % (fi.qualname, norm(st)[:50]))
    for st, t, rets in te.guards:
        for r in rets:
            val = r[1]
            if not (isinstance(val, Tmpl) and all(isinstance(p, str) for p in val.parts) and ''.join(val.parts) == ''):
                raise AnalysisError('%s: a guard clause returns text that is not followed (%s)' % (fi.qualname, norm(r[0])[:50]))
    lines = []
    for bag in te.result:
        for item in bag.items:
            parts = te.to_parts(item)
            opaque = [p for p in codegen.flatten_syms(parts) if p.kind == 'expr']
            if opaque:
                raise AnalysisError('%s: part of the generated text is built in a way the template evaluator cannot follow (%s)'
                                    % (fi.qualname, short(opaque[0].expr)))
            if any(isinstance(p, codegen.Sym) and p.kind in ('rec', 'loop') for p in codegen.flatten_syms(parts)):
                raise AnalysisError('%s: nested generation inside an accumulated template' % fi.qualname)
            r = codegen.render(parts, level_param=level_param, level_value=0)
            text = r.text
            if not text.endswith('\n'):
                raise AnalysisError('%s: an accumulated template does not end a line (%r): the set of line templates does not describe '
                                    'the text' % (fi.qualname, text[-30:]))
            for ln in text.split('\n')[:-1]:
                if ln.strip():
                    lines.append(ln)
    return lines, te.loop


def judge_lines(lines, label):
    """-> (bad constructs, free names read, sorted) over the line templates, each parsed as a statement of its own."""
    bad, free, bound = [], set(), set()
    kinds = set()
    for ln in lines:
        src = textwrap.dedent(ln)
        if src.rstrip().endswith(':'):
            src = src.rstrip() + '\n    pass\n'
        try:
            tree = ast.parse(src)
        except SyntaxError as e:
            raise AnalysisError('generated %s: the line template %r is not a statement of its own: %s' % (label, ln.strip()[:60], e))
        for n in ast.walk(tree):
            if isinstance(n, (ast.Global, ast.Nonlocal)):
                bad.append(norm(n))
            if isinstance(n, (ast.Attribute, ast.Subscript)) and isinstance(n.ctx, (ast.Store, ast.Del)):
                bad.append(norm(n))
            if isinstance(n, ast.Call) and isinstance(n.func, ast.Attribute) and n.func.attr in effects.MUTATORS:
                bad.append(norm(n))
            if isinstance(n, (ast.Import, ast.ImportFrom, ast.ClassDef, ast.Delete)):
                bad.append(norm(n))
            if isinstance(n, ast.Name):
                (free if isinstance(n.ctx, ast.Load) else bound).add(n.id)
            if isinstance(n, ast.FunctionDef):
                kinds.add('def')
                bound.add(n.name)
                bound.update(a.arg for a in n.args.posonlyargs + n.args.args + n.args.kwonlyargs)
                if n.args.vararg or n.args.kwarg or n.args.defaults or n.args.kw_defaults or n.decorator_list:
                    bad.append('def with defaults / star-arguments: %s' % norm(n)[:40])
            if isinstance(n, ast.Return):
                kinds.add('return')
    if kinds != {'def', 'return'}:
        raise AnalysisError('generated %s: the line templates do not contain a def line and a return line (template not understood)' % label)
    closed = sorted(x for x in free - bound if not x.startswith('__H') and x not in ('True', 'False', 'None', 'isinstance'))
    return bad, closed
