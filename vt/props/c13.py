"""C13 -- An Application is a conforming WSGI application.

Decided:
  R13.a  exactly one delegate per path: every normal path through _dispatch_wsgi ends in exactly one of
         ``response(environ, start_response)`` / ``rre.wsgi_app(environ, start_response)``, called with the
         function's own two parameters unchanged; clastic core never calls start_response itself and never
         stores into environ (both: expected count 0, with positive controls); __call__ delegates to
         _dispatch_wsgi with the same two arguments.  => "exactly once, before any body bytes, no body for
         HEAD" is delegated to werkzeug's BaseResponse.__call__ (assumption), and a RerouteWSGI target
         receives the request's own environ object;
  R13.b  wrapper order: Application.__init__ wraps self._dispatch_wsgi over the *reverse* of all_mws (first
         middleware outermost); _get_all_middlewares walks each bound route's middlewares in order and
         de-duplicates with ``not in`` keeping the first occurrence; set_error_handler wraps before the
         middleware loop (innermost); _safe_wrap_wsgi returns the inner callable untouched when there is no
         wrapper and validates the wrapped callable's first two parameter names;
         The error handler *in effect* is the one wrapped (check_handler_in_effect): every path through set_error_handler
         that installs a handler -- the one passed in, the default, the debug default (types a subclass may override) --
         applies a wrapping store whose source is the object stored as self.error_handler.
         Nobody un-hands them (c13_body.py): a function that stores a new body into a response it did not create keeps the
         old iterable's close() reachable (the response's own close-keeping API as read from the pinned werkzeug,
         call_on_close, or ClosingIterator).
  R13.e  the entry point only grows: ``self._dispatch_wsgi`` is written only by methods of the application class, only
         with a wrapping of its current value, and is never deleted / replaced through any spelling (``del``,
         ``setattr`` / ``delattr``, ``__dict__`` / ``vars()`` item stores, ``pop``, ``update``, ``clear`` ...) anywhere
         in the analysed tree (c13_entry.py): a later ``set_error_handler`` / ``add`` cannot un-wrap the application;
  R13.f  exception containment before dispatch: every attribute store on the request object (an instance of the configurable
         ``request_type``) that ``_dispatch_wsgi`` -- or a function of the tree it hands the request to before dispatch --
         performs is contained by an ``except Exception`` (or broader) handler that swallows it, with no narrower handler
         before it letting a subclass out, or can only run after such a contained store has succeeded: an exception there
         would leave the WSGI callable before ``start_response`` is called;
  R13.g  string header pairs: what clastic hands to a werkzeug response constructor as ``headers`` is the caller's object as
         given / ``None`` / a mapping / a ``Headers`` object / a list of ``(str, str)`` pairs it wrote itself -- never a ``list``
         assembled from values of unknown type, which ``Headers.__init__`` takes verbatim (fact read from the pinned werkzeug);
  R13.c  files are handed to the response: in build_file_response the object returned by open() is
         passed to file_wrapper(...) and stored as resp.response on the success path;
         StaticFileRoute.__init__'s probe open(...) is closed in the same statement.
Declined: validity of status lines / header types, close() semantics, byte-ness of bodies (inside werkzeug).

The constructs are recognised by role, not by spelling: a callee / an iterable / an argument that is a local with a
single assignment is looked through; the reversal may be ``reversed(x)`` or ``x[::-1]``; the de-duplicating walk may be
two nested loops, one loop over ``chain.from_iterable(...)`` / a flattening comprehension, with the membership test as
an ``if`` around the append or as a ``continue`` guard; a wrapping loop extracted into a method of the class is followed
from its call in ``__init__``; the wrapping itself may be a loop storing into the attribute, a loop accumulating in a
local that is stored afterwards, or a ``functools.reduce`` over a step function ``(inner, mw) -> _safe_wrap_wsgi(.., mw,
inner)`` (see ``WrapPlan``).
"""
import ast
import copy

from ..core import AnalysisError, norm, short
from .. import effects
from ..astutil import assigned_value, argn
from ..cfg import expand_conds
from .common import (cfg_of, fkey, conds, has_cond, stmts_of, walk_body, call_tail, call_name, returns_of, raises_of,
                     raise_type, stmt_of, kwarg, local_aliases)
from .noninterf import CORE_MODS

APP, STATIC = 'clastic.application', 'clastic.static'


def _group(rep, fn, *args):
    """One group of rules: "cannot analyse" (also a shape that trips the rule's own code) is a gap of this group, never
    a crash and never a verdict; the other groups still run."""
    def wrapped():
        try:
            return fn(*args)
        except AnalysisError:
            raise
        except Exception as e:
            raise AnalysisError('%s: unexpected construct (%s: %s)' % (fn.__name__, type(e).__name__, e))
    wrapped.__name__ = fn.__name__
    return rep.guard(wrapped)


# ---- looking through single-assignment locals ------------------------------------------------------------------------
def single_value(fi, name):
    """Value expression of a local that has exactly one binding in fi, a plain ``name = value`` -- else None."""
    if name in fi.params():
        return None
    vals = assigned_value(fi.node, name)
    if len(vals) != 1:
        return None
    st, v, idx = vals[0]
    if idx is not None or not isinstance(st, ast.Assign):
        return None
    return v


def _bind_call(callee, call, drop_first):
    """{parameter: argument expression} for a call without */**, defaults filled in -- None when it does not bind."""
    if any(isinstance(a, ast.Starred) for a in call.args) or any(k.arg is None for k in call.keywords):
        return None
    a = callee.node.args
    if a.vararg or a.kwarg:
        return None
    pos = [x.arg for x in a.posonlyargs + a.args]
    if drop_first:
        pos = pos[1:]
    names = pos + [x.arg for x in a.kwonlyargs]
    if len(call.args) > len(pos):
        return None
    env = dict(zip(pos, call.args))
    for k in call.keywords:
        if k.arg in env or k.arg not in names:
            return None
        env[k.arg] = k.value
    dpos = [x.arg for x in a.posonlyargs + a.args]
    defaults = dict(zip(dpos[len(dpos) - len(a.defaults):], a.defaults))
    for x, d in zip(a.kwonlyargs, a.kw_defaults):
        if d is not None:
            defaults[x.arg] = d
    for n in names:
        if n not in env:
            if n not in defaults:
                return None
            env[n] = defaults[n]
    return env


def resolve_callee(fi, call):
    """(FuncInfo, drop_first) of a call to a plain function of the same module / a method of the own class, else None."""
    f = call.func
    if isinstance(f, ast.Name):
        if f.id in fi.params() or assigned_value(fi.node, f.id):
            return None
        kind, m, obj = fi.mod.repo.resolve(fi.mod, f.id)
        if kind == 'func' and m is not None and not m.external and not obj.node.decorator_list:
            return obj, False
    elif isinstance(f, ast.Attribute) and isinstance(f.value, ast.Name) and f.value.id == 'self' and fi.cls is not None and f.attr in fi.cls.methods:
        m = fi.cls.methods[f.attr]
        static = any(isinstance(d, ast.Name) and d.id == 'staticmethod' for d in m.node.decorator_list)
        if all(isinstance(d, ast.Name) and d.id == 'staticmethod' for d in m.node.decorator_list):
            return m, not static
    return None


def _body_sans_doc(fnode):
    body = list(fnode.body)
    if body and isinstance(body[0], ast.Expr) and isinstance(body[0].value, ast.Constant) and isinstance(body[0].value.value, str):
        body = body[1:]
    return body


def call_as_expr(fi, call):
    """The expression a call stands for when its callee is a one-line ``return <expr>`` function of the analysed module
    (parameters replaced by the argument expressions; only for arguments that are names / attribute chains / constants,
    so that no evaluation is duplicated or re-ordered) -- else None."""
    rc = resolve_callee(fi, call)
    if rc is None:
        return None
    callee, drop = rc
    body = _body_sans_doc(callee.node)
    if len(body) != 1 or not isinstance(body[0], ast.Return) or body[0].value is None:
        return None
    env = _bind_call(callee, call, drop)
    if env is None:
        return None
    for v in env.values():
        x = v
        while isinstance(x, ast.Attribute):
            x = x.value
        if not isinstance(x, (ast.Name, ast.Constant)):
            return None
    if any(isinstance(n, (ast.Lambda, ast.ListComp, ast.SetComp, ast.DictComp, ast.GeneratorExp)) for n in ast.walk(body[0].value)):
        return None
    return _subst(body[0].value, env)


def deref(fi, expr, depth=0):
    """``expr`` with a Name that is a single-assignment local replaced by the value it names, and a call of a one-line
    expression helper replaced by that expression (transitively)."""
    while depth < 6:
        if isinstance(expr, ast.Name):
            v = single_value(fi, expr.id)
        elif isinstance(expr, ast.Call):
            v = call_as_expr(fi, expr)
        else:
            v = None
        if v is None:
            break
        expr, depth = v, depth + 1
    return expr


def alias_closure(fi, names):
    """names plus every local whose single binding is a plain copy ``x = <one of them>``."""
    out = set(names)
    changed = True
    while changed:
        changed = False
        for s in stmts_of(fi.node):
            if isinstance(s, ast.Assign) and isinstance(s.value, ast.Name) and s.value.id in out:
                for t in s.targets:
                    if isinstance(t, ast.Name) and t.id not in out and single_value(fi, t.id) is s.value:
                        out.add(t.id)
                        changed = True
    return out


def reversal_of(expr):
    """The sequence ``expr`` enumerates backwards (``reversed(x)``, ``x[::-1]``, also under list()/tuple()/iter()), or None."""
    while isinstance(expr, ast.Call) and isinstance(expr.func, ast.Name) and expr.func.id in ('list', 'tuple', 'iter') and \
            len(expr.args) == 1 and not expr.keywords:
        expr = expr.args[0]
    if isinstance(expr, ast.Call) and isinstance(expr.func, ast.Name) and expr.func.id == 'reversed' and len(expr.args) == 1 and not expr.keywords:
        return expr.args[0]
    if isinstance(expr, ast.Subscript) and isinstance(expr.slice, ast.Slice):
        sl = expr.slice
        if sl.lower is None and sl.upper is None and isinstance(sl.step, ast.UnaryOp) and isinstance(sl.step.op, ast.USub) and \
                isinstance(sl.step.operand, ast.Constant) and sl.step.operand.value == 1:
            return expr.value
        if sl.lower is None and sl.upper is None and isinstance(sl.step, ast.Constant) and sl.step.value == -1:
            return expr.value
    return None


def slot_store(s, slot='_dispatch_wsgi'):
    """Value expression a statement stores into ``self.<slot>``: a plain assignment, or ``setattr(self, '<slot>', v)`` as
    a statement of its own -- else None."""
    if isinstance(s, ast.Assign) and any(norm(t) == 'self.' + slot for t in s.targets):
        return s.value
    if isinstance(s, ast.Expr) and isinstance(s.value, ast.Call) and isinstance(s.value.func, ast.Name) and s.value.func.id == 'setattr' and \
            len(s.value.args) == 3 and not s.value.keywords and norm(s.value.args[0]) == 'self' and \
            isinstance(s.value.args[1], ast.Constant) and s.value.args[1].value == slot:
        return s.value.args[2]
    return None


def through_temps(fi, v):
    """``v`` with single-assignment locals looked through: (value, [the temporaries' assignment statements])."""
    temps, d = [], 0
    while isinstance(v, ast.Name) and d < 4:
        vals = [x for x in assigned_value(fi.node, v.id)]
        if len(vals) != 1 or vals[0][2] is not None or v.id in fi.params() or not isinstance(vals[0][0], ast.Assign):
            break
        temps.append(vals[0][0])
        v, d = vals[0][1], d + 1
    return v, temps


def wrap_stores(fi, within=None):
    """Stores ``self._dispatch_wsgi = _safe_wrap_wsgi(a, b, c)`` in fi (optionally inside statement ``within``), the call
    possibly named by a temporary first: [(store statement, call, temporaries' assignments)]."""
    out = []
    pool = stmts_of(fi.node) if within is None else [s for s in ast.walk(within) if isinstance(s, ast.stmt)]
    for s in pool:
        v = slot_store(s)
        if v is not None:
            v, temps = through_temps(fi, v)
            out.append((s, v if isinstance(v, ast.Call) and call_name(v) == '_safe_wrap_wsgi' else None, temps))
    return out


def wrap_args(app, call):
    """(source_name, source, inner) arguments of a ``_safe_wrap_wsgi`` call, positional or keyword -- None if not all three."""
    ps = app.func('_safe_wrap_wsgi').params()
    if call is None or len(ps) != 3 or len(call.args) + len(call.keywords) != 3:
        return None
    out = [argn(call, p, i) for i, p in enumerate(ps)]
    return out if all(x is not None for x in out) else None


def _slot_rebinders(fi, view):
    """Methods of the class that can re-bind / remove the entry slot (by any spelling) -- or write an attribute under a
    name the text does not fix."""
    out = set()
    for n, m in (fi.cls.methods.items() if fi.cls is not None else []):
        if view.touches_under(m, m.node) or any(isinstance(x, ast.Call) and isinstance(x.func, ast.Name) and x.func.id in ('setattr', 'delattr')
                                                for x in walk_body(m.node)):
            out.add(n)
    return out


def slot_untouched_between(fi, a_nodes, s_nodes, slot='_dispatch_wsgi'):
    """No statement that can run after a node of ``a_nodes`` and before the next node of ``s_nodes`` re-binds or removes
    ``self.<slot>``: an attribute store / ``del``, ``setattr`` / ``delattr``, the ``__dict__`` / ``vars()`` spellings, or
    a call of a method of the class that does one of these."""
    from .c13_entry import EntryView
    view = EntryView(fi.mod.repo, slot)
    cfg = cfg_of(fi)
    between = (cfg.reach([m for n in a_nodes for m in cfg.succ[n]], avoid=s_nodes) & cfg.coreach(s_nodes, avoid=a_nodes)) - set(s_nodes) - set(a_nodes)
    rebinders = _slot_rebinders(fi, view)
    for nd in cfg.nodes:
        if nd.id not in between or nd.stmt is None:
            continue
        hosts = [nd.stmt] if not hasattr(nd.stmt, 'body') else [getattr(nd.stmt, f) for f in ('test', 'iter') if isinstance(getattr(nd.stmt, f, None), ast.AST)] + \
            [i.context_expr for i in getattr(nd.stmt, 'items', [])]
        for h in hosts:
            if view.touches_under(fi, h):
                return False
            for x in ast.walk(h):
                if isinstance(x, ast.Call) and isinstance(x.func, ast.Name) and x.func.id in ('setattr', 'delattr'):
                    return False
                if isinstance(x, ast.Call) and isinstance(x.func, ast.Attribute) and isinstance(x.func.value, ast.Name) and \
                        x.func.value.id == 'self' and x.func.attr in rebinders:
                    return False
    return True


def current_stack_arg(fi, expr, store, slot='_dispatch_wsgi'):
    """Does ``expr`` -- the ``inner`` argument of the wrapping call whose result statement ``store`` puts into
    ``self._dispatch_wsgi`` -- denote the stack as it is at that moment?  Either the attribute itself, or a local whose
    single binding ``x = self._dispatch_wsgi`` is executed before every execution of the store with nothing in between
    that can re-bind the attribute (a store to it, a ``setattr``, a ``__dict__`` spelling, a call of a method of the
    class that does so).
    -> list of the temporaries' statements ([] for the attribute itself), or None."""
    if norm(expr) == 'self.' + slot:
        return []
    if not isinstance(expr, ast.Name) or expr.id in fi.params():
        return None
    vals = assigned_value(fi.node, expr.id)
    if len(vals) != 1 or vals[0][2] is not None or not isinstance(vals[0][0], ast.Assign) or norm(vals[0][1]) != 'self.' + slot:
        return None
    asg = vals[0][0]
    cfg = cfg_of(fi)
    a_nodes, s_nodes = set(cfg.nodes_of(asg)), set(cfg.nodes_of(store))
    if not a_nodes or not s_nodes:
        return None
    after_store = [m for n in s_nodes for m in cfg.succ[n]]
    if not cfg.must_pass(a_nodes, cfg.entry, s_nodes) or (s_nodes & cfg.reach(after_store, avoid=a_nodes)):
        return None          # the store can run (again) without the local having been (re-)read
    if not slot_untouched_between(fi, a_nodes, s_nodes, slot):
        return None
    return [asg]


def list_segments(fi, name, use):
    """Symbolic contents of a local list that is built in straight-line code at the top level of the function and read by
    statement ``use``: an ordered list of segments ('item', expr) -- one element -- / ('each', expr) -- the elements of an
    iterable (a comprehension is kept as such).  The list is one plain assignment of a display / ``list(x)`` / a ``+`` of
    those, followed by top-level ``.append(e)`` / ``.extend(x)`` / ``+= x`` statements, all before ``use``; any other
    mention of the name that could change it (another binding, another method call, being passed on) -> None."""
    if name in fi.params():
        return None
    top = list(fi.node.body)
    vals = assigned_value(fi.node, name)
    plain = [x for x in vals if not isinstance(x[1], ast.AugAssign)]
    if len(plain) != 1 or plain[0][2] is not None or not isinstance(plain[0][0], ast.Assign) or plain[0][0] not in top:
        return None

    def of(e):
        if isinstance(e, (ast.List, ast.Tuple)):
            return [('each', x.value) if isinstance(x, ast.Starred) else ('item', x) for x in e.elts]
        if isinstance(e, ast.Call) and isinstance(e.func, ast.Name) and e.func.id in ('list', 'tuple') and not e.keywords and len(e.args) <= 1:
            return [('each', e.args[0])] if e.args else []
        if isinstance(e, ast.BinOp) and isinstance(e.op, ast.Add):
            l, r = of(e.left), of(e.right)
            return None if l is None or r is None else l + r
        if isinstance(e, (ast.ListComp, ast.GeneratorExp)):
            return [('each', e)]
        return None
    segs = of(plain[0][1])
    if segs is None:
        return None
    use_top = use
    while use_top is not None and use_top not in top:
        use_top = fi.mod.parents.get(use_top)
    if use_top is None or top.index(plain[0][0]) >= top.index(use_top):
        return None
    accounted = set([id(plain[0][0])])
    for st in top[top.index(plain[0][0]) + 1:top.index(use_top)]:
        if isinstance(st, ast.Expr) and isinstance(st.value, ast.Call) and isinstance(st.value.func, ast.Attribute) and \
                isinstance(st.value.func.value, ast.Name) and st.value.func.value.id == name:
            c = st.value
            if c.keywords or len(c.args) != 1 or isinstance(c.args[0], ast.Starred):
                return None
            if c.func.attr == 'append':
                segs.append(('item', c.args[0]))
            elif c.func.attr == 'extend':
                segs.append(('each', c.args[0]))
            else:
                return None
            accounted.add(id(st))
        elif isinstance(st, ast.AugAssign) and isinstance(st.target, ast.Name) and st.target.id == name:
            more = of(st.value) if isinstance(st.op, ast.Add) else None
            if more is None:
                return None
            segs.extend(more)
            accounted.add(id(st))
    # every other mention of the name is a plain read inside ``use`` (its iteration)
    for st in stmts_of(fi.node):
        if id(st) in accounted:
            continue
        hosts = [st] if not hasattr(st, 'body') else [getattr(st, f) for f in ('test', 'iter', 'value') if isinstance(getattr(st, f, None), ast.AST)]
        for h in hosts:
            for n in ast.walk(h):
                if isinstance(n, ast.Name) and n.id == name:
                    par = fi.mod.parents.get(n)
                    is_iter = isinstance(st, ast.For) and st.iter is n
                    if not is_iter or isinstance(n.ctx, ast.Store):
                        return None
    return segs


# ---- R13.a -----------------------------------------------------------------------------------------------------------
def check_delegation(rep, app):
    repo = rep.repo
    dw = app.func('Application._dispatch_wsgi')
    cfg = cfg_of(dw)
    if len(dw.params()) < 3:
        raise AnalysisError('_dispatch_wsgi does not take (self, environ, start_response)')
    env, sr = dw.params()[1:3]
    rets = returns_of(dw)
    delegates = []
    def source_kind(v):
        """what a delegate callee stands for: the response dispatch() produced / the WSGI app of a caught RerouteWSGI"""
        if isinstance(v, ast.Call) and norm(v.func) == 'self.dispatch' and len(v.args) == 1 and isinstance(v.args[0], ast.Name) and not v.keywords:
            return 'response'
        if isinstance(v, ast.Attribute) and v.attr == 'wsgi_app':
            return 'reroute'
        return None
    dcalls = []
    for r in rets:
        v = deref(dw, r.value) if r.value is not None else None      # ``result = response(environ, start_response); return result``
        dcalls.append(v)
        ok = isinstance(v, ast.Call) and [norm(a) for a in v.args] == [env, sr] and not v.keywords
        kinds = set()
        if ok:
            callee = deref(dw, v.func)
            if isinstance(callee, ast.Name) and callee.id not in dw.params():
                # a local bound in several places (``response = self.dispatch(..)`` / ``except RerouteWSGI as e: response = e.wsgi_app``)
                kinds = set(source_kind(x[1]) if x[2] is None else None for x in assigned_value(dw.node, callee.id))
            else:
                kinds = {source_kind(callee)}
        delegates.append((r, kinds))
        rep.check('R13.a', fkey(dw, r), ok, 'returns %s(%s, %s): the delegate gets the original environ and start_response' % (norm(v.func) if ok else '?', env, sr) if ok else
                  '_dispatch_wsgi returns %s instead of a WSGI delegate call with (%s, %s)' % (short(r.value), env, sr), dw.mod, r)
    falls = cfg.exit in cfg.reach([cfg.entry], avoid=set(cfg.nodes_of_all(rets)), normal_only=True)
    rep.check('R13.a', fkey(dw, 'no fall-through'), not falls and bool(rets), 'every normal path ends in a delegate return' if not falls and rets else
              '_dispatch_wsgi can return None', dw.mod, dw.node)
    # exactly one delegate: no other call mentions start_response
    other = [c for c in walk_body(dw.node) if isinstance(c, ast.Call) and sr in [norm(a) for a in list(c.args) + [k.value for k in c.keywords]]
             and not any(c is v for v in dcalls)]
    rep.check('R13.a', fkey(dw, 'start_response passed once'), not other, 'start_response is only ever handed to the single delegate' if not other else
              'start_response is also passed to %s' % [short(c) for c in other], dw.mod, dw.node)
    # parameters never re-bound / mutated
    rebinds = [s for s in stmts_of(dw.node) if isinstance(s, (ast.Assign, ast.AugAssign)) and
               any(isinstance(n, ast.Name) and n.id in (env, sr) and isinstance(n.ctx, ast.Store) for n in ast.walk(s))]
    effs = [e for e in effects.effects_in(dw.node) if e.root in (env, sr)]
    rep.check('R13.a', fkey(dw, 'environ untouched'), not rebinds and not effs, 'environ / start_response are neither re-bound nor mutated' if not rebinds and not effs else
              'environ or start_response is modified before delegation: %s' % ([short(x) for x in rebinds] + [short(e.node) for e in effs]), dw.mod, dw.node)
    # response is the dispatch result; reroute comes from the caught exception
    ok = any('response' in k for r, k in delegates) and all(k and k <= {'response', 'reroute'} for r, k in delegates)
    rep.check('R13.a', fkey(dw, 'response is the dispatch result'), ok, 'the delegate is the response object dispatch() produced' if ok else
              'the called response is not the result of self.dispatch(request)', dw.mod, dw.node)
    call = app.func('Application.__call__')
    rs = returns_of(call)
    ok = len(rs) == 1 and isinstance(rs[0].value, ast.Call) and norm(deref(call, rs[0].value.func)) == 'self._dispatch_wsgi' and \
        [norm(a) for a in rs[0].value.args] == call.params()[1:3] and not rs[0].value.keywords
    rep.check('R13.a', fkey(call), ok, '__call__ delegates to self._dispatch_wsgi(environ, start_response) (the wrapped stack)' if ok else
              '__call__ does not delegate to self._dispatch_wsgi with its own arguments', call.mod, call.node)
    # nobody in the core calls start_response or writes environ -- with positive control
    ctl = ast.parse('def f(environ, start_response):\n    start_response("200 OK", [])\n    environ["x"] = 1\n')
    c_calls = [c for c in ast.walk(ctl) if isinstance(c, ast.Call) and call_tail(c) == 'start_response']
    c_effs = [e for e in effects.effects_in(ctl.body[0]) if e.root == 'environ']
    if len(c_calls) != 1 or len(c_effs) != 1:
        raise AnalysisError('positive control for start_response/environ detectors failed')
    calls, writes = [], []
    # every module of the package (a function may move into a new private module and be imported back) except the WSGI
    # *server* side clastic ships, which builds the environ and owns start_response by role
    from .c12_ring import SERVER_MODS
    for m in repo.all_internal_modules():
        if m.name in SERVER_MODS:
            continue
        for fi in m.functions.values():
            for c in walk_body(fi.node):
                if isinstance(c, ast.Call) and call_tail(c) == 'start_response':
                    calls.append((m, fi, c))
            for e in effects.effects_in(fi.node):
                if e.root == 'environ' or (e.chain and 'environ' in e.chain):
                    writes.append((m, fi, e))
    rep.check('R13.a', 'clastic::start_response callers', not calls, 'no clastic function calls start_response itself (0 found; control matched)' if not calls else
              'start_response is called directly at %s' % [fi.key for _, fi, _ in calls], app)
    rep.check('R13.a', 'clastic::environ writers', not writes, 'no clastic function stores into a WSGI environ (0 found; control matched)' if not writes else
              'environ is written at %s' % [fi.key for _, fi, _ in writes], app)
    rep.floor('R13.a', 8)


# ---- R13.f -----------------------------------------------------------------------------------------------------------
def _swallows(fi, handler):
    """The handler ends the exception: no ``raise`` statement in its body (nested definitions aside).  What else the body does
    (``pass``, ``return``, a log call) does not let the *caught* exception out."""
    todo = list(handler.body)
    while todo:
        s = todo.pop()
        if isinstance(s, ast.Raise):
            return False
        if isinstance(s, (ast.FunctionDef, ast.AsyncFunctionDef, ast.ClassDef, ast.Lambda)):
            continue
        todo.extend(ast.iter_child_nodes(s))
    return True


def contained(fi, node, exc='Exception'):
    """An exception of class ``exc`` (and so of any of its subclasses) raised by ``node`` does not leave function fi: an
    enclosing ``try`` body has a handler that catches it and swallows it, and no handler listed before that one (which would
    get a subclass first) lets it out again."""
    from ..cfg import enclosing_tries
    from ..astutil import handler_catches
    cur = node
    while cur is not None and cur is not fi.node:
        if isinstance(cur, (ast.Lambda, ast.GeneratorExp)):
            return False
        cur = fi.mod.parents.get(cur)
    for tr, part in enclosing_tries(fi.mod, node, fi.node):
        if part != 'body':
            continue
        for i, h in enumerate(tr.handlers):
            if handler_catches(h, exc):
                if all(_swallows(fi, x) for x in tr.handlers[:i + 1]):
                    return True
                break
    return False


def _attr_stores(fi, names):
    """[(node, statement)] -- stores into an attribute of an object one of ``names`` holds: ``r.a = v`` (also as an element
    of an unpacking, augmented, annotated, as a loop / with target), ``setattr(r, ..)`` / ``r.__setattr__(..)`` /
    ``object.__setattr__(r, ..)``."""
    out = []
    for n in walk_body(fi.node):
        hit = False
        if isinstance(n, ast.Attribute) and isinstance(n.ctx, ast.Store) and isinstance(n.value, ast.Name) and n.value.id in names:
            hit = True
        elif isinstance(n, ast.Call):
            f = n.func
            if isinstance(f, ast.Name) and f.id == 'setattr' and n.args and isinstance(n.args[0], ast.Name) and n.args[0].id in names:
                hit = True
            elif isinstance(f, ast.Attribute) and f.attr == '__setattr__' and \
                    ((isinstance(f.value, ast.Name) and f.value.id in names) or (n.args and isinstance(n.args[0], ast.Name) and n.args[0].id in names)):
                hit = True
        if hit:
            out.append((n, stmt_of(fi.mod, n)))
    return out


def check_request_stamping(rep, app):
    """R13.f -- the request object is an instance of ``self.request_type``, which the application's author chooses; what the
    entry point writes onto it before it hands over to ``dispatch`` (an id, a guid) is a courtesy that a request type may
    refuse with whatever exception its ``__setattr__`` / descriptors raise.  An exception leaving the WSGI callable at that
    point means no ``start_response`` call and no iterable for *every* request.  So, in the part of ``_dispatch_wsgi`` that
    runs before dispatch (and in the functions of the tree it hands the request to there): every attribute store on the
    request object is contained by a handler for ``Exception`` that swallows it, or can only run after such a contained
    store on the same object has succeeded (the ``else`` of that ``try``; after it when the handler leaves the function)."""
    dw = app.func('Application._dispatch_wsgi')
    if len(dw.params()) < 3:
        raise AnalysisError('_dispatch_wsgi does not take (self, environ, start_response)')
    env, sr = dw.params()[1:3]
    # the calls whose result is the delegate (``response = self.dispatch(request)``): the dispatch phase starts there
    dispatch_calls = set()
    for r in returns_of(dw):
        v = deref(dw, r.value) if r.value is not None else None
        if isinstance(v, ast.Call) and [norm(a) for a in v.args] == [env, sr]:
            c = v.func
            if isinstance(c, ast.Name) and c.id not in dw.params():
                for st_, val, idx in assigned_value(dw.node, c.id):
                    if isinstance(val, ast.Call):
                        dispatch_calls.add(id(val))
            c = deref(dw, c)
            if isinstance(c, ast.Call):
                dispatch_calls.add(id(c))

    def built_here(fi):
        out = set()
        for s_ in stmts_of(fi.node):
            if isinstance(s_, ast.Assign) and isinstance(s_.value, ast.Call) and isinstance(s_.value.func, ast.Attribute) and \
                    s_.value.func.attr == 'request_type' and norm(s_.value.func.value) == 'self':
                out.update(t.id for t in s_.targets if isinstance(t, ast.Name))
        return out
    sites = []          # (function, node, statement, receiver names of that function)
    found_ctor = [False]
    visited = set()

    def visit(fi, names, depth):
        names = alias_closure(fi, set(names) | built_here(fi))
        if built_here(fi):
            found_ctor[0] = True
        key = (fi, tuple(sorted(names)))
        if key in visited or depth > 3:
            return
        visited.add(key)
        for n, st_ in _attr_stores(fi, names):
            sites.append((fi, n, st_, names))
        for c in walk_body(fi.node):
            if not isinstance(c, ast.Call) or id(c) in dispatch_calls:
                continue
            rc = resolve_callee(fi, c)
            if rc is None and isinstance(c.func, ast.Attribute) and isinstance(c.func.value, ast.Name) and c.func.value.id == 'self' and fi.cls is not None:
                # a method the class inherits from a base / mixin of the analysed tree
                try:
                    meth = fi.mod.repo.find_method(fi.cls, c.func.attr)
                except Exception:
                    meth = None
                if meth is not None and not meth.mod.external and not isinstance(meth.node, ast.Lambda):
                    static = any(isinstance(d, ast.Name) and d.id == 'staticmethod' for d in meth.node.decorator_list)
                    if all(isinstance(d, ast.Name) and d.id == 'staticmethod' for d in meth.node.decorator_list):
                        rc = (meth, not static)
            if rc is None:
                continue
            callee, drop = rc
            if contained(fi, c):
                continue            # whatever the callee does to the request: an exception out of it ends here
            b = _bind_call(callee, c, drop)
            passed = set()
            if b is not None:
                passed = set(p for p, a in b.items() if isinstance(a, ast.Name) and a.id in names)
            elif any(isinstance(a, ast.Name) and a.id in names for a in list(c.args) + [k.value for k in c.keywords]):
                raise AnalysisError('%s hands the request object to %s in a way that is not followed' % (fi.qualname, callee.qualname))
            if passed or built_here(callee):
                visit(callee, passed, depth + 1)
    visit(dw, set(), 0)
    if not found_ctor[0]:
        raise AnalysisError('_dispatch_wsgi: no construction of the request object from self.request_type(...) found in it or in the '
                            'functions it calls before dispatch')
    by_fn = {}
    for fi, n, st_, names in sites:
        by_fn.setdefault(fi, []).append((n, st_))
    n_ok = 0
    for fi, lst in by_fn.items():
        cfg = cfg_of(fi)
        safe = [(n, st_) for n, st_ in lst if contained(fi, n)]
        p_nodes = set(cfg.nodes_of_all([st_ for _, st_ in safe]))
        exc_t = [m for (a, m) in cfg.exc_edges if a in p_nodes]
        for n, st_ in lst:
            ok = any(n is x for x, _ in safe)
            how = 'contained by a handler for Exception that swallows it'
            if not ok and p_nodes:
                s_nodes = set(cfg.nodes_of(st_))
                ok = bool(s_nodes) and cfg.must_pass(p_nodes, cfg.entry, s_nodes) and not (s_nodes & cfg.reach(exc_t))
                how = 'runs only after a contained store on the request object has succeeded'
            n_ok += 1 if ok else 0
            rep.check('R13.f', fkey(fi, st_), ok, 'the store on the request object is %s' % how if ok else
                      '%s stores an attribute on the request object (an instance of the configurable request_type) where an exception of '
                      'the store -- any Exception a request type may raise to refuse it -- leaves the WSGI callable before start_response '
                      'is called: not contained by an ``except Exception`` that swallows it, and not behind a contained store that '
                      'succeeded' % fi.qualname, fi.mod, st_)
    rep.ok('R13.f', fkey(dw, 'pre-dispatch stores'), '%d attribute store(s) on the request object before dispatch, all contained' % n_ok
           if sites else 'nothing is stored on the request object before dispatch')


# ---- R13.g -----------------------------------------------------------------------------------------------------------
STR_CALLS = {'str', 'repr', 'format', 'chr', 'hex', 'oct', 'bin', 'unicode'}
STR_METHODS = {'join', 'format', 'strip', 'lstrip', 'rstrip', 'lower', 'upper', 'title', 'capitalize', 'replace', 'decode', 'zfill',
               'isoformat', 'hexdigest'}


def str_typed(e, depth=0):
    """The expression can only evaluate to a ``str`` (decided from its shape)."""
    if depth > 6:
        return False
    if isinstance(e, ast.Constant):
        return isinstance(e.value, str)
    if isinstance(e, ast.JoinedStr):
        return True
    if isinstance(e, ast.Call):
        f = e.func
        if isinstance(f, ast.Name):
            return f.id in STR_CALLS
        return isinstance(f, ast.Attribute) and f.attr in STR_METHODS and (f.attr != 'decode' or True)
    if isinstance(e, ast.BinOp) and isinstance(e.op, ast.Mod):
        return str_typed(e.left, depth + 1)
    if isinstance(e, ast.BinOp) and isinstance(e.op, ast.Add):
        return str_typed(e.left, depth + 1) and str_typed(e.right, depth + 1)
    if isinstance(e, ast.IfExp):
        return str_typed(e.body, depth + 1) and str_typed(e.orelse, depth + 1)
    return False


def _str_pair(e):
    return isinstance(e, ast.Tuple) and len(e.elts) == 2 and all(str_typed(x) for x in e.elts)


def raw_pair_list(v):
    """``v`` builds a ``list`` whose items are not known to be ``(str, str)`` pairs: a display with other items, a list
    comprehension with another element, ``list(x)`` / ``sorted(x)`` of anything.  -> text, or None."""
    if isinstance(v, ast.List):
        bad = [x for x in v.elts if not _str_pair(x)]
        return 'the list display %s' % short(v, 50) if bad else None
    if isinstance(v, ast.ListComp):
        return None if _str_pair(v.elt) else 'the list comprehension %s' % short(v, 60)
    if isinstance(v, ast.Call) and isinstance(v.func, ast.Name) and v.func.id in ('list', 'sorted') and v.args:
        a = v.args[0]
        if isinstance(a, (ast.List, ast.ListComp, ast.GeneratorExp)) and (
                (isinstance(a, ast.List) and all(_str_pair(x) for x in a.elts)) or (not isinstance(a, ast.List) and _str_pair(a.elt))):
            return None
        return 'the list %s' % short(v, 50)
    if isinstance(v, ast.BinOp) and isinstance(v.op, ast.Add):
        return raw_pair_list(v.left) or raw_pair_list(v.right)
    if isinstance(v, ast.IfExp):
        return raw_pair_list(v.body) or raw_pair_list(v.orelse)
    if isinstance(v, ast.BoolOp):
        for x in v.values:
            t = raw_pair_list(x)
            if t:
                return t
    return None


def headers_list_is_verbatim(repo):
    """The fact about the pinned werkzeug this rule rests on, read from its source: ``Headers.__init__`` extends its internal
    list with a ``list`` argument as it is (``isinstance(defaults, (list, ..))`` -> ``self._list.extend(defaults)``), while any
    other iterable / mapping goes through ``self.extend`` -> ``add``, which normalises every value.  -> True / False; None when
    the source is not found."""
    try:
        m = repo.try_mod('werkzeug.datastructures')
    except AnalysisError:
        m = None
    if m is None or 'Headers' not in m.classes or '__init__' not in m.classes['Headers'].methods:
        return None
    init = m.classes['Headers'].methods['__init__']
    ps = init.params()
    if len(ps) < 2:
        return None
    for n in ast.walk(init.node):
        if isinstance(n, ast.If) and isinstance(n.test, ast.Call) and isinstance(n.test.func, ast.Name) and n.test.func.id == 'isinstance' and \
                len(n.test.args) == 2 and norm(n.test.args[0]) == ps[1]:
            kinds = [norm(x) for x in (n.test.args[1].elts if isinstance(n.test.args[1], ast.Tuple) else [n.test.args[1]])]
            verbatim = any(isinstance(c, ast.Call) and isinstance(c.func, ast.Attribute) and c.func.attr == 'extend' and
                           norm(c.func.value).startswith('self._') and [norm(a) for a in c.args] == [ps[1]] for b in n.body for c in ast.walk(b))
            if 'list' in kinds and verbatim:
                return True
    return False


def handed_headers(fi, c, pos, st_):
    """[(value expression, statement it is evaluated at)] -- what call ``c`` passes as ``headers``: the keyword / positional
    argument, or the entry ``'headers'`` of a mapping passed as ``**m`` when ``m`` is a local dict this function builds (a
    display / ``dict(k=v)`` plus ``m['headers'] = v`` / ``m.update(headers=v)`` / ``m.setdefault('headers', v)``).  The
    function's own ``**kwargs`` passed on is the caller's choice (as given): [].  None when no headers are passed."""
    h = argn(c, 'headers', pos)
    if h is not None:
        return [(h, st_)]
    out, seen_star = [], False
    own_kw = fi.node.args.kwarg.arg if fi.node.args.kwarg else None
    for k in c.keywords:
        if k.arg is not None:
            continue
        seen_star = True
        v = k.value
        if isinstance(v, ast.Name) and v.id == own_kw:
            continue
        if isinstance(v, ast.Dict):
            disp, name = v, None
        elif isinstance(v, ast.Name) and v.id not in fi.params():
            name = v.id
            vals = [x for x in assigned_value(fi.node, name) if not isinstance(x[1], ast.AugAssign)]
            if len(vals) != 1 or vals[0][2] is not None:
                raise AnalysisError('%s passes **%s to the werkzeug response constructor: a mapping that is not built in one place' % (fi.qualname, name))
            disp = vals[0][1]
        else:
            raise AnalysisError('%s passes **%s to the werkzeug response constructor: not followed' % (fi.qualname, short(v, 30)))
        if isinstance(disp, ast.Dict):
            for kk, vv in zip(disp.keys, disp.values):
                if kk is None:
                    if not (isinstance(vv, ast.Name) and vv.id == own_kw):
                        raise AnalysisError('%s: the mapping passed as ** merges %s, which is not followed' % (fi.qualname, short(vv, 30)))
                elif isinstance(kk, ast.Constant) and kk.value == 'headers':
                    out.append((vv, stmt_of(fi.mod, disp) or st_))
                elif not isinstance(kk, ast.Constant):
                    raise AnalysisError('%s: the mapping passed as ** has a computed key' % fi.qualname)
        elif isinstance(disp, ast.Call) and isinstance(disp.func, ast.Name) and disp.func.id == 'dict' and \
                all(a_ is not None for a_ in [kw_.arg for kw_ in disp.keywords]) and \
                (not disp.args or (len(disp.args) == 1 and isinstance(disp.args[0], ast.Name) and disp.args[0].id == own_kw)):
            out.extend((kw_.value, stmt_of(fi.mod, disp) or st_) for kw_ in disp.keywords if kw_.arg == 'headers')
        else:
            raise AnalysisError('%s passes **%s to the werkzeug response constructor: %s is not a dict display / dict(k=v)' % (fi.qualname, name, short(disp, 30)))
        if name is not None:
            for n in walk_body(fi.node):
                if isinstance(n, ast.Subscript) and isinstance(n.ctx, ast.Store) and isinstance(n.value, ast.Name) and n.value.id == name:
                    par = fi.mod.parents.get(n)
                    if isinstance(n.slice, ast.Constant):
                        if n.slice.value == 'headers' and isinstance(par, ast.Assign):
                            out.append((par.value, par))
                    else:
                        raise AnalysisError('%s stores into the mapping passed as ** under a computed key' % fi.qualname)
                elif isinstance(n, ast.Call) and isinstance(n.func, ast.Attribute) and isinstance(n.func.value, ast.Name) and n.func.value.id == name:
                    if n.func.attr == 'update':
                        if n.args:
                            raise AnalysisError('%s updates the mapping passed as ** from another mapping: not followed' % fi.qualname)
                        out.extend((kw_.value, stmt_of(fi.mod, n)) for kw_ in n.keywords if kw_.arg == 'headers')
                    elif n.func.attr == 'setdefault' and len(n.args) == 2 and isinstance(n.args[0], ast.Constant):
                        if n.args[0].value == 'headers':
                            out.append((n.args[1], stmt_of(fi.mod, n)))
                    elif n.func.attr not in ('get', 'pop', 'keys', 'items', 'values', 'copy'):
                        raise AnalysisError('%s: %s on the mapping passed as ** is not followed' % (fi.qualname, short(n, 40)))
    if out:
        return out
    return [] if seen_star and own_kw is not None and any(k.arg is None and isinstance(k.value, ast.Name) and k.value.id == own_kw for k in c.keywords) else \
        ([] if seen_star else None)


def bad_headers_value(fi, h, at):
    """Text when the value ``h`` (evaluated at statement ``at``) is, on some path, a list of pairs of unknown type that clastic
    assembled -- following locals through their reaching definitions and helpers of the tree through their returns."""
    bad = raw_pair_list(h)
    if bad is not None or not isinstance(h, ast.Name) or h.id in fi.params():
        return bad
    fl = effects.Flow(fi)
    seen, todo = set(), [(h.id, at)]
    while todo and bad is None:
        nm, at_ = todo.pop()
        if (nm, id(at_)) in seen or len(seen) > 12:
            continue
        seen.add((nm, id(at_)))
        for d in fl.reaching(nm, at_):
            if d.kind == 'aug':
                if any(x.kind == 'assign' and x.value is not None and isinstance(fl.unpacked(x)[0], (ast.List, ast.ListComp)) for x in fl.defs.get(nm, [])):
                    bad = 'a list extended in place (%s)' % short(d.stmt, 40)
                continue
            if d.kind != 'assign':
                continue
            v, vat = fl.unpacked(d)
            if v is None:
                continue
            bad = raw_pair_list(v)
            if bad:
                break
            if isinstance(v, ast.Name) and v.id not in fi.params():
                todo.append((v.id, d.stmt))
            elif isinstance(v, ast.Call):
                rc = resolve_callee(fi, v)
                if rc is not None:
                    # a helper of the tree that builds the value: what it returns
                    for r in returns_of(rc[0]):
                        if r.value is not None:
                            t = raw_pair_list(deref(rc[0], r.value))
                            if t:
                                bad = '%s, returned by %s' % (t, rc[0].qualname)
    return bad


def check_header_handover(rep):
    """R13.g -- "string header pairs": the values of the headers a caller gives an error / response object may be of any type
    (an int ``Retry-After``, a list for a multi-valued header); werkzeug's ``Headers`` turns them into ``str`` pairs when it is
    given a mapping, another iterable, or values through ``add`` / ``set`` / ``extend`` / item assignment -- but a ``list`` it
    takes verbatim.  So what clastic hands to a werkzeug response constructor as ``headers`` is the caller's object as
    given, ``None``, a mapping, a ``Headers`` object or a list of ``(str, str)`` pairs it wrote itself -- never a ``list`` it
    assembled from values of unknown type."""
    repo = rep.repo
    from .c12_ring import SERVER_MODS
    fact = headers_list_is_verbatim(repo)
    if fact is None:
        raise AnalysisError('werkzeug.datastructures.Headers.__init__ not found: cannot tell how a list of header pairs is treated')
    if fact is False:
        rep.ok('R13.g', 'werkzeug::Headers(list)', 'this werkzeug normalises a list argument of Headers() like any other: nothing to require')
        return

    def response_class(ci):
        try:
            mro = repo.mro(ci)
        except Exception:
            return False
        for b in mro:
            key = b.key if hasattr(b, 'key') else str(b)
            if key.startswith('werkzeug.') and key.rpartition('::')[2].rpartition('.')[2] in ('BaseResponse', 'Response'):
                return True
        return False

    def hands_to_werkzeug(fi, c):
        """-> positional index of ``headers`` in the callee's call (self excluded) when call ``c`` in fi runs a werkzeug response
        constructor: ``super(..).__init__(..)`` / ``Base.__init__(self, ..)`` in a class deriving from one, or a call of such a
        class that does not define its own ``__init__`` in the analysed tree."""
        f = c.func
        ci = fi.cls
        if isinstance(f, ast.Attribute) and f.attr == '__init__':
            if isinstance(f.value, ast.Call) and isinstance(f.value.func, ast.Name) and f.value.func.id == 'super' and ci is not None and response_class(ci):
                # the next __init__ in the MRO: only when that one is werkzeug's
                for b in repo.mro(ci)[1:]:
                    if hasattr(b, 'methods') and '__init__' in b.methods:
                        return 2 if b.mod.external and b.key.startswith('werkzeug.') else None
                return None
            if isinstance(f.value, ast.Name):
                kind, m_, obj = repo.resolve(fi.mod, f.value.id)
                if kind == 'class' and obj.mod.external and obj.key.startswith('werkzeug.') and response_class(obj):
                    return 3
            return None
        if isinstance(f, ast.Name) and f.id not in fi.params() and not assigned_value(fi.node, f.id):
            kind, m_, obj = repo.resolve(fi.mod, f.id)
            if kind == 'class' and response_class(obj):
                init = repo.find_method(obj, '__init__')
                if init is not None and init.mod.external and init.mod.name.startswith('werkzeug.'):
                    return 2
        return None
    n_sites = 0
    for m in repo.all_internal_modules():
        if m.name in SERVER_MODS:
            continue
        for fi in m.functions.values():
            if isinstance(fi.node, ast.Lambda):
                continue
            for c in walk_body(fi.node):
                if not isinstance(c, ast.Call):
                    continue
                if not (c.keywords or len(c.args) >= 3):
                    continue
                pos = hands_to_werkzeug(fi, c)
                if pos is None:
                    continue
                st_ = stmt_of(fi.mod, c)
                hs = handed_headers(fi, c, pos, st_)
                if hs is None:
                    continue
                n_sites += 1
                bad = None
                for h, at in hs:
                    bad = bad or bad_headers_value(fi, h, at)
                rep.check('R13.g', fkey(fi, 'headers handed to werkzeug'), bad is None,
                          'the headers handed to the werkzeug response constructor are the caller\'s object as given / None / a mapping / a Headers '
                          'object: every value goes through werkzeug\'s normalisation' if bad is None else
                          '%s hands %s to the werkzeug response constructor as headers: Headers() takes a list verbatim (no str() of the values, no '
                          'expansion of multi-valued entries), so a non-str value a caller supplied reaches start_response as it is' % (fi.qualname, bad),
                          fi.mod, st_)
    if not n_sites:
        raise AnalysisError('no place found where clastic hands headers to a werkzeug response constructor (HTTPException.__init__ ...)')


# ---- R13.b -----------------------------------------------------------------------------------------------------------
def _wrap_loops(fi):
    return [s for s in stmts_of(fi.node) if isinstance(s, (ast.For, ast.While)) and
            any(isinstance(c, ast.Call) and call_name(c) == '_safe_wrap_wsgi' for c in ast.walk(s))]


def find_wrap_loop(app, ai):
    """(kept for callers that only need the loop form) -> (function holding the loop, [loop], statement of __init__ at which
    it runs, {parameter of that function: argument expression in __init__})"""
    plan = wrap_plan(app, ai)
    return plan.fn, [plan.node], plan.site, plan.env


# -- the shapes in which the middlewares' wrappers are applied -----------------------------------------------------------
class WrapPlan(object):
    """How the constructor applies the middlewares' WSGI wrappers to the entry point.
      form       'loop'        for mw in ITER: self.slot = _safe_wrap_wsgi(.., mw, self.slot)
                 'accumulate'  acc = self.slot; for mw in ITER: acc = _safe_wrap_wsgi(.., mw, acc); self.slot = acc
                 'reduce'      self.slot = functools.reduce(step, ITER, self.slot), step(inner, mw) = _safe_wrap_wsgi(.., mw, inner)
      fn         the function holding the construct (``__init__`` or a method it calls), ``env``: that method's parameters
      node       the loop / the reduce statement; ``site``: the statement of ``__init__`` at which it runs
      iter       the iterable expression (in ``fn``)
      each_once  every element is wrapped exactly once, as the source, around the then-current stack
      stores     the statements that store into the slot"""
    __slots__ = ('fn', 'form', 'node', 'iter', 'site', 'env', 'each_once', 'stores')

    def __init__(self, fn, form, node, it, each_once, stores):
        self.fn, self.form, self.node, self.iter, self.each_once, self.stores = fn, form, node, it, each_once, stores
        self.site, self.env = node, {}


def reduce_call(fi, v):
    """(step, iterable, initial) of ``functools.reduce(step, iterable, initial)`` -- else None."""
    if not isinstance(v, ast.Call) or v.keywords or len(v.args) != 3 or any(isinstance(a, ast.Starred) for a in v.args):
        return None
    f = v.func
    imp = fi.mod.imports
    if isinstance(f, ast.Attribute) and isinstance(f.value, ast.Name) and f.attr == 'reduce' and imp.get(f.value.id) == ('functools', None) and \
            not assigned_value(fi.node, f.value.id) and f.value.id not in fi.params():
        return tuple(v.args)
    if isinstance(f, ast.Name) and imp.get(f.id) == ('functools', 'reduce') and not assigned_value(fi.node, f.id) and f.id not in fi.params():
        return tuple(v.args)
    return None


def wrap_step(app, fi, step):
    """Is ``step`` the reduce step that puts one more wrapper around the stack: a two-parameter function ``(inner, source)``
    of the analysed module (or a lambda) whose body is ``return _safe_wrap_wsgi(<name>, source, inner)``?
    -> True / False; None when the function cannot be followed."""
    if isinstance(step, ast.Lambda):
        a, body = step.args, step.body
    elif isinstance(step, ast.Name) and step.id not in fi.params() and not assigned_value(fi.node, step.id):
        kind, m, obj = fi.mod.repo.resolve(fi.mod, step.id)
        if kind != 'func' or m is None or m.external or obj.node.decorator_list:
            return None
        a = obj.node.args
        stmts = _body_sans_doc(obj.node)
        if len(stmts) != 1 or not isinstance(stmts[0], ast.Return) or stmts[0].value is None:
            return None
        body = stmts[0].value
    else:
        return None
    if a.vararg or a.kwarg or a.kwonlyargs or a.defaults or len(a.posonlyargs + a.args) != 2:
        return None
    p_inner, p_src = [x.arg for x in a.posonlyargs + a.args]
    if not (isinstance(body, ast.Call) and call_name(body) == '_safe_wrap_wsgi'):
        return None
    wa = wrap_args(app, body)
    return wa is not None and norm(wa[1]) == p_src and norm(wa[2]) == p_inner


def _loop_plan(app, fn, lp, slot):
    """The plan for a ``for`` loop that contains a wrapping call."""
    ws = wrap_stores(fn, lp)
    tgt = lp.target.id if isinstance(lp.target, ast.Name) else None
    if len(ws) == 1:
        wa = wrap_args(app, ws[0][1])
        cur = current_stack_arg(fn, wa[2], ws[0][0], slot) if wa is not None else None
        ok = wa is not None and tgt is not None and norm(wa[1]) == tgt and cur is not None
        if ok:
            # the loop body is that store (and the temporaries naming its value / the stack it wraps), nothing that skips or repeats a middleware
            allowed = set(id(x) for x in [ws[0][0]] + ws[0][2] + cur)
            ok = all(id(b) in allowed for b in lp.body) and not lp.orelse
        return WrapPlan(fn, 'loop', lp, lp.iter, ok, [ws[0][0]])
    if ws:
        return WrapPlan(fn, 'loop', lp, lp.iter, False, [w[0] for w in ws])
    # no store inside the loop: the stack is accumulated in a local and stored afterwards
    accs = [b for b in lp.body if isinstance(b, ast.Assign) and len(b.targets) == 1 and isinstance(b.targets[0], ast.Name) and
            isinstance(b.value, ast.Call) and call_name(b.value) == '_safe_wrap_wsgi']
    if len(accs) != 1:
        return WrapPlan(fn, 'accumulate', lp, lp.iter, False, [])
    acc = accs[0].targets[0].id
    wa = wrap_args(app, accs[0].value)
    ok = wa is not None and tgt is not None and tgt != acc and norm(wa[1]) == tgt and norm(wa[2]) == acc and lp.body == [accs[0]] and not lp.orelse
    vals = assigned_value(fn.node, acc)
    inits = [x for x in vals if x[0] is not accs[0]]
    ok = ok and acc not in fn.params() and len(vals) == 2 and len(inits) == 1 and inits[0][2] is None and isinstance(inits[0][0], ast.Assign) and \
        norm(inits[0][1]) == 'self.' + slot
    stores = [st for st in stmts_of(fn.node) if slot_store(st, slot) is not None]
    mine = [st for st in stores if isinstance(slot_store(st, slot), ast.Name) and slot_store(st, slot).id == acc]
    ok = ok and len(mine) == 1 and not any(mine[0] is x for x in ast.walk(lp))
    if ok:
        cfg = cfg_of(fn)
        i_nodes, l_nodes, s_nodes = set(cfg.nodes_of(inits[0][0])), set(cfg.nodes_of(lp)), set(cfg.nodes_of(mine[0]))
        ok = bool(i_nodes and l_nodes and s_nodes) and cfg.must_pass(i_nodes, cfg.entry, l_nodes) and cfg.must_pass(l_nodes, cfg.entry, s_nodes) and \
            not ((l_nodes | i_nodes) & cfg.reach([m for n in s_nodes for m in cfg.succ[n]])) and \
            not (i_nodes & cfg.reach([m for n in l_nodes for m in cfg.succ[n]], avoid=s_nodes)) and \
            slot_untouched_between(fn, i_nodes, s_nodes, slot)
    return WrapPlan(fn, 'accumulate', lp, lp.iter, bool(ok), mine)


def _plans_in(app, fn, slot):
    out = []
    for lp in _wrap_loops(fn):
        if not isinstance(lp, ast.For):
            out.append(WrapPlan(fn, 'while', lp, None, False, []))
        else:
            out.append(_loop_plan(app, fn, lp, slot))
    for st in stmts_of(fn.node):
        v = slot_store(st, slot)
        if v is None:
            continue
        v, temps = through_temps(fn, v)
        rc = reduce_call(fn, v)
        if rc is None:
            continue
        step = wrap_step(app, fn, rc[0])
        if step is None:
            raise AnalysisError('%s: the step function of the reduce that builds the WSGI stack (%s) cannot be followed' % (fn.qualname, short(rc[0])))
        cur = current_stack_arg(fn, rc[2], st, slot)
        loops_around = False
        cur_ = fn.mod.parents.get(st)
        while cur_ is not None and cur_ is not fn.node:
            if isinstance(cur_, (ast.For, ast.While)):
                loops_around = True
            cur_ = fn.mod.parents.get(cur_)
        out.append(WrapPlan(fn, 'reduce', st, rc[1], bool(step) and cur is not None and not loops_around, [st]))
    return out


def wrap_plan(app, ai, slot='_dispatch_wsgi'):
    """The construct that applies the middlewares' wrappers: in ``__init__`` itself, or in a method of the class that
    ``__init__`` calls as ``self.m(...)`` (then ``site`` is that call's statement and ``env`` binds the method's parameters
    to the argument expressions)."""
    plans = _plans_in(app, ai, slot)
    if not plans:
        for c in walk_body(ai.node):
            if isinstance(c, ast.Call) and isinstance(c.func, ast.Attribute) and isinstance(c.func.value, ast.Name) and c.func.value.id == 'self' \
                    and ai.cls is not None and c.func.attr in ai.cls.methods and c.func.attr != 'set_error_handler':
                m = ai.cls.methods[c.func.attr]
                for p in _plans_in(app, m, slot):
                    ps = m.params()[1:]
                    if any(isinstance(a, ast.Starred) for a in c.args) or any(k.arg is None for k in c.keywords):
                        raise AnalysisError('wrapping helper %s is called with */** arguments' % m.qualname)
                    p.env = dict(zip(ps, c.args))
                    for k in c.keywords:
                        p.env[k.arg] = k.value
                    p.site = stmt_of(ai.mod, c)
                    plans.append(p)
    if not plans:
        raise AnalysisError('no loop applying _safe_wrap_wsgi to the middlewares found in Application.__init__ or a method it calls')
    if len(plans) > 1:
        if all(p.fn is ai for p in plans):
            p = plans[0]
            p.each_once = False         # several wrapping constructs in the constructor: a middleware is wrapped more than once
            return p
        raise AnalysisError('several methods called by Application.__init__ apply _safe_wrap_wsgi in a loop')
    if plans[0].form == 'while':
        raise AnalysisError('the middleware wrapping loop is a while loop: its iteration order is not followed')
    return plans[0]


def wrapping_store(app, fi, st, slot='_dispatch_wsgi'):
    """Does statement ``st`` of method ``fi`` store into ``self.<slot>`` a wrapping of the slot's current value -- one of the
    shapes above (the call form also outside any loop, as in set_error_handler)?"""
    v = slot_store(st, slot)
    if v is None:
        return False
    v, temps = through_temps(fi, v)
    if isinstance(v, ast.Call) and call_name(v) == '_safe_wrap_wsgi':
        wa = wrap_args(app, v)
        return wa is not None and current_stack_arg(fi, wa[2], st, slot) is not None
    rc = reduce_call(fi, v)
    if rc is not None:
        return bool(wrap_step(app, fi, rc[0])) and current_stack_arg(fi, rc[2], st, slot) is not None
    if isinstance(v, ast.Name):
        for lp in _wrap_loops(fi):
            if isinstance(lp, ast.For):
                p = _loop_plan(app, fi, lp, slot)
                if p.form == 'accumulate' and p.each_once and any(st is x for x in p.stores):
                    return True
    return False


def check_wrap_order(rep, app):
    ai = app.func('Application.__init__')
    acfg = cfg_of(ai)
    plan = wrap_plan(app, ai)
    lf, site, env = plan.fn, plan.site, plan.env

    def resolve_src(e):
        e = deref(lf, e)
        if isinstance(e, ast.Name) and e.id in env:      # parameter of an extracted method: the caller's argument
            e = deref(ai, env[e.id])
        return e
    it = resolve_src(plan.iter)
    inner = reversal_of(it)
    if inner is None:
        # some other arrangement of the collected middlewares is a verdict; an iterable of unknown origin is not
        base = it
        while True:
            if isinstance(base, ast.Call) and isinstance(base.func, ast.Name) and base.func.id in ('list', 'tuple', 'iter', 'sorted', 'reversed') and base.args:
                base = resolve_src(base.args[0])
            elif isinstance(base, ast.Subscript) and isinstance(base.slice, ast.Slice):
                base = resolve_src(base.value)
            else:
                break
        if not (isinstance(base, ast.Call) and call_name(base) == '_get_all_middlewares'):
            raise AnalysisError('the middleware wrapping loop iterates %s: not derived from the collected middlewares in a way that is followed' % short(plan.iter))
    ok = inner is not None
    if ok:
        src = resolve_src(inner)
        gps = app.func('_get_all_middlewares').params()
        extra = [norm(a) for a in list(src.args[1:]) + [k.value for k in src.keywords if k.arg != gps[0]]] if isinstance(src, ast.Call) else []
        # the routes, optionally together with the application's own middleware list (R13.d judges that part)
        ok = isinstance(src, ast.Call) and call_name(src) == '_get_all_middlewares' and \
            norm(argn(src, gps[0], 0)) == 'self.routes' and all(x == 'self.middlewares' for x in extra) and len(extra) <= 1
    ok = ok and plan.each_once
    rep.check('R13.b', fkey(ai, 'wrap loop'), ok,
              'wrappers are applied innermost-first over the reverse of all middlewares, each wrapping the current stack: the first middleware ends up outermost' if ok else
              'Application.__init__ does not wrap self._dispatch_wsgi over reversed(_get_all_middlewares(self.routes))', ai.mod, plan.node if lf is ai else site)
    seh = [stmt_of(ai.mod, c) for c in walk_body(ai.node) if isinstance(c, ast.Call) and norm(c.func) == 'self.set_error_handler']
    ok = len(seh) == 1 and acfg.must_pass(acfg.nodes_of(seh[0]), acfg.entry, acfg.nodes_of(site)) and \
        not (set(acfg.nodes_of(seh[0])) & acfg.reach(acfg.nodes_of(site)))
    rep.check('R13.b', fkey(ai, 'error handler innermost'), ok, 'the error handler\'s wrapper is applied before (inside) all middleware wrappers' if ok else
              'set_error_handler does not run before the middleware wrapping loop', ai.mod, seh[0] if seh else ai.node)
    adds = [stmt_of(ai.mod, c) for c in walk_body(ai.node) if isinstance(c, ast.Call) and norm(c.func) == 'self.add']
    site_nodes = set(acfg.nodes_of(site))
    after = acfg.reach(list(site_nodes), include_src=False)
    ok = bool(adds) and all(acfg.nodes_of(a) and (site_nodes & acfg.reach(acfg.nodes_of(a))) and not (set(acfg.nodes_of(a)) & after) for a in adds)
    rep.check('R13.b', fkey(ai, 'wrappers after routes'), ok, 'wrappers are collected after the constructor\'s routes are bound' if ok else
              'the wrapping loop does not follow the binding of routes', ai.mod, ai.node)
    sh = app.func('Application.set_error_handler')
    w = [st for st in stmts_of(sh.node) if slot_store(st) is not None]
    # one wrapping store per path (the same statement repeated on exclusive branches is one wrapping; two in sequence are two)
    scfg = cfg_of(sh)
    ok = bool(w) and all(wrapping_store(app, sh, x) for x in w) and \
        not any(set(scfg.nodes_of(y)) & scfg.reach(scfg.nodes_of(x), include_src=False) for x in w for y in w)
    for x in (w if ok else []):
        v, _ = through_temps(sh, slot_store(x))
        ok = ok and isinstance(v, ast.Call) and call_name(v) == '_safe_wrap_wsgi'
    rep.check('R13.b', fkey(sh), ok, 'set_error_handler wraps the current stack with the handler\'s wsgi_wrapper' if ok else
              'set_error_handler does not wrap self._dispatch_wsgi', sh.mod, sh.node)


def _same_binding(fi, a, a_st, b, b_st):
    """Do expression ``a`` at statement ``a_st`` and expression ``b`` at statement ``b_st`` denote the same object?  True /
    False when the text decides it, None otherwise.  Decided: the same local name with no re-binding of it on a path
    between the two statements; two names for one single-assignment binding; two different names that are not."""
    cfg = cfg_of(fi)
    an, bn = set(cfg.nodes_of(a_st)), set(cfg.nodes_of(b_st))
    if not an or not bn:
        return None
    if isinstance(a, ast.Name) and isinstance(b, ast.Name) and a.id == b.id:
        mid = (cfg.between(an, bn) | cfg.between(bn, an)) - an - bn
        for st, _v, _i in assigned_value(fi.node, a.id):
            if set(cfg.nodes_of(st)) & mid or (isinstance(st, ast.ExceptHandler) and set(cfg.handler_nodes(st)) & mid):
                return False
        return True
    ra, rb = through_temps(fi, a)[0], through_temps(fi, b)[0]
    if ra is rb:
        return True
    if isinstance(ra, ast.Name) and isinstance(rb, ast.Name):
        return _same_binding(fi, ra, a_st, rb, b_st) if ra.id == rb.id else False
    return None


def check_handler_in_effect(rep, app, slot='_dispatch_wsgi', attr='error_handler'):
    """R13.b (handler in effect) -- whichever way ``set_error_handler`` arrives at the handler it installs (the one passed in,
    the default, the debug default: the two default *types* are class attributes a subclass is documented to override, so
    nothing is known about whether they carry a ``wsgi_wrapper``), the WSGI wrapper applied is that handler's:

      * every normal path through the method that stores ``self.error_handler`` also passes a wrapping store of the entry
        point (no test -- of the argument, of ``self.debug``, of a flag -- lets a path install a handler and skip it);
      * the ``source`` argument of each wrapping call denotes the object stored as ``self.error_handler`` on the same path
        (the same local, not re-bound in between; or ``self.error_handler`` itself, read after the store)."""
    sh = app.func('Application.set_error_handler')
    cfg = cfg_of(sh)
    ws = wrap_stores(sh)
    hs = [(s, slot_store(s, attr)) for s in stmts_of(sh.node) if slot_store(s, attr) is not None]
    if not hs:
        raise AnalysisError('set_error_handler: no store into self.%s found' % attr)
    if not ws or any(c is None or wrap_args(app, c) is None for _s, c, _t in ws):
        return      # judged by the 'wraps the current stack' obligation
    w_nodes = set(cfg.nodes_of_all([s for s, _c, _t in ws]))
    skipping = [h for h, _v in hs if cfg.nodes_of(h) and not cfg.must_pass(w_nodes, cfg.entry, cfg.nodes_of(h)) and
                not cfg.must_pass(w_nodes, cfg.nodes_of(h), cfg.exit)]
    ok = not skipping
    rep.check('R13.b', fkey(sh, 'handler in effect wrapped on every path'), ok,
              'every path that installs an error handler applies a wsgi_wrapper to the entry point' if ok else
              'a path through set_error_handler installs an error handler without applying its wsgi_wrapper (a handler type '
              'chosen by default may have one as well)', sh.mod, skipping[0] if skipping else sh.node)
    bad = unknown = None
    for s, c, _t in ws:
        src = wrap_args(app, c)[1]
        sn = set(cfg.nodes_of(s))
        for h, hv in hs:
            hn = set(cfg.nodes_of(h))
            if not sn or not hn or not ((cfg.reach(sn) & hn) or (cfg.reach(hn) & sn)):
                continue
            if norm(src) == 'self.' + attr:
                # read back from the attribute: only after the store, with no other store in between
                others = set(cfg.nodes_of_all([x for x, _ in hs if x is not h]))
                same = cfg.must_pass(hn, cfg.entry, sn) and not ((cfg.between(hn, sn) - hn - sn) & others)
                if not (cfg.reach(hn) & sn):
                    same = False
            else:
                same = _same_binding(sh, src, s, hv, h)
            if same is False and bad is None:
                bad = s
            elif same is None and unknown is None:
                unknown = (src, hv)
    if bad is None and unknown is not None:
        raise AnalysisError('set_error_handler: cannot relate the wrapped source %s to the stored handler %s' % (short(unknown[0]), short(unknown[1])))
    ok = bad is None
    rep.check('R13.b', fkey(sh, 'wrapped source is the handler in effect'), ok,
              'the wrapper applied is that of the object stored as self.%s' % attr if ok else
              'the wsgi_wrapper applied in set_error_handler is not that of the handler it installs', sh.mod, bad or sh.node)


def _comp_of(fi, expr):
    e = deref(fi, expr)
    return e if isinstance(e, (ast.GeneratorExp, ast.ListComp)) else None


def iteration_levels(fi, stmt):
    """The nest of iterations a statement runs under, outermost first, as [(target text, iterable expr)]: enclosing ``for``
    loops; a loop over ``chain.from_iterable(<comprehension>)`` / ``chain(*<comprehension>)`` or over a comprehension with
    several ``for`` clauses contributes the comprehension's own clauses.  None when a level cannot be described."""
    mod = fi.mod
    loops = []
    cur = mod.parents.get(stmt)
    while cur is not None and cur is not fi.node:
        if isinstance(cur, ast.While):
            return None
        if isinstance(cur, ast.For):
            loops.append(cur)
        cur = mod.parents.get(cur)
    loops.reverse()
    levels = []
    for lp in loops:
        if not isinstance(lp.target, ast.Name):
            return None
        it = deref(fi, lp.iter)
        if isinstance(lp.iter, ast.Name) and any(e.root == lp.iter.id for e in effects.effects_in(fi.node, aug_names=True)):
            it = lp.iter      # a list that is extended after it was created: its first value does not describe it (see _expand_group_walks)
        flat = None
        if isinstance(it, ast.Call) and norm(it.func) in ('itertools.chain.from_iterable', 'chain.from_iterable') and len(it.args) == 1 and not it.keywords:
            flat = _comp_of(fi, it.args[0])
            if flat is None:
                return None
        elif isinstance(it, ast.Call) and norm(it.func) in ('itertools.chain', 'chain') and len(it.args) == 1 and isinstance(it.args[0], ast.Starred):
            flat = _comp_of(fi, it.args[0].value)
            if flat is None:
                return None
        if flat is not None:
            if any(g.ifs or g.is_async or not isinstance(g.target, ast.Name) for g in flat.generators):
                return None
            for g in flat.generators:
                levels.append((g.target.id, g.iter))
            levels.append((lp.target.id, flat.elt))
            continue
        comp = it if isinstance(it, (ast.GeneratorExp, ast.ListComp)) else None
        if comp is not None:
            # for x in (E for a in A for b in B): x is E under the clauses
            if any(g.ifs or g.is_async or not isinstance(g.target, ast.Name) for g in comp.generators):
                return None
            for g in comp.generators:
                levels.append((g.target.id, g.iter))
            if isinstance(comp.elt, ast.Name) and comp.elt.id == comp.generators[-1].target.id:
                # the element is the innermost clause variable: the loop variable is that variable
                t, i = levels.pop()
                levels.append((lp.target.id, i))
            else:
                return None
            continue
        levels.append((lp.target.id, it))
    return levels


def _expand_group_walks(fi, st, levels):
    """A walk whose outermost loop runs over a local list of *groups* built in straight-line code (``groups = [a]`` ...
    ``groups.extend(r.ms for r in rs)`` ... ``for g in groups: for x in g:``) stands for one walk per segment of that
    list, in order: the outer variable is replaced by the segment's element.  -> [levels]; [levels] itself otherwise."""
    if not levels:
        return [levels]
    cur = fi.mod.parents.get(st)
    outer = None
    while cur is not None and cur is not fi.node:
        if isinstance(cur, ast.For):
            outer = cur
        cur = fi.mod.parents.get(cur)
    v0, it0 = levels[0]
    if outer is None or not isinstance(outer.iter, ast.Name) or not isinstance(outer.target, ast.Name) or outer.target.id != v0:
        return [levels]
    segs = list_segments(fi, outer.iter.id, outer)
    if segs is None:
        if any(e.root == outer.iter.id for e in effects.effects_in(fi.node, aug_names=True)):
            raise AnalysisError('%s: the list %s the walk runs over is modified in a way that is not followed' % (fi.qualname, outer.iter.id))
        return [levels]
    out = []
    for kind, e in segs:
        if kind == 'item':
            out.append([(t, _subst(i, {v0: e})) for t, i in levels[1:]])
            continue
        e = deref(fi, e)
        if isinstance(e, (ast.GeneratorExp, ast.ListComp)):
            if any(g.ifs or g.is_async or not isinstance(g.target, ast.Name) for g in e.generators):
                raise AnalysisError('%s: a filtered / destructuring comprehension feeds the list of groups' % fi.qualname)
            out.append([(g.target.id, g.iter) for g in e.generators] + [(t, _subst(i, {v0: e.elt})) for t, i in levels[1:]])
        else:
            out.append([(v0, e)] + list(levels[1:]))
    return out


def check_collect_middlewares(rep, app):
    gm = app.func('_get_all_middlewares')
    ps = gm.params()
    rets = returns_of(gm)
    ok = len(rets) == 1 and isinstance(rets[0].value, ast.Name) and 1 <= len(ps) <= 2
    if ok:
        rv = rets[0].value.id
        init = single_value(gm, rv)
        ok = isinstance(init, ast.List) and not init.elts
        muts = [e for e in effects.effects_in(gm.node) if e.root == rv]
        apps = [e.node for e in muts if e.kind == 'mutcall' and e.method == 'append' and norm(e.target) == rv]
        ok = ok and len(muts) == len(apps) and 1 <= len(apps) <= 2 and \
            all(len(a.args) == 1 and isinstance(a.args[0], ast.Name) and not a.keywords for a in apps)
        if ok:
            nested, flat = [], []
            # position in the function text as the rules see it (statements produced by the front-end out of one source
            # line -- a dissolved helper, a split chain(...) loop -- share a line number: the order is that of the tree)
            seq = dict((id(s_), i) for i, s_ in enumerate(stmts_of(gm.node)))
            for a in apps:
                el = a.args[0].id
                st = stmt_of(gm.mod, a)       # (the definition may live in another module than the anchor: its own parent map)
                levels = iteration_levels(gm, st)
                if levels is None:
                    raise AnalysisError('_get_all_middlewares: the iteration around %s is not a nest of for loops / chain.from_iterable / comprehension clauses' % short(st))
                cs = conds(gm, st)
                dedup = has_cond(cs, lambda t: norm(t) == '%s not in %s' % (el, rv), True) or \
                    has_cond(cs, lambda t: norm(t) == '%s in %s' % (el, rv), False)
                for k, lv in enumerate(_expand_group_walks(gm, st, levels)):
                    (nested if len(lv) == 2 else flat).append((a, el, st, lv, dedup, (seq[id(st)], k)))
            ok = len(nested) == 1 and all(w_[4] for w_ in nested + flat)
            if ok:
                a, el, st, levels = nested[0][:4]
                ok = levels[1][0] == el and norm(levels[1][1]) == '%s.middlewares' % levels[0][0]
                outer = levels[0][1]
                base = reversal_of(outer)
                ok = ok and norm(base if base is not None else outer) == ps[0]
            for a, el, st, levels, _, order in flat:
                # the application's own list, walked directly in list order, before the routes' middlewares
                ok = ok and len(levels) == 1 and levels[0][0] == el and len(ps) == 2 and norm(levels[0][1]) == ps[1] and \
                    bool(nested) and order < nested[0][5]
    rep.check('R13.b', fkey(gm), ok, 'the application\'s and each route\'s middlewares are walked in order; a type already collected is skipped '
              '(first occurrence kept)' if ok else
              '_get_all_middlewares no longer keeps list order with first-occurrence de-duplication', gm.mod, gm.node)


def _is_none(cs, name):
    """the path conditions say ``name is None``"""
    for t, p in cs:
        if isinstance(t, ast.Compare) and len(t.ops) == 1 and norm(t.left) == name and isinstance(t.comparators[0], ast.Constant) and \
                t.comparators[0].value is None:
            if (isinstance(t.ops[0], ast.Is) and p is True) or (isinstance(t.ops[0], ast.IsNot) and p is False):
                return True
    return False


def check_safe_wrap(rep, app):
    sw = app.func('_safe_wrap_wsgi')
    ps = sw.params()
    if len(ps) != 3:
        raise AnalysisError('_safe_wrap_wsgi does not take (source_name, source, inner)')
    # the local naming the wrapper: <source>.wsgi_wrapper with default None
    wnames = []
    for s in stmts_of(sw.node):
        if isinstance(s, ast.Assign) and len(s.targets) == 1 and isinstance(s.targets[0], ast.Name):
            v = s.value
            if isinstance(v, ast.Call) and call_name(v) == 'getattr' and len(v.args) == 3 and norm(v.args[0]) == ps[1] and \
                    isinstance(v.args[1], ast.Constant) and v.args[1].value == 'wsgi_wrapper' and isinstance(v.args[2], ast.Constant) and v.args[2].value is None:
                wnames.append(s.targets[0].id)
    wnames = [w for w in wnames if single_value(sw, w) is not None]
    if not wnames:
        # a lookup of 'wsgi_wrapper' there is, but not ``getattr(<source>, 'wsgi_wrapper', None)`` on the source itself (on its
        # class, on another object, with another default): a wrapper set on the instance is missed / something else is called
        other = [c for c in walk_body(sw.node) if isinstance(c, ast.Call) and call_name(c) == 'getattr' and len(c.args) >= 2 and
                 isinstance(c.args[1], ast.Constant) and c.args[1].value == 'wsgi_wrapper']
        if other:
            rep.check('R13.b', fkey(sw, 'no wrapper'), False, '_safe_wrap_wsgi does not take the wrapper from the source itself with default None: %s' %
                      '; '.join(short(c, 60) for c in other), sw.mod, sw.node)
            return
    if len(wnames) != 1:
        raise AnalysisError('_safe_wrap_wsgi: no single local holding getattr(%s, \'wsgi_wrapper\', None) found' % ps[1])
    W = wnames[0]
    r_inner = [r for r in returns_of(sw) if r.value is not None and norm(r.value) == ps[2]]
    ok = bool(r_inner) and all(_is_none(conds(sw, r), W) for r in r_inner)
    rep.check('R13.b', fkey(sw, 'no wrapper'), ok, 'without a wsgi_wrapper the inner callable is returned untouched' if ok else
              '_safe_wrap_wsgi does not return the inner callable untouched when there is no wrapper', sw.mod, sw.node)
    wr = [s for s in stmts_of(sw.node) if isinstance(s, ast.Assign) and isinstance(s.value, ast.Call) and norm(s.value.func) == W and
          len(s.targets) == 1 and isinstance(s.targets[0], ast.Name)]
    ok = len(wr) == 1 and [norm(a) for a in wr[0].value.args] == [ps[2]] and not wr[0].value.keywords
    if ok:
        res = alias_closure(sw, {wr[0].targets[0].id})
        others = [r for r in returns_of(sw) if r not in r_inner]
        ok = bool(others) and all(r.value is not None and norm(r.value) in res for r in others) and len(assigned_value(sw.node, wr[0].targets[0].id)) == 1
        chk = [c for c in walk_body(sw.node) if isinstance(c, ast.Call) and call_name(c) == 'check_valid_wsgi']
        ok = ok and len(chk) == 1 and len(chk[0].args) + len(chk[0].keywords) == 1 and norm(argn(chk[0], app.func('check_valid_wsgi').params()[0], 0)) in res
        if ok:
            scfg = cfg_of(sw)
            cst = stmt_of(sw.mod, chk[0])
            ok = all(scfg.must_pass(scfg.nodes_of(cst), scfg.entry, scfg.nodes_of(r), normal_only=True) for r in others)
    rep.check('R13.b', fkey(sw, 'wrap and validate'), ok, 'the wrapper is called with the inner callable; the result is validated and returned' if ok else
              '_safe_wrap_wsgi does not return the validated wsgi_wrapper(inner)', sw.mod, sw.node)


# -- check_valid_wsgi: which paths accept? -----------------------------------------------------------------------------
class _Sub(ast.NodeTransformer):
    def __init__(self, env):
        self.env = env

    def visit_Name(self, node):
        if isinstance(node.ctx, ast.Load) and node.id in self.env:
            return copy.deepcopy(self.env[node.id])
        return node

    def visit_Lambda(self, node):
        return node


def _subst(expr, env):
    return _Sub(env).visit(copy.deepcopy(expr)) if env else expr


def _truth(t):
    """Truth value of a test that is decided syntactically (constants, and/or/not over them), else None."""
    if isinstance(t, ast.Constant):
        return bool(t.value)
    if isinstance(t, ast.UnaryOp) and isinstance(t.op, ast.Not):
        v = _truth(t.operand)
        return None if v is None else not v
    if isinstance(t, ast.BoolOp):
        vs = [_truth(v) for v in t.values]
        if isinstance(t.op, ast.And):
            if any(v is False for v in vs):
                return False
            return True if all(v is True for v in vs) else None
        if any(v is True for v in vs):
            return True
        return False if all(v is False for v in vs) else None
    return None


def exit_paths(fi, env0=None, limit=400, depth=0):
    """Paths through a function without loops / try / with, with the values of its locals substituted into the tests:
    [(how the path ends: 'return' | 'raise', final statement or None, [(test, polarity)], returned value expr)].  A test
    that is a call (or ``not`` a call) of another such function of the module forks over *its* paths, so a decision
    delegated to a predicate helper is followed.  Raises AnalysisError for any other shape."""
    out = []

    def branch(t, env, cs, then, other, k_then, k_other):
        """fork on test t (already substituted)"""
        neg = False
        c = t
        while isinstance(c, ast.UnaryOp) and isinstance(c.op, ast.Not):
            c, neg = c.operand, not neg
        sub = None
        if isinstance(c, ast.Call) and depth < 2:
            rc = resolve_callee(fi, c)
            if rc is not None:
                benv = _bind_call(rc[0], c, rc[1])
                if benv is not None:
                    try:
                        sub = exit_paths(rc[0], benv, limit, depth + 1)
                    except AnalysisError:
                        sub = None
        if sub is None:
            tv = _truth(t)
            if tv is not False:
                run(then, dict(env), cs + [(t, True)], k_then)
            if tv is not True:
                run(other, dict(env), cs + [(t, False)], k_other)
            return
        for kind, st_, ccs, val in sub:
            if kind == 'raise':
                out.append(('raise', st_, cs + ccs, None))
                continue
            v = val if val is not None else ast.Constant(value=None)
            if neg:
                v = ast.UnaryOp(op=ast.Not(), operand=v)
            tv = _truth(v)
            if tv is not False:
                run(then, dict(env), cs + ccs + [(v, True)], k_then)
            if tv is not True:
                run(other, dict(env), cs + ccs + [(v, False)], k_other)

    def run(stmts, env, cs, k):
        """k: continuation (list of statement lists)"""
        if len(out) > limit:
            raise AnalysisError('%s: too many paths' % fi.qualname)
        if not stmts:
            if k:
                return run(k[0], env, cs, k[1:])
            out.append(('return', None, cs, None))
            return
        s, rest = stmts[0], stmts[1:]
        if isinstance(s, ast.Return):
            out.append(('return', s, cs, _subst(s.value, env) if s.value is not None else None))
        elif isinstance(s, ast.Raise):
            out.append(('raise', s, cs, None))
        elif isinstance(s, ast.If):
            t = _subst(s.test, env)
            branch(t, env, cs, list(s.body), list(s.orelse), [rest] + k, [rest] + k)
        elif isinstance(s, ast.Assign) and len(s.targets) == 1:
            t = s.targets[0]
            v = _subst(s.value, env)
            env = dict(env)
            if isinstance(t, ast.Name):
                env[t.id] = v
            elif isinstance(t, (ast.Tuple, ast.List)) and all(isinstance(e, ast.Name) for e in t.elts):
                for i, e in enumerate(t.elts):
                    if isinstance(v, (ast.Tuple, ast.List)) and len(v.elts) == len(t.elts):
                        env[e.id] = v.elts[i]
                    else:
                        env[e.id] = ast.Subscript(value=copy.deepcopy(v), slice=ast.Constant(value=i), ctx=ast.Load())
            else:
                for n in ast.walk(t):
                    if isinstance(n, ast.Name) and isinstance(n.ctx, ast.Store):
                        env.pop(n.id, None)
            run(rest, env, cs, k)
        elif isinstance(s, (ast.Expr, ast.Pass, ast.Assert)):
            run(rest, env, cs, k)
        else:
            raise AnalysisError('%s: cannot enumerate paths through %s' % (fi.qualname, type(s).__name__))
    run(_body_sans_doc(fi.node), dict(env0 or {}), [], [])
    return out


def _names_index(expr, param):
    """``get_arg_names(<param>)[:2][i]`` / ``get_arg_names(<param>)[i]`` -> i, else None"""
    if not (isinstance(expr, ast.Subscript) and isinstance(expr.slice, ast.Constant) and isinstance(expr.slice.value, int)):
        return None
    i = expr.slice.value
    base = expr.value
    if isinstance(base, ast.Subscript) and isinstance(base.slice, ast.Slice) and base.slice.lower is None and base.slice.step is None and \
            isinstance(base.slice.upper, ast.Constant) and isinstance(base.slice.upper.value, int) and 0 <= i < base.slice.upper.value:
        base = base.value
    if isinstance(base, ast.Call) and call_tail(base) == 'get_arg_names' and len(base.args) == 1 and norm(base.args[0]) == param and i >= 0:
        return i
    return None


def _leading_two(expr, param):
    """``get_arg_names(<param>)[:2]`` (also under list()/tuple())"""
    while isinstance(expr, ast.Call) and isinstance(expr.func, ast.Name) and expr.func.id in ('list', 'tuple') and len(expr.args) == 1:
        expr = expr.args[0]
    return isinstance(expr, ast.Subscript) and isinstance(expr.slice, ast.Slice) and expr.slice.lower is None and expr.slice.step is None and \
        isinstance(expr.slice.upper, ast.Constant) and expr.slice.upper.value == 2 and isinstance(expr.value, ast.Call) and \
        call_tail(expr.value) == 'get_arg_names' and len(expr.value.args) == 1 and norm(expr.value.args[0]) == param


def _folded_names(fi, b):
    """The sequence of names ``b`` stands for: a tuple / list display of constants, or a module-level name of ``fi``'s module
    (not a parameter / local of ``fi``) that folds -- single static assignment, constants only -- to a tuple / list of
    strings.  -> list of values, or None."""
    if isinstance(b, (ast.List, ast.Tuple)) and all(isinstance(e, ast.Constant) for e in b.elts):
        return [e.value for e in b.elts]
    if isinstance(b, ast.Name) and fi is not None and not isinstance(fi.node, ast.Lambda) and b.id not in fi.params():
        for n in ast.walk(fi.node):
            if isinstance(n, ast.Name) and n.id == b.id and isinstance(n.ctx, (ast.Store, ast.Del)):
                return None
            if isinstance(n, (ast.Global, ast.Nonlocal)) and b.id in n.names:
                return None
        try:
            v = fi.mod.const(b.id)
        except Exception:
            return None
        if isinstance(v, (tuple, list)) and all(isinstance(x, str) for x in v):
            return list(v)
    return None


def accepted_names(cs, param, fi=None):
    """{index: parameter name} the path conditions pin down for the leading argument names of ``param``.  A comparison of
    the leading two names as a whole with a sequence of constants counts position by position; the sequence may be a
    module constant of ``fi``'s module (folded)."""
    out = {}
    for t, p in expand_conds(cs):
        if not (isinstance(t, ast.Compare) and len(t.ops) == 1):
            continue
        eq = (isinstance(t.ops[0], ast.Eq) and p is True) or (isinstance(t.ops[0], ast.NotEq) and p is False)
        if not eq:
            continue
        for a, b in ((t.left, t.comparators[0]), (t.comparators[0], t.left)):
            if isinstance(b, ast.Constant) and isinstance(b.value, str):
                i = _names_index(a, param)
                if i is not None:
                    out[i] = b.value
            if _leading_two(a, param):
                vals = _folded_names(fi, b)
                if vals is not None:
                    for i, e in enumerate(vals):
                        out[i] = e
    return out


def check_valid_wsgi_rule(rep, app):
    cv = app.func('check_valid_wsgi')
    ps = cv.params()
    if len(ps) != 1:
        raise AnalysisError('check_valid_wsgi does not take exactly one parameter')
    paths = exit_paths(cv)
    accepting = [p for p in paths if p[0] == 'return']
    bad = [p for p in accepting if [accepted_names(p[2], ps[0], cv).get(i) for i in (0, 1)] != ['environ', 'start_response']]
    for p in bad:
        # a decision delegated to a function of the analysed tree that could not be followed is "cannot tell", not "wrong"
        for t, _ in p[2]:
            for c in ast.walk(t):
                if isinstance(c, ast.Call) and call_tail(c) != 'get_arg_names' and resolve_callee(cv, c) is not None:
                    raise AnalysisError('check_valid_wsgi: the accepting path depends on %s, which cannot be followed' % short(c))
    ok = bool(accepting) and not bad and any(raise_type(r) == 'TypeError' for r in raises_of(cv))
    rep.check('R13.b', fkey(cv), ok, 'a wrapped callable must take (environ, start_response): every path that does not raise has compared its first two '
              'parameter names with exactly these' if ok else 'check_valid_wsgi no longer checks the parameter names' +
              (' (accepts under %s)' % [('' if p else 'not ') + short(t, 60) for t, p in bad[0][2]] if bad else ''), cv.mod, cv.node)


# ---- R13.c -----------------------------------------------------------------------------------------------------------
def check_file_handover(rep, st):
    bfr = st.func('build_file_response')
    opens = [s for s in stmts_of(bfr.node) if isinstance(s, ast.Assign) and isinstance(s.value, ast.Call) and call_name(s.value) == 'open'
             and len(s.targets) == 1 and isinstance(s.targets[0], ast.Name)]
    all_opens = [c for c in walk_body(bfr.node) if isinstance(c, ast.Call) and call_name(c) == 'open']
    if not all_opens:
        raise AnalysisError('build_file_response: no open(...) call found (the file is opened elsewhere)')
    ok = len(opens) == 1 and len(all_opens) == 1
    if ok:
        fo = alias_closure(bfr, {opens[0].targets[0].id})
        if 'file_wrapper' not in bfr.params():
            raise AnalysisError('build_file_response has no file_wrapper parameter')
        hand = [s for s in stmts_of(bfr.node) if isinstance(s, ast.Assign) and len(s.targets) == 1 and isinstance(s.targets[0], ast.Attribute) and
                s.targets[0].attr == 'response' and isinstance(s.value, ast.Call) and norm(s.value.func) == 'file_wrapper' and
                len(s.value.args) >= 1 and norm(s.value.args[0]) in fo]
        bcfg = cfg_of(bfr)
        final = [r for r in returns_of(bfr) if set(bcfg.nodes_of(r)) & bcfg.reach(bcfg.nodes_of(opens[0]), normal_only=True)]
        ok = len(hand) == 1 and bool(final) and all(bcfg.must_pass(bcfg.nodes_of(hand[0]), bcfg.nodes_of(opens[0]), bcfg.nodes_of(r), normal_only=True) for r in final)
        # the response that gets the file is the one returned
        ok = ok and all(r.value is not None and norm(r.value) == norm(hand[0].targets[0].value) for r in final)
        mode = argn(opens[0].value, 'mode', 1)
        mode = st.repo.try_fold(mode, st) if mode is not None and not isinstance(mode, ast.Constant) else (mode.value if mode is not None else None)
        ok = ok and isinstance(mode, str) and 'b' in mode
    rep.check('R13.c', fkey(bfr, 'file handed to response'), ok,
              'the file opened (binary) for serving is wrapped by file_wrapper and becomes resp.response on every success path (closed by the response\'s close())' if ok else
              'the opened file is not handed to the response through file_wrapper on every success path', bfr.mod, opens[0] if opens else bfr.node)
    # ... and nobody replaces the body afterwards: the file wrapper is the only reference through which close()
    # releases the file, also for HEAD (werkzeug closes resp.response in Response.close())
    for fi_ in st.functions.values():
        if fi_ is bfr:
            continue
        names = local_aliases(fi_, 'build_file_response')
        bcalls = [c for c in walk_body(fi_.node) if isinstance(c, ast.Call) and call_name(c) in names]
        if not bcalls:
            continue
        resp_vars = set(norm(s.targets[0]) for s in stmts_of(fi_.node) if isinstance(s, ast.Assign) and isinstance(s.value, ast.Call)
                        and call_name(s.value) in names)
        resp_vars = alias_closure(fi_, resp_vars)
        drops = [e for e in effects.effects_in(fi_.node) if e.root in resp_vars and (e.chain or [None, None])[1:2] in (['response'], ['data'])] + \
            [c for c in walk_body(fi_.node) if isinstance(c, ast.Call) and call_tail(c) == 'set_data' and norm(c.func.value) in resp_vars]
        rep.check('R13.c', fkey(fi_, 'body not replaced'), not drops,
                  'the file response is returned with the body object build_file_response installed' if not drops else
                  '%s replaces the body of the file response (%s): the opened file is no longer reachable from the response and '
                  'close() cannot release it' % (fi_.qualname, [short(getattr(d, 'node', d)) for d in drops]), st,
                  getattr(drops[0], 'node', drops[0]) if drops else fi_.node)
        rets_ = returns_of(fi_)
        ok = bool(rets_) and all(r.value is not None and (norm(r.value) in resp_vars or any(r.value is c for c in bcalls)) for r in rets_)
        rep.check('R13.c', fkey(fi_, 'returns the file response'), ok, 'the response built for the file is what is returned' if ok else
                  '%s does not return the response that owns the file' % fi_.qualname, st, fi_.node)
    gfr = st.func('StaticApplication.get_file_response')
    pos = bfr.params().index('file_wrapper') if 'file_wrapper' in bfr.params() else None
    bcalls = [c for c in walk_body(gfr.node) if isinstance(c, ast.Call) and call_name(c) in local_aliases(gfr, 'build_file_response')]
    if not bcalls:
        raise AnalysisError('StaticApplication.get_file_response does not call build_file_response')
    fw = [argn(c, 'file_wrapper', pos) for c in bcalls]
    fw = [deref(gfr, v) if v is not None else None for v in fw]

    def from_environ(v):
        if not (isinstance(v, ast.Call) and call_tail(v) == 'get' and isinstance(v.func, ast.Attribute) and v.args and
                isinstance(v.args[0], ast.Constant) and v.args[0].value == 'wsgi.file_wrapper'):
            return False
        recv = deref(gfr, v.func.value)              # ``environ = request.environ``
        return isinstance(recv, ast.Attribute) and recv.attr == 'environ'
    ok = all(v is not None and from_environ(v) for v in fw)
    rep.check('R13.c', fkey(gfr, 'wsgi.file_wrapper'), ok, 'the server\'s wsgi.file_wrapper is used when offered' if ok else
              'wsgi.file_wrapper from the environ is not honoured', gfr.mod, gfr.node)
    sfi = st.func('StaticFileRoute.__init__')
    # the probe may sit in __init__ or in a function of the module __init__ calls
    holders = [sfi]
    for c in walk_body(sfi.node):
        if isinstance(c, ast.Call):
            rc = resolve_callee(sfi, c)
            if rc is not None and rc[0] not in holders:      # (a function of the analysed tree, whichever module it lives in)
                holders.append(rc[0])
    probes = [(h, c) for h in holders for c in walk_body(h.node) if isinstance(c, ast.Call) and call_name(c) == 'open']

    def closed(h, p):
        hcfg = cfg_of(h)
        par = h.mod.parents.get(p)
        gp = h.mod.parents.get(par)
        if isinstance(par, ast.Attribute) and par.attr == 'close' and isinstance(gp, ast.Call) and gp.func is par:
            return True                       # open(...).close()
        if isinstance(par, ast.withitem) and par.context_expr is p:
            return True                       # with open(...): the context manager closes it
        if isinstance(par, ast.Assign) and len(par.targets) == 1 and isinstance(par.targets[0], ast.Name) and par.value is p:
            nm = par.targets[0].id
            if len(assigned_value(h.node, nm)) != 1:
                return False
            cl = [stmt_of(h.mod, c) for c in walk_body(h.node) if isinstance(c, ast.Call) and isinstance(c.func, ast.Attribute) and
                  c.func.attr == 'close' and norm(c.func.value) == nm]
            return bool(cl) and hcfg.must_pass(hcfg.nodes_of_all(cl), hcfg.nodes_of(par), hcfg.exit, normal_only=True)
        return False
    if not probes:
        raise AnalysisError('StaticFileRoute.__init__: no probe open(...) found in it or in the functions of the module it calls')
    ok = all(closed(h, p) for h, p in probes)
    rep.check('R13.c', fkey(sfi, 'probe closed'), bool(ok), 'the construction-time probe is closed in the same statement' if ok else
              'StaticFileRoute.__init__ leaves its probe file open', sfi.mod, sfi.node)


def run(rep):
    repo = rep.repo
    app = repo.mod(APP)
    st = repo.mod(STATIC)
    rep.decide('R13.a exactly one WSGI delegate per path with untouched (environ, start_response); R13.b wrapper order; '
               'R13.c opened files handed to the response; R13.d application-level middlewares are wrapper sources '
               'independently of the routes; R13.e the wrapped entry point is never removed or replaced after construction; '
               'R13.f stores on the request object before dispatch cannot raise out of the WSGI callable; R13.g header values reach '
               'werkzeug through its normalising entry points')
    rep.decline('status-line / header validity, close() semantics, bytes-ness of bodies: inside werkzeug')
    rep.assume('werkzeug BaseResponse.__call__ calls start_response exactly once before yielding body bytes and omits the body for HEAD')
    rep.rule('R13.a', 'CFG: every path of _dispatch_wsgi ends in one delegate call with the original parameters')
    rep.rule('R13.b', 'sequence order of WSGI wrapping')
    rep.rule('R13.c', 'open / hand-over pairing')

    _group(rep, check_delegation, rep, app)
    rep.rule('R13.f', 'exception containment before dispatch: stores on the request object (configurable request_type) cannot raise out of the WSGI callable')
    _group(rep, check_request_stamping, rep, app)
    rep.rule('R13.g', 'header values of unknown type reach werkzeug only through its normalising entry points (never as a list clastic assembled)')
    _group(rep, check_header_handover, rep)
    _group(rep, check_wrap_order, rep, app)
    _group(rep, check_handler_in_effect, rep, app)
    _group(rep, check_collect_middlewares, rep, app)
    rep.rule('R13.d', 'the wrapper sources contain the application-level middlewares whether or not a route is bound')
    from .c13_wrappers import check_app_level_wrappers
    _group(rep, check_app_level_wrappers, rep, 'R13.d')
    rep.rule('R13.e', 'the WSGI entry point is only ever re-bound to a wrapping of its current value, by the application class; no spelling '
                      '(del, setattr / delattr, __dict__ / vars()) removes or replaces it')
    from .c13_entry import check_entry_point
    _group(rep, check_entry_point, rep, 'R13.e')
    from .chain import check_middleware_identity
    _group(rep, check_middleware_identity, rep, 'R13.b')
    _group(rep, check_safe_wrap, rep, app)
    _group(rep, check_valid_wsgi_rule, rep, app)
    if not rep.gaps:
        rep.floor('R13.b', 7)
    _group(rep, check_file_handover, rep, st)
    from .c13_body import check_body_replacement
    _group(rep, check_body_replacement, rep, 'R13.c')
