"""C13 -- An Application is a conforming WSGI application.

Decided:
  R13.a  exactly one delegate per path: every normal path through _dispatch_wsgi ends in exactly one of
         ``response(environ, start_response)`` / ``rre.wsgi_app(environ, start_response)``, called with the
         function's own two parameters unchanged; clastic core never calls start_response itself and never
         stores into environ (both: expected count 0, with positive controls); __call__ delegates to
         _dispatch_wsgi with the same two arguments.  => "exactly once, before any body bytes, no body for
         HEAD" is delegated to werkzeug's BaseResponse.__call__ (assumption), and a RerouteWSGI target
         receives the request's own environ object;
  R13.b  wrapper order: Application.__init__ wraps self._dispatch_wsgi in reversed(all_mws) order (first
         middleware outermost); _get_all_middlewares walks each bound route's middlewares in order and
         de-duplicates with ``not in`` keeping the first occurrence; set_error_handler wraps before the
         middleware loop (innermost); _safe_wrap_wsgi returns the inner callable untouched when there is no
         wrapper and validates the wrapped callable's first two parameter names;
  R13.c  files are handed to the response: in build_file_response the object returned by open() is
         passed to file_wrapper(...) and stored as resp.response on the success path;
         StaticFileRoute.__init__'s probe open(...) is closed in the same statement.
Declined: validity of status lines / header types, close() semantics, byte-ness of bodies (inside werkzeug).
"""
import ast

from ..core import AnalysisError, norm, short
from .. import effects
from .common import (cfg_of, fkey, conds, has_cond, stmts_of, walk_body, call_tail, call_name, returns_of, raises_of,
                     raise_type, stmt_of, kwarg, local_aliases)
from .noninterf import CORE_MODS

APP, STATIC = 'clastic.application', 'clastic.static'


def run(rep):
    repo = rep.repo
    app = repo.mod(APP)
    st = repo.mod(STATIC)
    rep.decide('R13.a exactly one WSGI delegate per path with untouched (environ, start_response); R13.b wrapper order; '
               'R13.c opened files handed to the response')
    rep.decline('status-line / header validity, close() semantics, bytes-ness of bodies: inside werkzeug')
    rep.assume('werkzeug BaseResponse.__call__ calls start_response exactly once before yielding body bytes and omits the body for HEAD')
    rep.rule('R13.a', 'CFG: every path of _dispatch_wsgi ends in one delegate call with the original parameters')
    rep.rule('R13.b', 'sequence order of WSGI wrapping')
    rep.rule('R13.c', 'open / hand-over pairing')

    # ---- R13.a -----------------------------------------------------------
    dw = app.func('Application._dispatch_wsgi')
    cfg = cfg_of(dw)
    env, sr = dw.params()[1:3]
    rets = returns_of(dw)
    delegates = []
    for r in rets:
        v = r.value
        ok = isinstance(v, ast.Call) and [norm(a) for a in v.args] == [env, sr] and not v.keywords
        kind = None
        if ok:
            fn = norm(v.func)
            if fn.endswith('.wsgi_app'):
                kind = 'reroute'
            else:
                kind = 'response'
        delegates.append((r, kind))
        rep.check('R13.a', fkey(dw, r), ok, 'returns %s(%s, %s): the delegate gets the original environ and start_response' % (norm(v.func) if ok else '?', env, sr) if ok else
                  '_dispatch_wsgi returns %s instead of a WSGI delegate call with (%s, %s)' % (short(v), env, sr), app, r)
    falls = cfg.exit in cfg.reach([cfg.entry], avoid=set(cfg.nodes_of_all(rets)), normal_only=True)
    rep.check('R13.a', fkey(dw, 'no fall-through'), not falls and bool(rets), 'every normal path ends in a delegate return' if not falls and rets else
              '_dispatch_wsgi can return None', app, dw.node)
    # exactly one delegate: no other call mentions start_response
    other = [c for c in walk_body(dw.node) if isinstance(c, ast.Call) and sr in [norm(a) for a in list(c.args) + [k.value for k in c.keywords]]
             and not any(c is r.value for r in rets)]
    rep.check('R13.a', fkey(dw, 'start_response passed once'), not other, 'start_response is only ever handed to the single delegate' if not other else
              'start_response is also passed to %s' % [short(c) for c in other], app, dw.node)
    # parameters never re-bound / mutated
    rebinds = [s for s in stmts_of(dw.node) if isinstance(s, (ast.Assign, ast.AugAssign)) and
               any(isinstance(n, ast.Name) and n.id in (env, sr) and isinstance(n.ctx, ast.Store) for n in ast.walk(s))]
    effs = [e for e in effects.effects_in(dw.node) if e.root in (env, sr)]
    rep.check('R13.a', fkey(dw, 'environ untouched'), not rebinds and not effs, 'environ / start_response are neither re-bound nor mutated' if not rebinds and not effs else
              'environ or start_response is modified before delegation: %s' % ([short(x) for x in rebinds] + [short(e.node) for e in effs]), app, dw.node)
    # response is the dispatch result; reroute comes from the caught exception
    resp_ret = [r for r, k in delegates if k == 'response']
    ok = len(resp_ret) == 1
    if ok:
        rv = norm(resp_ret[0].value.func)
        srcs = [s for s in stmts_of(dw.node) if isinstance(s, ast.Assign) and norm(s.targets[0]) == rv]
        ok = len(srcs) == 1 and norm(srcs[0].value) == 'self.dispatch(request)'
    rep.check('R13.a', fkey(dw, 'response is the dispatch result'), ok, 'the delegate is the response object dispatch() produced' if ok else
              'the called response is not the result of self.dispatch(request)', app, dw.node)
    call = app.func('Application.__call__')
    rs = returns_of(call)
    ok = len(rs) == 1 and isinstance(rs[0].value, ast.Call) and norm(rs[0].value.func) == 'self._dispatch_wsgi' and \
        [norm(a) for a in rs[0].value.args] == call.params()[1:3]
    rep.check('R13.a', fkey(call), ok, '__call__ delegates to self._dispatch_wsgi(environ, start_response) (the wrapped stack)' if ok else
              '__call__ does not delegate to self._dispatch_wsgi with its own arguments', app, call.node)
    # nobody in the core calls start_response or writes environ -- with positive control
    ctl = ast.parse('def f(environ, start_response):\n    start_response("200 OK", [])\n    environ["x"] = 1\n')
    c_calls = [c for c in ast.walk(ctl) if isinstance(c, ast.Call) and call_tail(c) == 'start_response']
    c_effs = [e for e in effects.effects_in(ctl.body[0]) if e.root == 'environ']
    if len(c_calls) != 1 or len(c_effs) != 1:
        raise AnalysisError('positive control for start_response/environ detectors failed')
    calls, writes = [], []
    for name in CORE_MODS + ['clastic.static', 'clastic.middleware.compress', 'clastic.middleware.client_cache', 'clastic.middleware.stats',
                             'clastic.middleware.cookie', 'clastic.middleware.profile', 'clastic.middleware.url', 'clastic.middleware.form',
                             'clastic.middleware.context', 'clastic.render.simple', 'clastic.render.tabular', 'clastic.meta']:
        m = repo.try_mod(name)
        if m is None:
            continue
        for fi in m.functions.values():
            for c in walk_body(fi.node):
                if isinstance(c, ast.Call) and call_tail(c) == 'start_response':
                    calls.append((m, fi, c))
            for e in effects.effects_in(fi.node):
                if e.root == 'environ' or (e.chain and 'environ' in e.chain):
                    writes.append((m, fi, e))
    rep.check('R13.a', 'clastic::start_response callers', not calls, 'no clastic function calls start_response itself (0 found; control matched)' if not calls else
              'start_response is called directly at %s' % [fi.key for _, fi, _ in calls], app)
    rep.check('R13.a', 'clastic::environ writers', not writes, 'no clastic function stores into a WSGI environ (0 found; control matched)' if not writes else
              'environ is written at %s' % [fi.key for _, fi, _ in writes], app)
    rep.floor('R13.a', 9)

    # ---- R13.b -----------------------------------------------------------
    ai = app.func('Application.__init__')
    acfg = cfg_of(ai)
    loops = [s for s in stmts_of(ai.node) if isinstance(s, ast.For) and any(isinstance(c, ast.Call) and call_name(c) == '_safe_wrap_wsgi' for c in ast.walk(s))]
    ok = len(loops) == 1
    if ok:
        lp = loops[0]
        it = lp.iter
        ok = isinstance(it, ast.Call) and call_name(it) == 'reversed' and isinstance(it.args[0], ast.Name)
        lst = norm(it.args[0]) if ok else None
        srcs = [s.value for s in stmts_of(ai.node) if isinstance(s, ast.Assign) and norm(s.targets[0]) == lst]
        ok = ok and len(srcs) == 1 and isinstance(srcs[0], ast.Call) and call_name(srcs[0]) == '_get_all_middlewares' and norm(srcs[0].args[0]) == 'self.routes'
        body = [b for b in lp.body if isinstance(b, ast.Assign)]
        ok = ok and len(lp.body) == 1 and len(body) == 1 and norm(body[0].targets[0]) == 'self._dispatch_wsgi' and \
            isinstance(body[0].value, ast.Call) and call_name(body[0].value) == '_safe_wrap_wsgi' and \
            norm(body[0].value.args[1]) == norm(lp.target) and norm(body[0].value.args[2]) == 'self._dispatch_wsgi'
    rep.check('R13.b', fkey(ai, 'wrap loop'), ok,
              'wrappers are applied innermost-first over reversed(all middlewares), each wrapping the current stack: the first middleware ends up outermost' if ok else
              'Application.__init__ does not wrap self._dispatch_wsgi over reversed(_get_all_middlewares(self.routes))', app, loops[0] if loops else ai.node)
    seh = [stmt_of(app, c) for c in walk_body(ai.node) if isinstance(c, ast.Call) and norm(c.func) == 'self.set_error_handler']
    ok = len(seh) == 1 and loops and acfg.must_pass(acfg.nodes_of(seh[0]), acfg.entry, acfg.nodes_of(loops[0])) and \
        not (set(acfg.nodes_of(seh[0])) & acfg.reach(acfg.nodes_of(loops[0])))
    rep.check('R13.b', fkey(ai, 'error handler innermost'), ok, 'the error handler\'s wrapper is applied before (inside) all middleware wrappers' if ok else
              'set_error_handler does not run before the middleware wrapping loop', app, seh[0] if seh else ai.node)
    routes_done = [s for s in stmts_of(ai.node) if isinstance(s, ast.For) and any(isinstance(c, ast.Call) and norm(c.func) == 'self.add' for c in ast.walk(s))]
    ok = bool(routes_done) and loops and acfg.must_pass(acfg.nodes_of_all(routes_done), acfg.entry, acfg.nodes_of(loops[0]))
    rep.check('R13.b', fkey(ai, 'wrappers after routes'), ok, 'wrappers are collected after the constructor\'s routes are bound' if ok else
              'the wrapping loop does not follow the binding of routes', app, ai.node)
    sh = app.func('Application.set_error_handler')
    w = [s for s in stmts_of(sh.node) if isinstance(s, ast.Assign) and norm(s.targets[0]) == 'self._dispatch_wsgi']
    ok = len(w) == 1 and isinstance(w[0].value, ast.Call) and call_name(w[0].value) == '_safe_wrap_wsgi' and norm(w[0].value.args[2]) == 'self._dispatch_wsgi'
    rep.check('R13.b', fkey(sh), ok, 'set_error_handler wraps the current stack with the handler\'s wsgi_wrapper' if ok else
              'set_error_handler does not wrap self._dispatch_wsgi', app, sh.node)
    gm = app.func('_get_all_middlewares')
    outer = [s for s in stmts_of(gm.node) if isinstance(s, ast.For) and s in gm.node.body]
    ok = len(outer) == 1
    if ok:
        inner = [s for s in outer[0].body if isinstance(s, ast.For)]
        ok = len(inner) == 1 and norm(inner[0].iter) == '%s.middlewares' % norm(outer[0].target)
        rv = norm(returns_of(gm)[0].value) if returns_of(gm) else None
        apps = [c for c in ast.walk(outer[0]) if isinstance(c, ast.Call) and norm(c.func) == '%s.append' % rv]
        ok = ok and len(apps) == 1 and norm(apps[0].args[0]) == norm(inner[0].target) and \
            has_cond(conds(gm, apps[0]), lambda t: norm(t) == '%s not in %s' % (norm(inner[0].target), rv), True)
        muts = [e for e in effects.effects_in(gm.node) if e.root == rv]
        ok = ok and len(muts) == 1
    rep.check('R13.b', fkey(gm), ok, 'each route\'s middlewares are walked in order; a type already collected is skipped (first occurrence kept)' if ok else
              '_get_all_middlewares no longer keeps list order with first-occurrence de-duplication', app, gm.node)
    from .chain import check_middleware_identity
    check_middleware_identity(rep, 'R13.b')
    sw = app.func('_safe_wrap_wsgi')
    scfg = cfg_of(sw)
    ps = sw.params()
    r_inner = [r for r in returns_of(sw) if norm(r.value) == ps[2]]
    ok = bool(r_inner) and all(has_cond(conds(sw, r), lambda t: norm(t) in ('wsgi_wrapper is None',), True) for r in r_inner)
    rep.check('R13.b', fkey(sw, 'no wrapper'), ok, 'without a wsgi_wrapper the inner callable is returned untouched' if ok else
              '_safe_wrap_wsgi does not return the inner callable untouched when there is no wrapper', app, sw.node)
    wr = [s for s in stmts_of(sw.node) if isinstance(s, ast.Assign) and isinstance(s.value, ast.Call) and norm(s.value.func) == 'wsgi_wrapper']
    ok = len(wr) == 1 and [norm(a) for a in wr[0].value.args] == [ps[2]] and any(norm(r.value) == norm(wr[0].targets[0]) for r in returns_of(sw))
    chk = [c for c in walk_body(sw.node) if isinstance(c, ast.Call) and call_name(c) == 'check_valid_wsgi']
    ok = ok and len(chk) == 1 and norm(chk[0].args[0]) == norm(wr[0].targets[0])
    rep.check('R13.b', fkey(sw, 'wrap and validate'), ok, 'the wrapper is called with the inner callable; the result is validated and returned' if ok else
              '_safe_wrap_wsgi does not return the validated wsgi_wrapper(inner)', app, sw.node)
    cv = app.func('check_valid_wsgi')
    txt = norm(cv.node)
    ok = "!= 'environ'" in txt and "!= 'start_response'" in txt and any(raise_type(r) == 'TypeError' for r in raises_of(cv))
    rep.check('R13.b', fkey(cv), ok, 'a wrapped callable must take (environ, start_response)' if ok else 'check_valid_wsgi no longer checks the parameter names', app, cv.node)
    rep.floor('R13.b', 7)

    # ---- R13.c -----------------------------------------------------------
    bfr = st.func('build_file_response')
    opens = [s for s in stmts_of(bfr.node) if isinstance(s, ast.Assign) and isinstance(s.value, ast.Call) and call_name(s.value) == 'open']
    ok = len(opens) == 1
    if ok:
        fo = norm(opens[0].targets[0])
        hand = [s for s in stmts_of(bfr.node) if isinstance(s, ast.Assign) and norm(s.targets[0]).endswith('.response') and
                isinstance(s.value, ast.Call) and norm(s.value.func) == 'file_wrapper' and norm(s.value.args[0]) == fo]
        bcfg = cfg_of(bfr)
        final = [r for r in returns_of(bfr) if set(bcfg.nodes_of(r)) & bcfg.reach(bcfg.nodes_of(opens[0]), normal_only=True)]
        ok = len(hand) == 1 and final and all(bcfg.must_pass(bcfg.nodes_of(hand[0]), bcfg.nodes_of(opens[0]), bcfg.nodes_of(r), normal_only=True) for r in final)
        mode = opens[0].value.args[1] if len(opens[0].value.args) > 1 else kwarg(opens[0].value, 'mode')
        ok = ok and isinstance(mode, ast.Constant) and 'b' in mode.value
    rep.check('R13.c', fkey(bfr, 'file handed to response'), ok,
              'the file opened (binary) for serving is wrapped by file_wrapper and becomes resp.response on every success path (closed by the response\'s close())' if ok else
              'the opened file is not handed to the response through file_wrapper on every success path', st, opens[0] if opens else bfr.node)
    # ... and nobody replaces the body afterwards: the file wrapper is the only reference through which close()
    # releases the file, also for HEAD (werkzeug closes resp.response in Response.close())
    for fi_ in st.functions.values():
        if fi_ is bfr:
            continue
        resp_vars = set(norm(s.targets[0]) for s in stmts_of(fi_.node) if isinstance(s, ast.Assign) and isinstance(s.value, ast.Call)
                        and call_name(s.value) in local_aliases(fi_, 'build_file_response'))
        if not resp_vars:
            continue
        drops = [e for e in effects.effects_in(fi_.node) if e.root in resp_vars and (e.chain or [None, None])[1:2] in (['response'], ['data'])] + \
            [c for c in walk_body(fi_.node) if isinstance(c, ast.Call) and call_tail(c) == 'set_data' and norm(c.func.value) in resp_vars]
        rep.check('R13.c', fkey(fi_, 'body not replaced'), not drops,
                  'the file response is returned with the body object build_file_response installed' if not drops else
                  '%s replaces the body of the file response (%s): the opened file is no longer reachable from the response and '
                  'close() cannot release it' % (fi_.qualname, [short(getattr(d, 'node', d)) for d in drops]), st,
                  getattr(drops[0], 'node', drops[0]) if drops else fi_.node)
        rets_ = returns_of(fi_)
        ok = bool(rets_) and all(norm(r.value) in resp_vars for r in rets_)
        rep.check('R13.c', fkey(fi_, 'returns the file response'), ok, 'the response built for the file is what is returned' if ok else
                  '%s does not return the response that owns the file' % fi_.qualname, st, fi_.node)
    gfr = st.func('StaticApplication.get_file_response')
    fw = [kwarg(c, 'file_wrapper') for c in walk_body(gfr.node) if isinstance(c, ast.Call) and call_name(c) in local_aliases(gfr, 'build_file_response')]
    ok = bool(fw) and all(v is not None and "request.environ.get('wsgi.file_wrapper'" in norm(v) for v in fw)
    rep.check('R13.c', fkey(gfr, 'wsgi.file_wrapper'), ok, 'the server\'s wsgi.file_wrapper is used when offered' if ok else
              'wsgi.file_wrapper from the environ is not honoured', st, gfr.node)
    sfi = st.func('StaticFileRoute.__init__')
    probes = [c for c in walk_body(sfi.node) if isinstance(c, ast.Call) and call_name(c) == 'open']
    ok = all(isinstance(st.parents.get(st.parents.get(p)), ast.Call) and call_tail(st.parents.get(st.parents.get(p))) == 'close' for p in probes) and probes
    rep.check('R13.c', fkey(sfi, 'probe closed'), bool(ok), 'the construction-time probe is closed in the same statement' if ok else
              'StaticFileRoute.__init__ leaves its probe file open', st, sfi.node)
