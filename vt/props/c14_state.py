"""C14 / R14.g -- the answer to a request is a function of that request and of the file system *as it is now*.

"Every regular file inside a search directory is served at its relative path (first search directory winning)" and "a
missing file yields a 404" are statements about the directory tree at the time of the request.  They cannot hold when
something a request learns (where a path was found, a file's time / size / type, a whole response) is kept in an
object that outlives the request and answers a later one: a file created, removed or shadowed in between is then
served wrongly.  Decided here, over the functions of clastic.static reachable from the two endpoints
(StaticApplication.get_file_response, StaticFileRoute.get_file_response):

  * writes -- every attribute / item store, delete, mutating method call, setattr, ``global`` assignment whose receiver
    is an object that outlives the activation (``self`` / ``cls``, a module-level object incl. a function's attributes,
    a parameter with a mutable default, anything reached through them -- also through local aliases and through
    arguments handed to a callee) is classified by what it stores and under which conditions: a value of the request or
    of a probe of the file system => VIOLATION; request-independent and idempotent => fine; anything else is followed
    to whether the slot is read while serving (not read => fine, read => ANALYSIS-ERROR: not followed);
  * wrappers -- no serving function is wrapped by a decorator / module-level re-binding that keeps results between
    calls (functools.lru_cache / cache, a decorator of the package whose wrapper stores into an object of the
    enclosing scope => VIOLATION; an unknown decorator decides what a call returns => ANALYSIS-ERROR).

Abstract domains only: {fresh, holds-shared, shared} for objects, {independent, unknown, live} for values.
"""
import ast

from ..core import AnalysisError, norm, short
from .common import fkey, stmts_of, walk_body, call_tail, returns_of, stmt_of
from ..astutil import assigned_value

STATIC = 'clastic.static'
FRESH, ELEMS, SHARED = 0, 1, 2          # the object itself is new / new, but holds shared objects / outlives the call
INDEP, UNKNOWN, LIVE = 0, 1, 2          # a value: the same for every request / not followed / of this request or of the file system now

ELEMENT_OF = ('get', 'setdefault', 'pop', 'popitem', '__getitem__')
VIEW_OF = ('values', 'items', 'keys', 'copy', '__iter__')
IDEMPOTENT_CALLS = ('update', 'setdefault', 'add', 'discard', 'clear')
SHALLOW_COPIES = ('copy.copy', 'dict', 'list', 'set', 'tuple', 'frozenset', 'sorted', 'reversed', 'iter', 'enumerate', 'OrderedDict')
# calls that look at the file system: what they return is true now, not later
FS_PROBES = {'open', 'getmtime', 'getsize', 'getctime', 'getatime', 'stat', 'lstat', 'fstat', 'isfile', 'isdir', 'exists', 'lexists',
             'islink', 'listdir', 'scandir', 'walk', 'access', 'realpath', 'samefile', 'read', 'readline', 'readlines', 'seek', 'tell',
             'is_file', 'is_dir', 'iterdir', 'glob', 'rglob', 'read_bytes', 'read_text', 'guess_type', 'fileno'}
PURE_BUILTINS = {'bool', 'int', 'float', 'str', 'bytes', 'len', 'tuple', 'list', 'dict', 'set', 'frozenset', 'sorted', 'reversed', 'min',
                 'max', 'sum', 'any', 'all', 'repr', 'isinstance', 'issubclass', 'getattr', 'hasattr', 'enumerate', 'zip', 'range', 'abs',
                 'round', 'iter', 'next', 'type', 'hash', 'format', 'callable', 'ord', 'chr', 'divmod', 'map', 'filter', 'unicode',
                 'OrderedDict'}
PURE_LIB_TAILS = {'join', 'pjoin', 'normpath', 'basename', 'dirname', 'splitext', 'split', 'isabs', 'normcase', 'commonprefix'}
PURE_METHODS = {'join', 'format', 'strip', 'lstrip', 'rstrip', 'lower', 'upper', 'title', 'encode', 'decode', 'replace', 'count', 'index',
                'find', 'rfind', 'startswith', 'endswith', 'split', 'rsplit', 'partition', 'rpartition', 'splitlines', 'zfill',
                'isoformat', 'total_seconds', 'translate', 'union', 'intersection', 'difference', 'issubset', 'issuperset',
                'timetuple', 'utctimetuple'} | set(ELEMENT_OF) | set(VIEW_OF)
CACHING_DECORATORS = {'lru_cache', 'cache', 'cached_property', 'cachedproperty', 'cached', 'cachedmethod', 'memoize', 'memoized', 'memo'}
NEUTRAL_DECORATORS = {'staticmethod', 'classmethod', 'contextmanager', 'wraps'}
MAX_DEPTH = 4


def _mutable_default(d):
    return isinstance(d, (ast.Dict, ast.List, ast.Set, ast.Call, ast.ListComp, ast.DictComp, ast.SetComp))


def _callee(repo, fi, call, fl=None, at=None):
    """Function of the analysed package a call names: module-level function, ``self`` / ``cls`` method, or a local that
    is a plain alias of one (``bfr = build_file_response``)."""
    from ..effects import callee_of
    f = call.func
    if isinstance(f, ast.Name) and (f.id in fi.params() or assigned_value(fi.node, f.id)):
        if f.id in fi.params():
            return None
        ds = assigned_value(fi.node, f.id)
        if len(ds) == 1 and ds[0][2] is None and isinstance(ds[0][1], (ast.Name, ast.Attribute)):
            fake = ast.copy_location(ast.Call(func=ds[0][1], args=call.args, keywords=call.keywords), call)
            if isinstance(ds[0][1], ast.Name) and (ds[0][1].id in fi.params() or assigned_value(fi.node, ds[0][1].id)):
                return None
            return callee_of(repo, fi, fake)
        return None
    return callee_of(repo, fi, call)


def _probes_inside(repo, fi, depth=0, seen=()):
    """Does the function (or one it calls, a few levels deep) look at the file system?"""
    if fi.key in seen or depth > 3:
        return False
    for c in walk_body(fi.node):
        if not isinstance(c, ast.Call):
            continue
        if call_tail(c) in FS_PROBES:
            return True
        sub = _callee(repo, fi, c)
        if sub is not None and sub.mod is fi.mod and _probes_inside(repo, sub, depth + 1, seen + (fi.key,)):
            return True
    return False


class Activation(object):
    """One function on the serving path: which of its expressions denote objects that outlive the call, and which
    values belong to the request being served (or to the state of the file system at that moment)."""

    def __init__(self, repo, fi, shared_params=(), stack=()):
        from ..effects import Flow
        self.repo, self.fi, self.fl = repo, fi, Flow(fi)
        self.params = set(fi.params())
        a = fi.node.args
        for x in (a.vararg, a.kwarg):
            if x is not None:
                self.params.add(x.arg)
        self.shared_params = set(shared_params)
        if fi.cls is not None and not any(isinstance(d, ast.Name) and d.id == 'staticmethod' for d in fi.node.decorator_list):
            pos0 = (a.posonlyargs + a.args)[:1]
            self.shared_params.update(x.arg for x in pos0)       # self / cls: the application / route object
        pos = a.posonlyargs + a.args
        self.mutable_defaults = set()
        for p_, d_ in list(zip(pos[len(pos) - len(a.defaults):], a.defaults)) + \
                [(p_, d_) for p_, d_ in zip(a.kwonlyargs, a.kw_defaults) if d_ is not None]:
            if _mutable_default(d_):
                self.mutable_defaults.add(p_.arg)       # a mutable default is one object for all calls
        self.shared_params |= self.mutable_defaults
        self.stack = stack + (fi.key,)
        self.globals_written = set()
        for st in stmts_of(fi.node):
            if isinstance(st, (ast.Global, ast.Nonlocal)):
                self.globals_written.update(st.names)

    def _is_local(self, name):
        return name in self.params or name in self.fl.defs

    # -- does the expression denote an object other activations see?
    def level(self, e, at, depth=0):
        if depth > 14 or e is None:
            return FRESH
        rec = lambda x, at_=at: self.level(x, at_, depth + 1)
        if isinstance(e, ast.Name):
            if e.id in self.shared_params or e.id in self.globals_written:
                return SHARED
            ds = self.fl.reaching(e.id, at) if e.id in self.fl.defs else []
            if e.id in self.params and not [d for d in ds if d.kind != 'entry']:
                return FRESH            # an argument of this request
            if e.id not in self.fl.defs:
                kind = self.repo.resolve(self.fi.mod, e.id)[0] if e.id not in self.params else 'param'
                return SHARED if kind in ('value', 'class', 'func', 'module') else FRESH
            lv = FRESH
            for d in ds:
                if d.kind == 'assign':
                    v, vat = self.fl.unpacked(d)
                    if v is not None:
                        lv = max(lv, self.level(v, vat, depth + 1))
                elif d.kind == 'iter':
                    lv = max(lv, SHARED if self.level(d.value, d.stmt, depth + 1) >= ELEMS else FRESH)
                elif d.kind == 'with':
                    lv = max(lv, self.level(d.value, d.stmt, depth + 1))
                elif d.kind == 'entry' and e.id in self.shared_params:
                    lv = SHARED
            return lv
        if isinstance(e, (ast.Attribute, ast.Subscript)):
            return SHARED if rec(e.value) >= ELEMS else FRESH
        if isinstance(e, (ast.Starred, ast.NamedExpr)):
            return rec(e.value)
        if isinstance(e, ast.BoolOp):
            return max(rec(v) for v in e.values)
        if isinstance(e, ast.IfExp):
            return max(rec(e.body), rec(e.orelse))
        if isinstance(e, (ast.List, ast.Tuple, ast.Set)):
            return ELEMS if any(rec(x) == SHARED for x in e.elts) else FRESH
        if isinstance(e, ast.Dict):
            return ELEMS if any((rec(v) == SHARED) if k is not None else (rec(v) >= ELEMS) for k, v in zip(e.keys, e.values)) else FRESH
        if isinstance(e, ast.Call):
            f = e.func
            fn = norm(f)
            if fn in ('copy.deepcopy', 'deepcopy'):
                return FRESH
            if fn == 'type' and len(e.args) == 1:
                return SHARED if rec(e.args[0]) == SHARED else FRESH
            if fn in ('getattr', 'next', 'vars') and e.args:
                return SHARED if rec(e.args[0]) >= ELEMS else FRESH
            if fn in ('globals',):
                return SHARED
            if fn in SHALLOW_COPIES or fn == 'copy':
                held = any(rec(x) >= ELEMS for x in e.args) or any((rec(k.value) == SHARED) if k.arg is not None else (rec(k.value) >= ELEMS)
                                                                   for k in e.keywords)
                return ELEMS if held else FRESH
            if isinstance(f, ast.Attribute) and f.attr in ELEMENT_OF:
                return SHARED if rec(f.value) >= ELEMS else FRESH
            if isinstance(f, ast.Attribute) and f.attr in VIEW_OF:
                return ELEMS if rec(f.value) >= ELEMS else FRESH
            callee = self._callee(e)
            if callee is not None and callee.key not in self.stack and len(self.stack) < MAX_DEPTH:
                from ..effects import returns_fresh
                if returns_fresh(self.repo, callee):
                    return FRESH
                sub = Activation(self.repo, callee, self._shared_args(callee, e, at), self.stack)
                return max([sub.level(r.value, r) for r in returns_of(callee) if r.value is not None] or [FRESH])
            return FRESH
        return FRESH

    def _callee(self, call):
        c = _callee(self.repo, self.fi, call)
        return c if c is not None and c.mod is self.fi.mod else None

    def _shared_args(self, callee, call, at):
        """Parameters of ``callee`` that receive an object outliving this activation."""
        ps = list(callee.params())
        if callee.cls is not None and isinstance(call.func, ast.Attribute) and ps:
            ps = ps[1:]
        out = set()
        for i, a in enumerate(call.args):
            if not isinstance(a, ast.Starred) and i < len(ps) and self.level(a, at) == SHARED:
                out.add(ps[i])
        for k in call.keywords:
            if k.arg in ps and self.level(k.value, at) == SHARED:
                out.add(k.arg)
        return out

    # -- does the value belong to the request being served / to the file system as it is now?
    def dep(self, e, at, seen=None, bound=frozenset(), depth=0):
        """(INDEP | UNKNOWN | LIVE, why)."""
        seen = set() if seen is None else seen
        if e is None:
            return INDEP, ''
        if depth > 30:
            return UNKNOWN, 'expression too deep to follow'

        def many(xs, at_=at, bound_=bound):
            best = (INDEP, '')
            for x in xs:
                if x is None:
                    continue
                r = self.dep(x, at_, seen, bound_, depth + 1)
                if r[0] > best[0]:
                    best = r
                if best[0] == LIVE:
                    break
            return best
        if isinstance(e, ast.Constant):
            return INDEP, ''
        if isinstance(e, ast.Name):
            if e.id in bound:
                return INDEP, ''
            if e.id in self.params and e.id not in self.fl.defs:
                return (INDEP, '') if e.id in self.shared_params else (LIVE, 'argument %s of the request being served' % e.id)
            if e.id not in self.fl.defs:
                return INDEP, ''            # a module-level object / builtin: the same for every request
            best = (INDEP, '')
            for d in self.fl.reaching(e.id, at):
                if d.kind == 'entry':
                    if e.id in self.params and e.id not in self.shared_params:
                        return LIVE, 'argument %s of the request being served' % e.id
                    continue
                k = (e.id, id(d.stmt), id(d.handler))
                if k in seen:
                    continue
                seen.add(k)
                if d.kind == 'exc':
                    r = (LIVE, 'an exception raised while serving this request')
                elif d.kind in ('def', 'del'):
                    r = (INDEP, '')
                elif d.kind == 'aug':
                    r = self.dep(d.stmt.value, d.stmt, seen, bound, depth + 1)
                else:
                    src = d.value if d.value is not None else getattr(d.stmt, 'value', None)
                    r = self.dep(src, d.stmt, seen, bound, depth + 1)
                if r[0] < LIVE:
                    c = many([t for t, _ in self.fl.conds(d.stmt)], d.stmt)
                    if c[0] > r[0]:
                        r = c
                if r[0] > best[0]:
                    best = r
                if best[0] == LIVE:
                    break
            return best
        if isinstance(e, ast.Attribute):
            return self.dep(e.value, at, seen, bound, depth + 1)
        if isinstance(e, ast.Subscript):
            return many([e.value, e.slice])
        if isinstance(e, ast.Slice):
            return many([e.lower, e.upper, e.step])
        if isinstance(e, (ast.BoolOp,)):
            return many(e.values)
        if isinstance(e, ast.BinOp):
            return many([e.left, e.right])
        if isinstance(e, ast.UnaryOp):
            return many([e.operand])
        if isinstance(e, ast.Compare):
            return many([e.left] + list(e.comparators))
        if isinstance(e, ast.IfExp):
            return many([e.test, e.body, e.orelse])
        if isinstance(e, (ast.Tuple, ast.List, ast.Set)):
            return many(e.elts)
        if isinstance(e, ast.Dict):
            return many(list(e.keys) + list(e.values))
        if isinstance(e, ast.JoinedStr):
            return many(e.values)
        if isinstance(e, ast.FormattedValue):
            return many([e.value, e.format_spec])
        if isinstance(e, (ast.Starred, ast.NamedExpr)):
            return many([e.value])
        if isinstance(e, (ast.ListComp, ast.SetComp, ast.GeneratorExp, ast.DictComp)):
            names = set(n.id for g in e.generators for n in ast.walk(g.target) if isinstance(n, ast.Name))
            inner = frozenset(bound | names)
            r = many([g.iter for g in e.generators])
            if r[0] == LIVE:
                return r
            parts = [x for g in e.generators for x in g.ifs] + ([e.key, e.value] if isinstance(e, ast.DictComp) else [e.elt])
            r2 = many(parts, at, inner)
            return r2 if r2[0] > r[0] else r
        if isinstance(e, ast.Call):
            return self._dep_call(e, at, seen, bound, depth, many)
        return UNKNOWN, 'expression %s is not followed' % short(e)

    def _dep_call(self, e, at, seen, bound, depth, many):
        f = e.func
        tail = call_tail(e)
        operands = [a for a in e.args] + [k.value for k in e.keywords]
        if tail in FS_PROBES and not (isinstance(f, ast.Name) and f.id in self.params):
            return LIVE, '%s looks at the file system as it is during this request' % short(e, 50)
        callee = self._callee(e)
        if callee is not None:
            if _probes_inside(self.repo, callee):
                return LIVE, '%s() looks at the file system as it is during this request' % callee.qualname
            r = many(operands)
            if r[0] == INDEP and isinstance(f, ast.Attribute):
                r = self.dep(f.value, at, seen, bound, depth + 1)
            return r
        if isinstance(f, ast.Name) and not self._is_local(f.id):
            kind = self.repo.resolve(self.fi.mod, f.id)[0]
            if f.id in PURE_BUILTINS and kind == 'unknown':
                return many(operands)
            if kind == 'class' or f.id in PURE_LIB_TAILS:
                return many(operands)
        if isinstance(f, ast.Attribute):
            if norm(f.value) in ('os.path', 'posixpath', 'ntpath') and f.attr in PURE_LIB_TAILS:
                return many(operands)
            if f.attr in PURE_METHODS:
                return many([f.value] + operands)
        r = many(operands + ([f.value] if isinstance(f, ast.Attribute) else [f]))
        if r[0] == LIVE:
            return r
        return UNKNOWN, 'what %s returns is not followed' % short(e, 50)

    # -- the writes of this activation into objects that outlive it
    def shared_writes(self, visited=None):
        """[(node, object written, (level, why), idempotent, activation)] for every store into an object that other
        requests see -- in this function and in the functions of the module it calls."""
        from ..effects import effects_in
        visited = {} if visited is None else visited
        mod, out = self.fi.mod, []
        visited.setdefault(self.fi.key, self.fi)
        for ef in effects_in(self.fi.node):
            at = ef.node if isinstance(ef.node, ast.stmt) else stmt_of(mod, ef.node)
            if ef.kind == 'mutcall' or ef.method in ('setattr', 'delattr'):
                obj = ef.target
            else:
                obj = ef.target.value
            if self.level(obj, at) != SHARED:
                continue
            if ef.kind == 'mutcall':
                operands = list(ef.node.args) + [k.value for k in ef.node.keywords]
                idem = ef.method in IDEMPOTENT_CALLS
            elif ef.method in ('setattr', 'delattr'):
                operands, idem = list(ef.node.args[1:]), ef.method == 'setattr'
            else:
                operands = [getattr(ef.node, 'value', None) if not isinstance(ef.node, (ast.For, ast.AsyncFor)) else ef.node.iter]
                if isinstance(ef.target, ast.Subscript):
                    operands.append(ef.target.slice)
                idem = isinstance(ef.node, (ast.Assign, ast.AnnAssign))
            out.append((ef.node, obj, self._what(operands, at), idem, self, ef.target))
        for st in stmts_of(self.fi.node):
            tg = st.targets if isinstance(st, ast.Assign) else [st.target] if isinstance(st, (ast.AugAssign, ast.AnnAssign)) else []
            for t in tg:
                for n in ast.walk(t):
                    if isinstance(n, ast.Name) and isinstance(n.ctx, ast.Store) and n.id in self.globals_written:
                        out.append((st, n, self._what([st.value], st), isinstance(st, ast.Assign), self, n))
        for c in walk_body(self.fi.node):
            callee = self._callee(c) if isinstance(c, ast.Call) else None
            if callee is None or callee.key in self.stack or len(self.stack) >= MAX_DEPTH:
                continue
            sub = Activation(self.repo, callee, self._shared_args(callee, c, stmt_of(mod, c)), self.stack)
            out.extend(sub.shared_writes(visited))
        return out

    def _what(self, operands, at):
        """(level, why) of what is stored, (level, why) of the conditions under which it is stored."""
        best = (INDEP, '')
        for o in operands:
            if o is None:
                continue
            r = self.dep(o, at)
            if r[0] > best[0]:
                best = r
        cbest = (INDEP, '')
        for t, _ in self.fl.conds(at):
            r = self.dep(t, at)
            if r[0] > cbest[0]:
                cbest = r
        return best, cbest


def _shared_name(act, obj, node):
    """Text naming the long-lived object a write goes to: the expression itself, and what a local alias stands for."""
    txt = norm(obj)
    if isinstance(obj, ast.Name):
        if obj.id in act.mutable_defaults:
            return '%s (the default value of the parameter: one object for all calls)' % txt
        if obj.id not in act.shared_params:
            at = node if isinstance(node, ast.stmt) else stmt_of(act.fi.mod, node)
            src = [norm(lf.value) for lf in act.fl.leaves(obj, at) if not lf.opaque and act.level(lf.value, lf.stmt) == SHARED]
            if src:
                return '%s (= %s, not a copy)' % (txt, ' / '.join(sorted(set(src))))
    return txt


def _slot_names(obj):
    """Names under which the written object can be read back: attribute names on the way and the root name."""
    out = set()
    cur = obj
    while isinstance(cur, (ast.Attribute, ast.Subscript, ast.Call)):
        if isinstance(cur, ast.Attribute):
            out.add(cur.attr)
            cur = cur.value
        elif isinstance(cur, ast.Subscript):
            cur = cur.value
        else:
            cur = cur.func
    if isinstance(cur, ast.Name) and cur.id not in ('self', 'cls'):
        out.add(cur.id)
    return out


def _read_while_serving(funcs, names, write_nodes):
    skip = set()
    for w in write_nodes:
        skip.update(id(n) for n in ast.walk(w) if isinstance(getattr(n, 'ctx', None), (ast.Store, ast.Del)))
    for fi in funcs:
        for n in ast.walk(fi.node):
            if id(n) in skip:
                continue
            if isinstance(n, ast.Attribute) and n.attr in names and isinstance(n.ctx, ast.Load):
                return fi
            if isinstance(n, ast.Name) and n.id in names and isinstance(n.ctx, ast.Load):
                return fi
    return None


# ---------------------------------------------------------------------------------------------- wrappers
def _deco_name(d):
    """(dotted text, last component) of a decorator expression, looking through a call (``@lru_cache(maxsize=None)``)."""
    while isinstance(d, ast.Call):
        d = d.func
    txt = norm(d)
    return txt, txt.rsplit('.', 1)[-1]


def _stores_outside(fnode):
    """A function nested in ``fnode`` that stores into an object it did not create itself (a variable of the enclosing
    function or of the module): the shape of a memo.  Returns the storing node or None."""
    from ..effects import effects_in, chain_of
    for inner in ast.walk(fnode):
        if inner is fnode or not isinstance(inner, (ast.FunctionDef, ast.AsyncFunctionDef)):
            continue
        own = set(x.arg for x in inner.args.posonlyargs + inner.args.args + inner.args.kwonlyargs)
        for x in (inner.args.vararg, inner.args.kwarg):
            if x is not None:
                own.add(x.arg)
        nonloc = set()
        for n in ast.walk(inner):
            if isinstance(n, ast.Name) and isinstance(n.ctx, ast.Store):
                own.add(n.id)
            if isinstance(n, (ast.Global, ast.Nonlocal)):
                nonloc.update(n.names)
        own -= nonloc
        for ef in effects_in(inner, nested=True):
            root = ef.root
            if root is not None and root not in own:
                return ef.node
        for n in ast.walk(inner):
            if isinstance(n, ast.Name) and isinstance(n.ctx, ast.Store) and n.id in nonloc:
                return n
    return None


def _judge_wrapper(repo, st, expr):
    """What wrapping a serving function in ``expr`` (a decorator, or the callee of ``f = expr(f)``) means:
    ('neutral' | 'cache' | 'unknown', text)."""
    txt, last = _deco_name(expr)
    if last in NEUTRAL_DECORATORS:
        return 'neutral', txt
    if last in CACHING_DECORATORS:
        return 'cache', txt
    root = txt.split('.')[0]
    try:
        kind, m, obj = repo.resolve(st, root)
    except Exception:
        kind, m, obj = 'unknown', None, None
    if kind == 'func' and m is not None and not m.external and '.' not in txt:
        w = _stores_outside(obj.node)
        if w is not None:
            return 'cache', '%s (its wrapper stores into an object of the enclosing scope: %s)' % (txt, short(w, 50))
    return 'unknown', txt


def check_wrappers(rep, rule, st, funcs):
    gaps = []
    for fi in funcs:
        wrappers = [(d, d) for d in fi.node.decorator_list]
        if fi.cls is None and '.' not in fi.qualname:
            for v in st.assigns.get(fi.qualname, []):
                # ``find_file = lru_cache(None)(find_file)`` at module level
                if v is fi.node:
                    continue
                if isinstance(v, ast.Call):
                    wrappers.append((v.func, v))
                else:
                    # another definition / binding of the name: which one a call reaches is not followed
                    wrappers.append((v if isinstance(v, ast.expr) else ast.Name(id='a second definition of %s' % fi.qualname, ctx=ast.Load()),
                                     v if v is not None else fi.node))
        verdicts = [(_judge_wrapper(repo_of(rep), st, w), node) for w, node in wrappers]
        bad = [(v, n) for v, n in verdicts if v[0] == 'cache']
        unk = [(v, n) for v, n in verdicts if v[0] == 'unknown']
        if bad:
            rep.fail(rule, fkey(fi, 'called per request'),
                     '%s is wrapped by %s, which keeps results between calls: a later request is answered from what an earlier one '
                     'found, not from the file system (a file created, removed or shadowed since is served wrongly)'
                     % (fi.qualname, bad[0][0][1]), st, bad[0][1])
        elif unk:
            gaps.append('%s is wrapped by %s, which is not followed (a wrapper decides what a call returns)' % (fi.qualname, unk[0][0][1]))
        else:
            rep.ok(rule, fkey(fi, 'called per request'), '%s runs on every call (no result-keeping wrapper)' % fi.qualname, st, fi.node)
    return gaps


def repo_of(rep):
    return rep.repo


# ---------------------------------------------------------------------------------------------- the rule
def serving_functions(repo, st, roots):
    """Functions of clastic.static reachable from the endpoints through calls (aliases of functions included)."""
    seen, order, todo = set(), [], list(roots)
    while todo:
        fi = todo.pop(0)
        if fi.key in seen:
            continue
        seen.add(fi.key)
        order.append(fi)
        for c in walk_body(fi.node):
            if isinstance(c, ast.Call):
                sub = _callee(repo, fi, c)
                if sub is not None and sub.mod is st:
                    todo.append(sub)
    return order


def check_history_free(rep, rule, st, roots):
    repo = rep.repo
    funcs = serving_functions(repo, st, roots)
    gaps = check_wrappers(rep, rule, st, funcs)
    writes = []
    for root in roots:
        writes.extend(Activation(repo, root).shared_writes())
    seen = set()
    n_live = 0
    for node, obj, ((lv, why), (clv, cwhy)), idem, act, target in writes:
        key = fkey(act.fi, 'shared write: %s' % norm(node))
        if key in seen:
            continue
        seen.add(key)
        what = _shared_name(act, obj, node)
        if lv == LIVE:
            n_live += 1
            rep.fail(rule, key, '%s writes to %s, an object that outlives the request, and what it stores belongs to this request (%s): '
                     'a later request is answered from this history instead of from the search directories as they are then'
                     % (short(node, 70), what, why), act.fi.mod, node)
            continue
        if lv == INDEP and clv == INDEP and idem:
            rep.ok(rule, key, 'write to %s stores the same thing for every request' % what, act.fi.mod, node)
            continue
        # a request-independent value, but stored only on some requests / accumulated / not followed: it is history only
        # if something on the serving path reads it back
        names = _slot_names(target)
        reader = _read_while_serving(funcs, names, [node]) if names else funcs[0]
        if reader is None:
            rep.ok(rule, key, 'write to %s is never read while serving' % what, act.fi.mod, node)
        else:
            gaps.append('%s writes to %s (%s) and %s reads it: whether an answer depends on it is not followed'
                        % (short(node, 60), what, why or ('whether it happens depends on the request: ' + cwhy if clv else '')
                           or 'it accumulates over the requests served', reader.qualname))
    if not n_live:
        rep.ok(rule, fkey(roots[0], 'per-request state'),
               'nothing a request learns is kept in an object that outlives it (%d function(s) on the serving path, %d write(s) to '
               'longer-lived objects, none request- or file-system-dependent)' % (len(funcs), len(writes)), st, roots[0].node)
    if gaps:
        raise AnalysisError('static serving: ' + '; '.join(gaps))
    return funcs
