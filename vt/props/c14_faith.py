"""C14 -- further structural clauses of "serves files faithfully" (rule groups R14.h, R14.i, R14.j of c14.py).

  R14.h  one file: within build_file_response the regular-file test, open(), the size and the type guess all speak
         about the *path parameter* (never re-bound), as the modification time already must (R14.d); the file is opened
         for reading in binary mode (the body is the exact bytes, Content-Length counts bytes).  A size / handle / test
         taken from another path expression is a violation: Content-Length and body no longer describe one file.
  R14.i  first search directory wins: find_file visits ``search_paths`` in the given order (the loop / generator iterates
         the parameter itself, or a plain list()/tuple() copy of it) and answers with the *first* regular file (the
         non-None answer leaves the loop at once: ``return`` inside the loop, ``break`` right after the assignment, or
         ``next(<generator>)``); StaticApplication.__init__ keeps the order it was given (stores the parameter, a
         one-element list of it, or a list()/tuple() copy).  reversed / sorted / set / a slice with a step re-order.
  R14.j  a 304 carries no body: the object returned on the 304 path is the response created with an empty body, and no
         store to its body (.response / .data / set_data / .stream) can reach that return.
  R14.k  like with like: the time compared with If-Modified-Since and the time sent as Last-Modified are the same function
         of the file (same callee of the package, same arguments once defaults are bound and constants folded; each use is
         resolved through its *reaching* definitions).
  R14.l  the Content-Type is guessed: mimetype argument, else guess_type(<served path>)[0], else default_binary_mime under
         is_binary_string(<bytes peek_file read from the opened file>) and default_text_mime otherwise.
  R14.m  cache_timeout (positive default), the default types, the route's mimetype and request.if_modified_since reach
         build_file_response from the constructor arguments / the request unchanged.
  R14.n  peek_file seeks back to the position noted by tell() before the read on every normal path to its exit;
         build_file_response never reads from the handle itself.
In R14.i the order is also followed through functions of the package (their return expressions, with the parameter
bound to the argument) and through accumulators (a list filled by append in a loop over the sequence keeps the order, a
set / a sort() / insert() does not).
"""
import ast

from ..core import AnalysisError, norm, short
from .common import cfg_of, fkey, stmts_of, walk_body, call_tail, call_name, returns_of, stmt_of, has_cond
from ..cfg import expand_conds

STATIC = 'clastic.static'
ORDER_KEEPING = ('list', 'tuple', 'iter', 'enumerate')
ORDER_BREAKING = ('reversed', 'sorted', 'set', 'frozenset')
BODY_ATTRS = ('response', 'data', 'stream', 'direct_passthrough')
BODY_CALLS = ('set_data',)


def _C():
    from . import c14
    return c14


# ---------------------------------------------------------------------------------------------- R14.h
def _speaks_of_param(C, fi, arg, pname):
    """'yes': every source of the argument is the parameter; 'wrapped': a one-argument call around it (not followed);
    'no' otherwise."""
    if arg is None:
        return 'no'
    ss = C._srcs(fi, arg)
    if ss and all(isinstance(x, ast.expr) and C._is_param(x, pname) for x in ss):
        return 'yes'
    if len(ss) == 1 and isinstance(ss[0], ast.Call) and len(ss[0].args) == 1 and not ss[0].keywords and \
            isinstance(ss[0].args[0], ast.Name) and ss[0].args[0].id == pname and call_tail(ss[0]) in ('str', 'fspath', 'abspath', 'fsencode', 'fsdecode'):
        return 'wrapped'
    return 'no'


def r14h(rep):
    C = _C()
    repo = rep.repo
    st = repo.mod(STATIC)
    bfr = st.func('build_file_response')
    rep.rule('R14.h', 'the regular-file test, open(), the size and the type guess of build_file_response all speak about the path '
             'parameter; the file is opened for reading in binary mode')
    pname = bfr.params()[0]
    rebound = [s for s, v, i in C.assigned_value(bfr.node, pname)]
    rep.check('R14.h', fkey(bfr, 'path parameter is not re-bound'), not rebound,
              '%s keeps the value it was called with' % pname if not rebound else
              'the path parameter %s is re-bound inside build_file_response: test, open and stat no longer speak about the path that '
              'was looked up' % pname, st, rebound[0] if rebound else bfr.node)
    gaps = []
    cfg = cfg_of(bfr)
    sites = {'open': [], 'getsize': [], 'guess_type': [], 'isfile': []}
    for c in walk_body(bfr.node):
        if isinstance(c, ast.Call):
            t = call_tail(c)
            if t == 'open' and call_name(c) != 'open':
                continue        # a method named open of something else
            if t in sites and c.args and not isinstance(c.args[0], ast.Starred):
                sites[t].append(c)
    if not sites['open']:
        raise AnalysisError('build_file_response: open() of the served file not found')
    labels = {'open': 'the file opened', 'getsize': 'the size sent as Content-Length', 'guess_type': 'the type guess',
              'isfile': 'the regular-file test'}
    for kind in ('isfile', 'open', 'getsize', 'guess_type'):
        for c in sites[kind]:
            if kind == 'isfile':
                # only the test that guards open() is an obligation of this rule
                bt = [(nid, t_, p_) for nid, t_, p_ in [(n,) + C._branch_test(cfg, n, t, p) for n, t, p in cfg.branches()] if t_ is c]
                if not bt:
                    continue
            v = _speaks_of_param(C, bfr, c.args[0], pname)
            if kind == 'guess_type' and v == 'no':
                ss = C._srcs(bfr, c.args[0])
                if ss and all(isinstance(x, ast.Call) and call_tail(x) == 'basename' and len(x.args) == 1 and not x.keywords and
                              _speaks_of_param(C, bfr, x.args[0], pname) == 'yes' for x in ss):
                    v = 'yes'       # the guess goes by the name only
                elif any(isinstance(n, ast.Name) and n.id == pname for x in ss if isinstance(x, ast.AST) for n in ast.walk(x)):
                    v = 'wrapped'
            if v == 'wrapped':
                gaps.append('%s is about %s, which is not followed' % (labels[kind], short(c.args[0])))
                continue
            rep.check('R14.h', fkey(bfr, '%s is about the served path' % kind), v == 'yes',
                      '%s is that of %s' % (labels[kind], pname) if v == 'yes' else
                      '%s is taken from %s, not from the path being served (%s): status, headers and body no longer describe one file'
                      % (labels[kind], short(c.args[0]), pname), st, c)
    # binary, read-only
    for c in sites['open']:
        mode = C._argn(bfr, c, 'mode', 1)
        if mode is None:
            val = 'r'
        else:
            val = None
            if isinstance(mode, ast.Constant):
                val = mode.value
            elif isinstance(mode, ast.Name) and mode.id in C._locals_of(bfr):
                ss = C._srcs(bfr, mode)
                if len(ss) == 1 and isinstance(ss[0], ast.Constant):
                    val = ss[0].value
            else:
                val = repo.try_fold(mode, st, None)
            if not isinstance(val, str):
                gaps.append('mode %s of open() is not a constant' % short(mode))
                continue
        ok = 'b' in val and not (set(val) & set('wax+'))
        rep.check('R14.h', fkey(bfr, 'open mode'), ok, 'the file is opened read-only in binary mode (%r)' % val if ok else
                  'the served file is opened with mode %r: %s' % (val, 'text mode decodes / translates the bytes and Content-Length '
                  '(a byte count) no longer matches the body' if 'b' not in val else 'serving must not open the file for writing'), st, c)
    if gaps:
        raise AnalysisError('build_file_response: ' + '; '.join(gaps))
    rep.floor('R14.h', 4)


# ---------------------------------------------------------------------------------------------- R14.i
def _order_of(C, fi, expr, pname):
    """How ``expr`` relates to the sequence parameter ``pname``: 'same' (the parameter, a list()/tuple() copy, a full
    slice, also through locals), 'reordered' (reversed / sorted / set / stepped slice of it), 'other' (not followed)."""
    return _kept_order(C, fi, expr, pname, single=False)


def r14i(rep):
    C = _C()
    repo = rep.repo
    st = repo.mod(STATIC)
    ff = st.func('find_file')
    rep.rule('R14.i', 'find_file visits the search paths in the given order and answers with the first regular file; '
             'StaticApplication keeps the order it was given')
    sp = ff.params()[0]
    joins = [c for c in walk_body(ff.node) if isinstance(c, ast.Call) and call_tail(c) in ('pjoin', 'join') and len(c.args) == 2]
    if not joins:
        raise AnalysisError('find_file: join of search path and relative path not found')
    mod = ff.mod
    for j in joins:
        # the construct that enumerates the roots: the innermost for / comprehension binding the root joined here
        root = j.args[0]
        cur, host, it = j, None, None
        while cur is not None and cur is not ff.node:
            par = mod.parents.get(cur)
            if isinstance(par, (ast.For, ast.AsyncFor)) and cur is not par.iter and isinstance(root, ast.Name) and \
                    any(isinstance(n, ast.Name) and n.id == root.id for n in ast.walk(par.target)):
                host, it = par, par.iter
                break
            if isinstance(par, (ast.GeneratorExp, ast.ListComp)):
                gens = [g for g in par.generators if isinstance(root, ast.Name) and any(isinstance(n, ast.Name) and n.id == root.id for n in ast.walk(g.target))]
                if gens:
                    host, it = par, gens[0].iter
                    break
            cur = par
        if host is None:
            raise AnalysisError('find_file: the loop over the search paths around %s not found' % short(j))
        how, at = _order_of(C, ff, it, sp)
        if how == 'other':
            raise AnalysisError('find_file: %s iterates %s, whose relation to %s is not followed' % (type(host).__name__, short(it), sp))
        rep.check('R14.i', fkey(ff, 'visits the search paths in order'), how == 'same',
                  'the candidates are built from %s in the given order' % sp if how == 'same' else
                  'find_file iterates %s: the search paths are not visited in the order given, so a later search directory can win '
                  'over an earlier one' % short(at), st, j)
        # first match wins
        if isinstance(host, (ast.For, ast.AsyncFor)):
            inside = set(id(n) for s in host.body for n in ast.walk(s))
            rets = [r for r in returns_of(ff) if not (r.value is None or (isinstance(r.value, ast.Constant) and r.value.value is None))]
            in_loop = [r for r in rets if id(r) in inside]
            after = [r for r in rets if id(r) not in inside]
            ok = bool(in_loop) and not after
            if after:
                # ``found = candidate; break`` ... ``return found``: every binding of the returned name made inside the
                # loop is followed at once by break
                ok = True
                for r in after:
                    if not isinstance(r.value, ast.Name):
                        raise AnalysisError('find_file: answer %s computed after the loop is not followed' % short(r.value))
                    binds = [s for s, v, i in C.assigned_value(ff.node, r.value.id) if id(s) in inside]
                    if not binds:
                        raise AnalysisError('find_file: answer %s is not bound inside the search loop' % r.value.id)
                    for b in binds:
                        blk = _block_of(mod, b)
                        nxt = blk[blk.index(b) + 1] if blk is not None and b in blk and blk.index(b) + 1 < len(blk) else None
                        if not isinstance(nxt, ast.Break) or _loop_of(mod, nxt) is not host:
                            ok = False
            rep.check('R14.i', fkey(ff, 'first match wins'), ok, 'the first regular file found ends the search' if ok else
                      'the search does not stop at the first regular file (the last search directory holding the file wins)', st, host)
        else:
            # a generator / list of candidates: consumed by next() (first) -- anything else is not followed here
            use = mod.parents.get(host)
            name = None
            stn = stmt_of(mod, host)
            if isinstance(stn, ast.Assign) and stn.value is host and len(stn.targets) == 1 and isinstance(stn.targets[0], ast.Name):
                name = stn.targets[0].id
            nexts = [c for c in walk_body(ff.node) if isinstance(c, ast.Call) and isinstance(c.func, ast.Name) and c.func.id == 'next' and c.args]

            def consumed(g, depth=0):
                """what next() draws from, peeled down to the candidates: 'first' / 'reordered' / None (something else)"""
                if depth > 6:
                    return None
                if g is host or (isinstance(g, ast.Name) and name is not None and g.id == name):
                    return 'first'
                if isinstance(g, ast.GeneratorExp) and len(g.generators) == 1:
                    return consumed(g.generators[0].iter, depth + 1)
                if isinstance(g, ast.Call) and isinstance(g.func, ast.Name) and g.func.id not in C._locals_of(ff) and not g.keywords:
                    if g.func.id in ('filter', 'map') and len(g.args) == 2:
                        return consumed(g.args[1], depth + 1)
                    if g.func.id in ORDER_KEEPING and len(g.args) == 1:
                        return consumed(g.args[0], depth + 1)
                    if g.func.id in ORDER_BREAKING and len(g.args) >= 1:
                        return 'reordered' if consumed(g.args[0], depth + 1) else None
                if isinstance(g, ast.Subscript) and isinstance(g.slice, ast.Slice):
                    inner = consumed(g.value, depth + 1)
                    if inner and g.slice.step is not None and not (isinstance(g.slice.step, ast.Constant) and g.slice.step.value in (1, None)):
                        return 'reordered'
                    return inner if g.slice.lower is None and g.slice.upper is None else None
                return None
            firsts = []
            for c in nexts:
                how_c = consumed(c.args[0])
                if how_c == 'reordered':
                    rep.fail('R14.i', fkey(ff, 'first match wins'), 'next() draws from %s: the candidates are not tried in the order of the '
                             'search paths, a later search directory can win over an earlier one' % short(c.args[0], 60), st, c)
                    firsts = None
                    break
                if how_c == 'first':
                    firsts.append(c)
            if firsts is None:
                continue
            loops = [s for s in stmts_of(ff.node) if isinstance(s, ast.For) and name is not None and isinstance(s.iter, ast.Name) and s.iter.id == name]
            if firsts and not loops:
                rep.ok('R14.i', fkey(ff, 'first match wins'), 'next() takes the first candidate that qualifies', st, firsts[0])
            elif loops and not firsts:
                inside = set(id(n) for lp in loops for s in lp.body for n in ast.walk(s))
                rets = [r for r in returns_of(ff) if not (r.value is None or (isinstance(r.value, ast.Constant) and r.value.value is None))]
                ok = bool(rets) and all(id(r) in inside for r in rets)
                rep.check('R14.i', fkey(ff, 'first match wins'), ok, 'the first regular file found ends the search' if ok else
                          'the search does not stop at the first regular file (the last search directory holding the file wins)', st, loops[0])
            else:
                raise AnalysisError('find_file: how the candidates %s are consumed is not followed' % short(host, 50))
    # the application keeps the order
    init = st.func('StaticApplication.__init__')
    stores = [s for s in stmts_of(init.node) if isinstance(s, ast.Assign) and any(norm(t) == 'self.search_paths' for t in s.targets)]
    if not stores:
        raise AnalysisError('StaticApplication.__init__: assignment of self.search_paths not found')
    ip = [p for p in init.params() if p != 'self']
    if not ip:
        raise AnalysisError('StaticApplication.__init__: search paths parameter not found')
    pname = 'search_paths' if 'search_paths' in ip else ip[0]
    for s in stores:
        how, at = _kept_order(C, init, s.value, pname)
        if how == 'other':
            raise AnalysisError('StaticApplication.__init__: self.search_paths = %s is not followed' % short(s.value))
        rep.check('R14.i', fkey(init, 'keeps the order of the search paths'), how == 'same',
                  'self.search_paths holds the search paths in the order given' if how == 'same' else
                  'self.search_paths is built with %s: the order of the search directories (first one wins) is lost' % short(at), st, s)
    rep.floor('R14.i', 3)


def _kept_order(C, fi, expr, pname, depth=0, seen=(), single=True):
    """(verdict, expression) -- see _order_of; with ``single`` a source may also be the one-element list / tuple of the
    parameter (a single directory given as a string)."""
    if depth > 8 or expr is None:
        return 'other', expr
    rec = lambda x, seen_=seen: _kept_order(C, fi, x, pname, depth + 1, seen_, single)
    if single and isinstance(expr, (ast.List, ast.Tuple)) and len(expr.elts) == 1 and isinstance(expr.elts[0], ast.Name):
        r = rec(expr.elts[0])
        return r if r[0] != 'other' else ('other', expr)
    if isinstance(expr, ast.Name):
        if expr.id in seen:
            return 'same', expr         # a re-binding in terms of itself: its other sources are judged by the caller
        ss = C._srcs(fi, expr)
        acc = _accumulated(C, fi, expr, ss, pname, depth, seen, single)
        if acc is not None:
            return acc
        if ss and all(isinstance(x, ast.expr) for x in ss):
            worst = ('same', expr)
            for x in ss:
                if C._is_param(x):
                    r = ('same', x) if C._is_param(x, pname) else ('other', x)
                elif x is expr:
                    r = ('other', x)
                else:
                    r = rec(x, seen + (expr.id,))
                if r[0] == 'reordered' or (r[0] == 'other' and worst[0] == 'same'):
                    worst = r
            return worst
        return 'other', expr
    if isinstance(expr, ast.Call):
        callee, skip = C._callee(C._Ctx(fi.mod, fi, None, 0), expr)
        if callee is not None:
            return _through_call(C, fi, expr, callee, skip, pname, depth, seen, single)
    if isinstance(expr, ast.Call) and isinstance(expr.func, ast.Name) and len(expr.args) >= 1 and not isinstance(expr.args[0], ast.Starred) \
            and expr.func.id not in C._locals_of(fi):
        inner = rec(expr.args[0])
        if expr.func.id in ORDER_KEEPING and not expr.keywords and len(expr.args) == 1:
            return inner
        if expr.func.id in ORDER_BREAKING and inner[0] != 'other':
            return 'reordered', expr
        return 'other', expr
    if isinstance(expr, ast.Subscript) and isinstance(expr.slice, ast.Slice):
        inner = rec(expr.value)
        sl = expr.slice
        if inner[0] == 'other':
            return inner
        if sl.step is not None and not (isinstance(sl.step, ast.Constant) and sl.step.value in (1, None)):
            return 'reordered', expr
        if sl.lower is None and sl.upper is None:
            return inner
        return 'other', expr
    if isinstance(expr, (ast.ListComp, ast.GeneratorExp, ast.SetComp)) and len(expr.generators) == 1 and not expr.generators[0].ifs:
        # [f(p) for p in search_paths]: one entry per search path, in order; {f(p) for p in ..}: no order
        inner = rec(expr.generators[0].iter)
        if isinstance(expr, ast.SetComp) and inner[0] == 'same':
            return 'reordered', expr
        return inner
    return 'other', expr


def _accumulated(C, fi, name, ss, pname, depth, seen, single):
    """A local that starts as an empty container and is filled, one entry per round, in a loop over the sequence: a list
    filled with append keeps the order of the loop; a set has no order of its own.  None when the local is not of that
    shape."""
    if len(ss) != 1 or not isinstance(ss[0], ast.expr):
        return None
    v = ss[0]
    if isinstance(v, (ast.List, ast.Tuple)) and not v.elts:
        kind = 'list'
    elif isinstance(v, ast.Call) and isinstance(v.func, ast.Name) and v.func.id in ('list', 'set') and not v.args and not v.keywords \
            and v.func.id not in C._locals_of(fi):
        kind = v.func.id
    elif isinstance(v, ast.Call) and isinstance(v.func, ast.Name) and v.func.id in ('set', 'frozenset') and len(v.args) == 1 and not v.keywords \
            and v.func.id not in C._locals_of(fi):
        return None         # set(<seq>): judged as a call
    else:
        return None
    mod = fi.mod
    fills = []
    for c in walk_body(fi.node):
        if isinstance(c, ast.Call) and isinstance(c.func, ast.Attribute) and isinstance(c.func.value, ast.Name) and c.func.value.id == name.id:
            if c.func.attr in ('append', 'add'):
                fills.append(c)
            elif c.func.attr in ('insert', 'sort', 'reverse', 'extend', 'update', 'remove', 'pop', 'discard', 'clear'):
                if c.func.attr in ('sort', 'reverse', 'insert'):
                    return 'reordered', c
                return 'other', c
    if not fills:
        return None
    verdict = ('same', name)
    for c in fills:
        loop = _loop_of(mod, stmt_of(mod, c))
        if not isinstance(loop, (ast.For, ast.AsyncFor)):
            return 'other', c
        r = _kept_order(C, fi, loop.iter, pname, depth + 1, seen + (name.id,), single)
        if r[0] == 'other':
            return 'other', c
        if r[0] == 'reordered':
            verdict = r
    if kind == 'set' and verdict[0] == 'same':
        return 'reordered', v       # collected into a set: the order of the loop is not kept
    return verdict


def _through_call(C, fi, call, callee, skip, pname, depth, seen, single):
    """The verdict for what a function of the package returns when it is handed the sequence."""
    node = callee.node
    if not isinstance(node, ast.FunctionDef) or node.decorator_list or not C._plain_args(call) or depth > 6 or \
            any(isinstance(n, (ast.Yield, ast.YieldFrom)) for n in walk_body(node)):
        return 'other', call
    pos = [x.arg for x in node.args.posonlyargs + node.args.args]
    given = {}
    for i, a in enumerate(call.args):
        if i + skip < len(pos):
            given[pos[i + skip]] = a
    for k in call.keywords:
        given[k.arg] = k.value
    related = [(p, _kept_order(C, fi, a, pname, depth + 1, seen, single)) for p, a in given.items()]
    related = [(p, r) for p, r in related if r[0] != 'other']
    if len(related) != 1:
        return 'other', call
    p, r_in = related[0]
    rets = [r for r in returns_of(callee) if r.value is not None]
    if not rets:
        return 'other', call
    worst = r_in
    for r in rets:
        v = _kept_order(C, callee, r.value, p, depth + 1, (), single)
        if v[0] == 'other':
            return 'other', call
        if v[0] == 'reordered':
            worst = v
    return worst


def _block_of(mod, st):
    par = mod.parents.get(st)
    for f in ('body', 'orelse', 'finalbody'):
        blk = getattr(par, f, None)
        if isinstance(blk, list) and st in blk:
            return blk
    if isinstance(par, ast.ExceptHandler) and st in par.body:
        return par.body
    return None


def _loop_of(mod, st):
    cur = mod.parents.get(st)
    while cur is not None and not isinstance(cur, (ast.For, ast.AsyncFor, ast.While, ast.FunctionDef, ast.AsyncFunctionDef, ast.Lambda)):
        cur = mod.parents.get(cur)
    return cur if isinstance(cur, (ast.For, ast.AsyncFor, ast.While)) else None


# ---------------------------------------------------------------------------------------------- R14.j
def r14j(rep):
    C = _C()
    repo = rep.repo
    st = repo.mod(STATIC)
    bfr = st.func('build_file_response')
    rep.rule('R14.j', 'the 304 answer is the response created with an empty body; nothing stores a body into it before it is returned')
    cfg = cfg_of(bfr)
    s304 = [s for s in stmts_of(bfr.node) if isinstance(s, ast.Assign) and isinstance(s.targets[0], ast.Attribute)
            and s.targets[0].attr in ('status_code', 'status') and str(repo.try_fold(s.value, st, '')).startswith('304')]
    if len(s304) != 1:
        raise AnalysisError('build_file_response: expected one 304 status assignment')
    n304 = cfg.nodes_of(s304[0])
    after304 = cfg.reach(n304, normal_only=True)
    rets = [r for r in returns_of(bfr) if set(cfg.nodes_of(r)) & after304]
    if not rets:
        raise AnalysisError('build_file_response: the return of the 304 response not found')
    resp = norm(s304[0].targets[0].value)
    for r in rets:
        ok = r.value is not None and norm(r.value) == resp
        rep.check('R14.j', fkey(bfr, '304 returns the response it marked'), ok, 'the object given status 304 is the one returned' if ok else
                  'the 304 path returns %s, not the response whose status was set (%s)' % (short(r.value) if r.value is not None else 'None', resp),
                  st, r)
    if not isinstance(s304[0].targets[0].value, ast.Name):
        raise AnalysisError('build_file_response: the response object %s is not a local' % resp)
    # how the response object is created: response_type(<empty body>)
    makers = C._srcs(bfr, s304[0].targets[0].value)
    ok = bool(makers)
    why = ''
    for m in makers:
        if not (isinstance(m, ast.Call) and isinstance(m.func, ast.Name) and m.func.id in bfr.params()):
            raise AnalysisError('build_file_response: the response object comes from %s, which is not followed'
                                % (short(m) if isinstance(m, ast.AST) else m))
        body = C._argn(bfr, m, 'response', 0)
        if body is None:
            continue
        marker = object()
        val = body.value if isinstance(body, ast.Constant) else marker
        if val is marker and isinstance(body, (ast.Name, ast.Attribute)) and not (isinstance(body, ast.Name) and body.id in C._locals_of(bfr)):
            val = repo.try_fold(body, st, marker)
        if val is marker:
            if isinstance(body, (ast.List, ast.Tuple)) and not body.elts:
                continue
            raise AnalysisError('build_file_response: initial body %s of the response is not a constant' % short(body))
        if val not in ('', b'', None):
            ok, why = False, short(body)
    rep.check('R14.j', fkey(bfr, 'response starts empty'), ok, 'the response object is created with an empty body' if ok else
              'the response object is created with the body %s, which the 304 answer then carries' % why, st, s304[0])
    # no store of a body reaches the 304 return
    ret_nodes = set(n for r in rets for n in cfg.nodes_of(r))
    bad = []
    for s in stmts_of(bfr.node):
        hit = None
        if isinstance(s, (ast.Assign, ast.AugAssign, ast.AnnAssign)):
            tg = s.targets if isinstance(s, ast.Assign) else [s.target]
            for t0 in tg:
                for t in ast.walk(t0):
                    if isinstance(t, ast.Attribute) and t.attr in BODY_ATTRS and isinstance(t.ctx, ast.Store) and norm(t.value) == resp:
                        hit = t
        elif isinstance(s, ast.Expr) and isinstance(s.value, ast.Call):
            c = s.value
            if isinstance(c.func, ast.Attribute) and norm(c.func.value) == resp and c.func.attr in BODY_CALLS:
                hit = c
            elif isinstance(c.func, ast.Name) and c.func.id == 'setattr' and len(c.args) >= 2 and norm(c.args[0]) == resp and \
                    isinstance(c.args[1], ast.Constant) and c.args[1].value in BODY_ATTRS:
                hit = c
        if hit is not None and ret_nodes & cfg.reach(cfg.nodes_of(s), normal_only=True):
            bad.append(s)
    rep.check('R14.j', fkey(bfr, '304 without a body'), not bad, 'no body is stored into the response on the way to the 304 return' if not bad else
              'a body is stored into the response (%s) on a path that ends in the 304 return: a 304 must not carry one' % short(bad[0], 60),
              st, bad[0] if bad else rets[0])
    rep.floor('R14.j', 3)


# ---------------------------------------------------------------------------------------------- R14.k
def _bound_call(C, fi, call):
    """(callee FuncInfo, {parameter: normalised argument text, defaults filled in}) for a call into a plain function of the
    package; None when the call cannot be bound that way."""
    callee, skip = C._callee(C._Ctx(fi.mod, fi, None, 0), call)
    if callee is None or not C._plain_args(call) or not isinstance(callee.node, ast.FunctionDef) or callee.node.decorator_list:
        return None
    a = callee.node.args
    if a.vararg is not None or a.kwarg is not None:
        return None
    pos = [x.arg for x in a.posonlyargs + a.args]
    out = {}
    dflt = dict(zip(pos[len(pos) - len(a.defaults):], a.defaults))
    for x, d in zip(a.kwonlyargs, a.kw_defaults):
        if d is not None:
            dflt[x.arg] = d
    repo = fi.mod.repo

    def text(e, mod, local):
        if isinstance(e, (ast.Name, ast.Attribute)) and not (isinstance(e, ast.Name) and local is not None and e.id in C._locals_of(local)):
            marker = object()
            v = repo.try_fold(e, mod, marker)
            if v is not marker and isinstance(v, (int, float, str, bool, type(None))):
                return repr(v)
        if isinstance(e, ast.Constant):
            return repr(e.value)
        if isinstance(e, ast.UnaryOp) and isinstance(e.op, ast.USub) and isinstance(e.operand, ast.Constant):
            return repr(-e.operand.value)
        if isinstance(e, ast.Name) and local is not None and e.id in C._locals_of(local):
            ss = C._srcs(local, e)
            if len(ss) == 1 and isinstance(ss[0], ast.expr) and not C._is_param(ss[0]) and ss[0] is not e:
                return text(ss[0], mod, local)
            if len(ss) == 1 and C._is_param(ss[0]):
                return 'param:' + ss[0].id
        return norm(e)
    for p, d in dflt.items():
        out[p] = text(d, callee.mod, None)
    for i, arg in enumerate(call.args):
        if i + skip >= len(pos):
            return None
        out[pos[i + skip]] = text(arg, fi.mod, fi)
    for k in call.keywords:
        out[k.arg] = text(k.value, fi.mod, fi)
    return callee, out


def r14k(rep):
    """Like with like: the value compared with If-Modified-Since and the value sent as Last-Modified are the same function
    of the file -- otherwise the date a client echoes back need not compare as 'not newer' (200 instead of 304), or a
    changed file compares as unchanged."""
    C = _C()
    repo = rep.repo
    st = repo.mod(STATIC)
    bfr = st.func('build_file_response')
    rep.rule('R14.k', 'the time compared with If-Modified-Since and the time sent as Last-Modified are computed the same way')
    sent, compared = [], []
    for s in stmts_of(bfr.node):
        if isinstance(s, ast.Assign) and any(isinstance(t, ast.Attribute) and t.attr == 'last_modified' for t in s.targets):
            sent.append(s.value)
    for n in walk_body(bfr.node):
        if isinstance(n, ast.Compare) and len(n.ops) == 1 and isinstance(n.ops[0], (ast.LtE, ast.Lt, ast.GtE, ast.Gt)):
            l, r = n.left, n.comparators[0]
            if norm(r) == 'cached_modify_time' and norm(l) != 'cached_modify_time':
                compared.append(l)
            elif norm(l) == 'cached_modify_time' and norm(r) != 'cached_modify_time':
                compared.append(r)
    if not sent or not compared:
        raise AnalysisError('build_file_response: %s not found' % ('Last-Modified assignment' if not sent else '304 comparison'))

    def reaching_values(e, what, depth=0):
        """the expressions whose value ``e`` can have where it is used (reaching definitions, through plain copies)"""
        if not (isinstance(e, ast.Name) and e.id in C._locals_of(bfr)) or depth > 6:
            return [e]
        out = []
        for d in C._reaching(bfr, e):
            if d == 'initial':
                if e.id in bfr.params():
                    raise AnalysisError('build_file_response: the %s value can be the argument %s' % (what, e.id))
                continue
            s_, val, idx = d
            if isinstance(idx, int) and isinstance(s_, ast.Assign) and isinstance(val, (ast.Tuple, ast.List)):
                tgt = [t for t in s_.targets if isinstance(t, (ast.Tuple, ast.List)) and len(t.elts) == len(val.elts)
                       and not any(isinstance(x, ast.Starred) for x in list(t.elts) + list(val.elts))]
                if tgt:
                    val, idx = val.elts[idx], None
            if idx is not None or not isinstance(val, ast.expr):
                raise AnalysisError('build_file_response: the %s value %s is bound by a statement that is not followed' % (what, e.id))
            out.extend(reaching_values(val, what, depth + 1))
        return out

    def shapes(exprs, what):
        out = {}
        for e in exprs:
            for x in reaching_values(e, what):
                if not isinstance(x, ast.Call):
                    raise AnalysisError('build_file_response: the %s value comes from %s, which is not a call into the package'
                                        % (what, short(x) if isinstance(x, ast.AST) else x))
                b = _bound_call(C, bfr, x)
                if b is None:
                    raise AnalysisError('build_file_response: the %s value %s is not a plain call of a function of the package' % (what, short(x)))
                out[(b[0].key, tuple(sorted(b[1].items())))] = (b[0], b[1], x)
        return out
    sh_s, sh_c = shapes(sent, 'Last-Modified'), shapes(compared, 'compared')
    same = set(sh_s) == set(sh_c)
    detail = ''
    if not same:
        only_s = [sh_s[k] for k in sh_s if k not in sh_c]
        only_c = [sh_c[k] for k in sh_c if k not in sh_s]
        detail = 'Last-Modified is %s, the 304 decision uses %s' % (' / '.join(short(x[2], 50) for x in (only_s or sh_s.values())),
                                                                    ' / '.join(short(x[2], 50) for x in (only_c or sh_c.values())))
    rep.check('R14.k', fkey(bfr, 'Last-Modified and the 304 comparison agree'), same,
              'both are %s with the same arguments' % ' / '.join(sorted(set(v[0].qualname for v in sh_s.values()))) if same else
              'the time sent as Last-Modified and the time compared with If-Modified-Since are computed differently (%s): a client '
              'echoing the date it was sent is not reliably answered 304, or a changed file passes as unchanged' % detail, st, compared[0])


# ---------------------------------------------------------------------------------------------- R14.l
def r14l(rep):
    """The Content-Type is *guessed*: the caller's mimetype if given, else the guess for the served path, else -- by looking
    at the first bytes of the opened file -- the binary default for binary content and the text default otherwise."""
    C = _C()
    repo = rep.repo
    st = repo.mod(STATIC)
    bfr = st.func('build_file_response')
    rep.rule('R14.l', 'Content-Type is the mimetype argument, else the guess for the served path, else the binary / text default chosen '
             'by peeking into the opened file')
    params = bfr.params()
    pname = params[0]
    need = [p for p in ('mimetype', 'default_text_mime', 'default_binary_mime') if p not in params]
    if need:
        raise AnalysisError('build_file_response: parameter(s) %s not found' % ', '.join(need))
    rets = returns_of(bfr)
    if not rets:
        raise AnalysisError('build_file_response: no return')
    hdr = [s_ for s_ in stmts_of(bfr.node) if isinstance(s_, ast.Assign) and any(isinstance(t, ast.Attribute) and t.attr in ('content_type', 'mimetype')
                                                                               for t in s_.targets)]
    if not hdr:
        raise AnalysisError('build_file_response: assignment of the Content-Type not found')

    def kind_of(x):
        if not isinstance(x, ast.expr):
            return 'stmt'
        if C._is_param(x):
            return {'mimetype': 'given', 'default_text_mime': 'text', 'default_binary_mime': 'binary'}.get(x.id, 'other-param')
        e = x
        if isinstance(e, ast.Subscript) and isinstance(e.slice, ast.Constant) and e.slice.value == 0:
            e = e.value
            if isinstance(e, ast.Call) and call_tail(e) == 'guess_type':
                return 'guess'
        if isinstance(x, ast.Constant) or (isinstance(x, (ast.Name, ast.Attribute)) and not (isinstance(x, ast.Name) and x.id in C._locals_of(bfr))
                                           and isinstance(repo.try_fold(x, st, None), str)):
            return 'constant'
        return 'unknown'
    def choice_srcs(e, seen):
        """Sources of ``e``, a choice between values (``a or b`` / ``a and b`` evaluates to one of its operands, ``x if c else y``
        to one of its arms) taken as the arms it chooses between, each followed like a plain source."""
        out = []
        for x in C._srcs(bfr, e):
            if id(x) in seen:
                continue
            seen[id(x)] = x          # (kept alive: an id is not reused while this runs)
            if isinstance(x, ast.BoolOp):
                for v in x.values:
                    out.extend(choice_srcs(v, seen))
            elif isinstance(x, ast.IfExp):
                out.extend(choice_srcs(x.body, seen))
                out.extend(choice_srcs(x.orelse, seen))
            else:
                out.append(x)
        return out
    for h in hdr:
        srcs = choice_srcs(h.value, {})
        kinds = [(kind_of(x), x) for x in srcs]
        unknown = [x for k, x in kinds if k in ('unknown', 'stmt')]
        fixed = [x for k, x in kinds if k in ('constant', 'other-param')]
        if unknown and not fixed:
            callee = [C._internal_callee(bfr, x) for x in unknown if isinstance(x, ast.expr)]
            raise AnalysisError('build_file_response: the Content-Type can come from %s, which is not followed'
                                % (short(unknown[0]) if isinstance(unknown[0], ast.AST) else unknown[0]))
        have = set(k for k, x in kinds)
        ok = not fixed and {'given', 'guess', 'text', 'binary'} <= have
        rep.check('R14.l', fkey(bfr, 'content type is guessed'), ok,
                  'the Content-Type is the given mimetype, the guess for the path, or one of the two configured defaults' if ok else
                  ('the Content-Type can be %s, which is neither given, guessed nor a configured default' % short(fixed[0]) if fixed else
                   'the Content-Type never comes from %s' % ', '.join(sorted({'given': 'the mimetype argument', 'guess': 'mimetypes.guess_type(path)',
                                                                                'text': 'default_text_mime', 'binary': 'default_binary_mime'}[k]
                                                                               for k in {'given', 'guess', 'text', 'binary'} - have))), st, h)
    # which default: decided by is_binary_string(<what peek_file read from the opened file>)
    def is_binary_test(t):
        for x in (C._srcs(bfr, t) if isinstance(t, ast.Name) else [t]):
            if isinstance(x, ast.Call) and call_tail(x) == 'is_binary_string' and x.args:
                return x
        return None
    found = {'binary': [], 'text': []}
    for s_ in stmts_of(bfr.node):
        if isinstance(s_, ast.Assign) and isinstance(s_.value, ast.Name) and s_.value.id in ('default_binary_mime', 'default_text_mime') and \
                not C.assigned_value(bfr.node, s_.value.id):
            found['binary' if s_.value.id == 'default_binary_mime' else 'text'].append(s_)
    if not found['binary'] or not found['text']:
        raise AnalysisError('build_file_response: the statements choosing default_binary_mime / default_text_mime not found')
    for s_ in found['binary']:
        cs = C._conds(bfr, s_)
        tests = [is_binary_test(t) for t, p in cs if p is True and is_binary_test(t) is not None]
        ok = bool(tests)
        rep.check('R14.l', fkey(bfr, 'binary default for binary content'), ok,
                  'default_binary_mime is chosen only when is_binary_string(..) holds' if ok else
                  'default_binary_mime is chosen without is_binary_string(<peeked bytes>) being true (%s): text files are served as binary '
                  'or the other way round' % ('; '.join('%s%s' % ('' if p else 'not ', short(t, 40)) for t, p in cs) or 'unconditionally'), st, s_)
        for t in tests:
            a0 = t.args[0]
            okp = C._all_srcs(bfr, a0, lambda e: isinstance(e, ast.Call) and call_tail(e) == 'peek_file' and e.args and
                              C._all_srcs(bfr, e.args[0], lambda o: isinstance(o, ast.Call) and call_name(o) == 'open'), known=('peek_file',))
            rep.check('R14.l', fkey(bfr, 'binary test looks at the opened file'), okp,
                      'is_binary_string() is given what peek_file() read from the opened file' if okp else
                      'is_binary_string() is given %s, which is not what peek_file() read from the opened file' % short(a0), st, t)
    for s_ in found['text']:
        cs = C._conds(bfr, s_)
        bad = [t for t, p in cs if p is True and is_binary_test(t) is not None]
        rep.check('R14.l', fkey(bfr, 'text default for the rest'), not bad,
                  'default_text_mime is chosen when the content is not binary (or empty)' if not bad else
                  'default_text_mime is chosen when is_binary_string(..) holds: binary files are served as text', st, s_)
    rep.floor('R14.l', 4)


# ---------------------------------------------------------------------------------------------- R14.m
def _default_of(fi, pname):
    a = fi.node.args
    pos = a.posonlyargs + a.args
    d = dict(zip([x.arg for x in pos[len(pos) - len(a.defaults):]], a.defaults))
    d.update((x.arg, v) for x, v in zip(a.kwonlyargs, a.kw_defaults) if v is not None)
    return d.get(pname)


def _attr_stores(fi, attr):
    """[(statement, value expression | None)] for every ``self.<attr> = ..`` of the function, element-wise for ``a, b = x, y``."""
    out = []
    want = 'self.' + attr
    for s in stmts_of(fi.node):
        if isinstance(s, ast.Assign):
            for t0 in s.targets:
                if norm(t0) == want:
                    out.append((s, s.value))
                elif isinstance(t0, (ast.Tuple, ast.List)):
                    for i, t in enumerate(t0.elts):
                        if norm(t) == want:
                            plain = isinstance(s.value, (ast.Tuple, ast.List)) and len(s.value.elts) == len(t0.elts) and \
                                not any(isinstance(x, ast.Starred) for x in list(t0.elts) + list(s.value.elts))
                            out.append((s, s.value.elts[i] if plain else None))
        elif isinstance(s, (ast.AnnAssign, ast.AugAssign)) and norm(s.target) == want:
            out.append((s, s.value if isinstance(s, ast.AnnAssign) else None))
    return out


def r14m(rep):
    """The configuration of the application / route reaches build_file_response unchanged: cache_timeout (client caching,
    on by default -- without it no conditional request is ever answered 304), the two default types (not swapped), the
    route's mimetype, the client's If-Modified-Since."""
    C = _C()
    repo = rep.repo
    st = repo.mod(STATIC)
    bfr = st.func('build_file_response')
    rep.rule('R14.m', 'cache_timeout (on by default), the default types, the mimetype and If-Modified-Since reach build_file_response '
             'from the configuration / the request unchanged')
    plan = [('StaticApplication', {'cache_timeout': 'self.cache_timeout', 'default_text_mime': 'self.default_text_mime',
                                   'default_binary_mime': 'self.default_binary_mime', 'cached_modify_time': 'request.if_modified_since'},
             ('cache_timeout', 'default_text_mime', 'default_binary_mime')),
            ('StaticFileRoute', {'cache_timeout': 'self.cache_timeout', 'mimetype': 'self.mimetype',
                                 'cached_modify_time': 'request.if_modified_since'}, ('cache_timeout', 'mimetype'))]
    bparams = bfr.params()
    for cname, wiring, stored in plan:
        ep = st.func('%s.get_file_response' % cname)
        init = st.func('%s.__init__' % cname)
        calls = C._bfr_calls(ep)
        if not calls:
            raise AnalysisError('%s.get_file_response: call of build_file_response not found' % cname)
        if 'request' not in ep.params() or C.assigned_value(ep.node, 'request'):
            raise AnalysisError('%s.get_file_response: parameter request not found / re-bound' % cname)
        for c in calls:
            for kw, want in sorted(wiring.items()):
                if kw not in bparams:
                    raise AnalysisError('build_file_response: parameter %s not found' % kw)
                a = C._argn(ep, c, kw, bparams.index(kw))
                ok = a is not None and C._all_srcs(ep, a, lambda e, want=want: norm(e) == want)
                can = ''
                if not ok and isinstance(a, ast.Call):
                    try:
                        can = ' (which can be %s)' % ' | '.join(sorted(C._terminal_values(ep, a)))
                    except AnalysisError:
                        can = ''
                rep.check('R14.m', fkey(ep, 'passes %s' % kw), ok, '%s=%s' % (kw, want) if ok else
                          '%s.get_file_response passes %s=%s%s to build_file_response, not %s%s'
                          % (cname, kw, short(a) if a is not None else '<nothing>', can, want,
                             ': conditional requests are not (always) answered 304' if kw in ('cache_timeout', 'cached_modify_time') else
                             ': the configured type does not reach the response'), st, c)
        if cname == 'StaticApplication' and 'mimetype' in bparams:
            # the application serves many files: the type is decided per file, not fixed by the endpoint
            for c in calls:
                a = C._argn(ep, c, 'mimetype', bparams.index('mimetype'))
                ok = a is None or C._all_srcs(ep, a, lambda e: isinstance(e, ast.Constant) and e.value is None)
                rep.check('R14.m', fkey(ep, 'passes mimetype'), ok, 'no fixed mimetype: the type is guessed per file' if ok else
                          'StaticApplication.get_file_response passes mimetype=%s: every file is served with that type instead of a '
                          'guessed one' % short(a), st, c)
        for attr in stored:
            sts = _attr_stores(init, attr)
            if not sts:
                raise AnalysisError('%s.__init__: assignment of self.%s not found' % (cname, attr))
            if attr not in init.params():
                raise AnalysisError('%s.__init__: parameter %s not found' % (cname, attr))
            if any(v is None for s, v in sts):
                raise AnalysisError('%s.__init__: self.%s is bound by an unpacking that is not followed' % (cname, attr))
            ok = all(C._all_srcs(init, v, lambda e, attr=attr: C._is_param(e, attr)) for s, v in sts)
            rep.check('R14.m', fkey(init, 'keeps %s' % attr), ok, 'self.%s is the constructor argument' % attr if ok else
                      'self.%s is not (always) the constructor argument %s: %s' % (attr, attr, short(sts[0][1])), st, sts[0][0])
        # client caching is on unless switched off
        d = _default_of(init, 'cache_timeout')
        if d is None:
            raise AnalysisError('%s.__init__: cache_timeout has no default' % cname)
        marker = object()
        v = d.value if isinstance(d, ast.Constant) else repo.try_fold(d, st, marker)
        if v is marker or isinstance(v, bool) or not isinstance(v, (int, float, type(None))):
            raise AnalysisError('%s.__init__: default of cache_timeout (%s) is not a constant number' % (cname, short(d)))
        ok = v is not None and v > 0
        rep.check('R14.m', fkey(init, 'client caching on by default'), ok, 'cache_timeout defaults to %r' % (v,) if ok else
                  'cache_timeout defaults to %r: with the default configuration build_file_response never takes the 304 branch, a '
                  'conditional request carrying the Last-Modified value the server sent is answered 200' % (v,), st, init.node)
    # sibling agreement: the two endpoints are two implementations of "serve this file" -- what they hand to
    # build_file_response as the client's validator (and as the caching switch) is the same function of the request /
    # the configuration, through whatever locals and helpers each of them computes it
    handed = {}
    for cname, wiring, stored in plan:
        ep = st.func('%s.get_file_response' % cname)
        for kw in ('cached_modify_time', 'cache_timeout'):
            vals = set()
            for c in C._bfr_calls(ep):
                a = C._argn(ep, c, kw, bparams.index(kw))
                vals |= C._terminal_values(ep, a) if a is not None else {'<nothing>'}
            handed[cname, kw] = vals
    for kw in ('cached_modify_time', 'cache_timeout'):
        a, b = handed['StaticApplication', kw], handed['StaticFileRoute', kw]
        rep.check('R14.m', fkey(bfr, 'endpoints agree on %s' % kw), a == b,
                  'both endpoints pass %s=%s' % (kw, ' | '.join(sorted(a))) if a == b else
                  'the two endpoints disagree on %s: StaticApplication passes %s, StaticFileRoute passes %s -- the same file is '
                  'answered 304 by one and 200 by the other' % (kw, ' | '.join(sorted(a)), ' | '.join(sorted(b))), st, bfr.node)
    # validator round trip: the 200 branch sends the file's own time as Last-Modified (R14.f, R14.k: never the clock), so
    # the 304 branch must be offered the client's If-Modified-Since as it came -- which value reaches it must not depend
    # on the server's clock (a file dated ahead of the clock would be sent in full on every conditional request)
    for cname, wiring, stored in plan:
        ep = st.func('%s.get_file_response' % cname)
        bad = None
        for c in C._bfr_calls(ep):
            a = C._argn(ep, c, 'cached_modify_time', bparams.index('cached_modify_time'))
            for owner, t in C._selection_tests(ep, a):
                clk = C._reads_clock(owner, t)
                if clk is not None and bad is None:
                    bad = (owner, t, clk)
        rep.check('R14.m', fkey(ep, 'validator not filtered by the clock'), bad is None,
                  'which If-Modified-Since value reaches build_file_response does not depend on the clock' if bad is None else
                  '%s: whether the client\'s If-Modified-Since reaches build_file_response depends on the server\'s clock (%s in %s): '
                  'Last-Modified is the file\'s own time, so the validator the server sent for a file dated ahead of its clock is '
                  'rejected when echoed (200 with the full body instead of 304)'
                  % (ep.qualname, short(bad[1], 60), bad[0].qualname), st, bad[1] if bad is not None and bad[0].mod is st else ep.node)
    # the two defaults of the application are the ones of build_file_response (not swapped)
    init = st.func('StaticApplication.__init__')
    for attr in ('default_text_mime', 'default_binary_mime'):
        a, b = _default_of(init, attr), _default_of(bfr, attr)
        if a is None or b is None:
            raise AnalysisError('default of %s not found' % attr)
        marker = object()
        va = a.value if isinstance(a, ast.Constant) else repo.try_fold(a, st, marker)
        vb = b.value if isinstance(b, ast.Constant) else repo.try_fold(b, st, marker)
        if va is marker or vb is marker:
            raise AnalysisError('default of %s is not a constant' % attr)
        rep.check('R14.m', fkey(init, 'default of %s' % attr), va == vb, '%s defaults to %r in both' % (attr, va) if va == vb else
                  'StaticApplication defaults %s to %r, build_file_response to %r' % (attr, va, vb), st, init.node)
    rep.floor('R14.m', 18)


# ---------------------------------------------------------------------------------------------- R14.n
READS = ('read', 'readline', 'readlines', 'readinto', 'read1', 'seek', 'truncate', 'write', '__next__', 'next', 'detach')


def r14n(rep):
    """The body is the whole file: looking at the first bytes to guess the type leaves the handle where it was -- peek_file
    seeks back to the position it noted before reading, on every path on which it returns -- and nothing else in
    build_file_response consumes the handle before it is wrapped."""
    C = _C()
    repo = rep.repo
    st = repo.mod(STATIC)
    rep.rule('R14.n', 'peek_file restores the position of the handle; build_file_response hands the handle to the wrapper unread')
    pk = st.func('peek_file')
    cfg = cfg_of(pk)
    fobj = pk.params()[0]
    if C.assigned_value(pk.node, fobj):
        raise AnalysisError('peek_file: parameter %s is re-bound' % fobj)
    calls = dict((k, []) for k in ('tell', 'read', 'seek'))
    for c in walk_body(pk.node):
        if isinstance(c, ast.Call) and isinstance(c.func, ast.Attribute) and isinstance(c.func.value, ast.Name) and c.func.value.id == fobj:
            if c.func.attr in calls:
                calls[c.func.attr].append(c)
            elif c.func.attr in READS:
                calls['read'].append(c)
    if not calls['read']:
        raise AnalysisError('peek_file: the read of the file object not found')
    node_of = lambda c: cfg.nodes_of(stmt_of(pk.mod, c))
    rets = [r for r in returns_of(pk)]
    for rd in calls['read']:
        rn = node_of(rd)
        after = cfg.reach([m for n in rn for m in cfg.succ[n]], normal_only=True)
        # seeks that put the handle back: seek(<what tell() said before this read>)
        restoring = []
        for sk in calls['seek']:
            pos = C._argn(pk, sk, 'offset', 0)
            whence = C._argn(pk, sk, 'whence', 1)
            if whence is not None and not (isinstance(whence, ast.Constant) and whence.value == 0):
                continue
            if pos is None:
                continue
            ss = C._srcs(pk, pos)
            if not (ss and all(isinstance(x, ast.Call) and any(x is t for t in calls['tell']) for x in ss)):
                continue
            tn = [n for x in ss for n in node_of(x)]
            if not cfg.must_pass(set(tn), cfg.entry, rn):
                continue        # the position was not noted before the read
            restoring.append(sk)
        sn = set(n for sk in restoring for n in node_of(sk))
        # (a ``return f.read(n)`` under try/finally leaves through the finally block: judged on the way to the exit node)
        ok = bool(restoring) and cfg.exit in after and cfg.must_pass(sn, list(rn), cfg.exit, normal_only=True)
        rep.check('R14.n', fkey(pk, 'position restored after %s' % rd.func.attr), ok,
                  'every return after the read passes seek(<position noted by tell() before it>)' if ok else
                  'peek_file can return after %s without seeking back to the position tell() gave before the read: the bytes looked '
                  'at are missing from the body that is served (Content-Length no longer matches)' % short(rd), st, rd)
    # the caller: the handle goes to peek_file, close() and the wrapper only
    bfr = st.func('build_file_response')
    handles = set()
    for s in stmts_of(bfr.node):
        if isinstance(s, ast.Assign):
            for t0 in s.targets:
                for t, v in ([(t0, s.value)] if not isinstance(t0, (ast.Tuple, ast.List)) else
                             (list(zip(t0.elts, s.value.elts)) if isinstance(s.value, (ast.Tuple, ast.List)) and len(s.value.elts) == len(t0.elts) else [])):
                    if isinstance(t, ast.Name) and isinstance(v, ast.Call) and call_name(v) == 'open':
                        handles.add(t.id)
    if not handles:
        raise AnalysisError('build_file_response: the local holding the opened file not found')
    grew = True
    while grew:     # plain copies of the handle
        grew = False
        for s in stmts_of(bfr.node):
            if isinstance(s, ast.Assign) and isinstance(s.value, ast.Name) and s.value.id in handles:
                for t in s.targets:
                    if isinstance(t, ast.Name) and t.id not in handles:
                        handles.add(t.id)
                        grew = True
    bad = []
    for n in walk_body(bfr.node):
        if isinstance(n, ast.Call) and isinstance(n.func, ast.Attribute) and isinstance(n.func.value, ast.Name) and n.func.value.id in handles \
                and n.func.attr in READS:
            bad.append(n)
        if isinstance(n, (ast.For, ast.comprehension)) and isinstance(n.iter, ast.Name) and n.iter.id in handles:
            bad.append(n.iter)
    rep.check('R14.n', fkey(bfr, 'handle reaches the wrapper unread'), not bad,
              'build_file_response itself never reads from / moves the opened file' if not bad else
              'build_file_response consumes the opened file (%s) before it is wrapped as the body' % short(bad[0]), st, bad[0] if bad else bfr.node)
    rep.floor('R14.n', 2)
