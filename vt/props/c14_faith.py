"""C14 -- further structural clauses of "serves files faithfully" (rule groups R14.h, R14.i, R14.j of c14.py).

  R14.h  one file: within build_file_response the regular-file test, open(), the size and the type guess all speak
         about the *path parameter* (never re-bound), as the modification time already must (R14.d); the file is opened
         for reading in binary mode (the body is the exact bytes, Content-Length counts bytes).  A size / handle / test
         taken from another path expression is a violation: Content-Length and body no longer describe one file.
  R14.i  first search directory wins: find_file visits ``search_paths`` in the given order (the loop / generator iterates
         the parameter itself, or a plain list()/tuple() copy of it) and answers with the *first* regular file (the
         non-None answer leaves the loop at once: ``return`` inside the loop, ``break`` right after the assignment, or
         ``next(<generator>)``); StaticApplication.__init__ keeps the order it was given (stores the parameter, a
         one-element list of it, or a list()/tuple() copy).  reversed / sorted / set / a slice with a step re-order.
  R14.j  a 304 carries no body: the object returned on the 304 path is the response created with an empty body, and no
         store to its body (.response / .data / set_data / .stream) can reach that return.
"""
import ast

from ..core import AnalysisError, norm, short
from .common import cfg_of, fkey, stmts_of, walk_body, call_tail, call_name, returns_of, stmt_of, has_cond
from ..cfg import expand_conds

STATIC = 'clastic.static'
ORDER_KEEPING = ('list', 'tuple')
ORDER_BREAKING = ('reversed', 'sorted', 'set', 'frozenset')
BODY_ATTRS = ('response', 'data', 'stream', 'direct_passthrough')
BODY_CALLS = ('set_data',)


def _C():
    from . import c14
    return c14


# ---------------------------------------------------------------------------------------------- R14.h
def _speaks_of_param(C, fi, arg, pname):
    """'yes': every source of the argument is the parameter; 'wrapped': a one-argument call around it (not followed);
    'no' otherwise."""
    if arg is None:
        return 'no'
    ss = C._srcs(fi, arg)
    if ss and all(isinstance(x, ast.expr) and C._is_param(x, pname) for x in ss):
        return 'yes'
    if len(ss) == 1 and isinstance(ss[0], ast.Call) and len(ss[0].args) == 1 and not ss[0].keywords and \
            isinstance(ss[0].args[0], ast.Name) and ss[0].args[0].id == pname and call_tail(ss[0]) in ('str', 'fspath', 'abspath', 'fsencode', 'fsdecode'):
        return 'wrapped'
    return 'no'


def r14h(rep):
    C = _C()
    repo = rep.repo
    st = repo.mod(STATIC)
    bfr = st.func('build_file_response')
    rep.rule('R14.h', 'the regular-file test, open(), the size and the type guess of build_file_response all speak about the path '
             'parameter; the file is opened for reading in binary mode')
    pname = bfr.params()[0]
    rebound = [s for s, v, i in C.assigned_value(bfr.node, pname)]
    rep.check('R14.h', fkey(bfr, 'path parameter is not re-bound'), not rebound,
              '%s keeps the value it was called with' % pname if not rebound else
              'the path parameter %s is re-bound inside build_file_response: test, open and stat no longer speak about the path that '
              'was looked up' % pname, st, rebound[0] if rebound else bfr.node)
    gaps = []
    cfg = cfg_of(bfr)
    sites = {'open': [], 'getsize': [], 'guess_type': [], 'isfile': []}
    for c in walk_body(bfr.node):
        if isinstance(c, ast.Call):
            t = call_tail(c)
            if t == 'open' and call_name(c) != 'open':
                continue        # a method named open of something else
            if t in sites and c.args and not isinstance(c.args[0], ast.Starred):
                sites[t].append(c)
    if not sites['open']:
        raise AnalysisError('build_file_response: open() of the served file not found')
    labels = {'open': 'the file opened', 'getsize': 'the size sent as Content-Length', 'guess_type': 'the type guess',
              'isfile': 'the regular-file test'}
    for kind in ('isfile', 'open', 'getsize', 'guess_type'):
        for c in sites[kind]:
            if kind == 'isfile':
                # only the test that guards open() is an obligation of this rule
                bt = [(nid, t_, p_) for nid, t_, p_ in [(n,) + C._branch_test(cfg, n, t, p) for n, t, p in cfg.branches()] if t_ is c]
                if not bt:
                    continue
            v = _speaks_of_param(C, bfr, c.args[0], pname)
            if v == 'wrapped':
                gaps.append('%s is about %s, which is not followed' % (labels[kind], short(c.args[0])))
                continue
            rep.check('R14.h', fkey(bfr, '%s is about the served path' % kind), v == 'yes',
                      '%s is that of %s' % (labels[kind], pname) if v == 'yes' else
                      '%s is taken from %s, not from the path being served (%s): status, headers and body no longer describe one file'
                      % (labels[kind], short(c.args[0]), pname), st, c)
    # binary, read-only
    for c in sites['open']:
        mode = C._argn(bfr, c, 'mode', 1)
        if mode is None:
            val = 'r'
        else:
            val = None
            if isinstance(mode, ast.Constant):
                val = mode.value
            elif isinstance(mode, ast.Name) and mode.id in C._locals_of(bfr):
                ss = C._srcs(bfr, mode)
                if len(ss) == 1 and isinstance(ss[0], ast.Constant):
                    val = ss[0].value
            else:
                val = repo.try_fold(mode, st, None)
            if not isinstance(val, str):
                gaps.append('mode %s of open() is not a constant' % short(mode))
                continue
        ok = 'b' in val and not (set(val) & set('wax+'))
        rep.check('R14.h', fkey(bfr, 'open mode'), ok, 'the file is opened read-only in binary mode (%r)' % val if ok else
                  'the served file is opened with mode %r: %s' % (val, 'text mode decodes / translates the bytes and Content-Length '
                  '(a byte count) no longer matches the body' if 'b' not in val else 'serving must not open the file for writing'), st, c)
    if gaps:
        raise AnalysisError('build_file_response: ' + '; '.join(gaps))
    rep.floor('R14.h', 4)


# ---------------------------------------------------------------------------------------------- R14.i
def _order_of(C, fi, expr, pname):
    """How ``expr`` relates to the sequence parameter ``pname``: 'same' (the parameter, a list()/tuple() copy, a full
    slice, also through locals), 'reordered' (reversed / sorted / set / stepped slice of it), 'other' (not followed)."""
    return _kept_order(C, fi, expr, pname, single=False)


def r14i(rep):
    C = _C()
    repo = rep.repo
    st = repo.mod(STATIC)
    ff = st.func('find_file')
    rep.rule('R14.i', 'find_file visits the search paths in the given order and answers with the first regular file; '
             'StaticApplication keeps the order it was given')
    sp = ff.params()[0]
    joins = [c for c in walk_body(ff.node) if isinstance(c, ast.Call) and call_tail(c) in ('pjoin', 'join') and len(c.args) == 2]
    if not joins:
        raise AnalysisError('find_file: join of search path and relative path not found')
    mod = ff.mod
    for j in joins:
        # the construct that enumerates the roots: the innermost for / comprehension binding the root joined here
        root = j.args[0]
        cur, host, it = j, None, None
        while cur is not None and cur is not ff.node:
            par = mod.parents.get(cur)
            if isinstance(par, (ast.For, ast.AsyncFor)) and cur is not par.iter and isinstance(root, ast.Name) and \
                    any(isinstance(n, ast.Name) and n.id == root.id for n in ast.walk(par.target)):
                host, it = par, par.iter
                break
            if isinstance(par, (ast.GeneratorExp, ast.ListComp)):
                gens = [g for g in par.generators if isinstance(root, ast.Name) and any(isinstance(n, ast.Name) and n.id == root.id for n in ast.walk(g.target))]
                if gens:
                    host, it = par, gens[0].iter
                    break
            cur = par
        if host is None:
            raise AnalysisError('find_file: the loop over the search paths around %s not found' % short(j))
        how, at = _order_of(C, ff, it, sp)
        if how == 'other':
            raise AnalysisError('find_file: %s iterates %s, whose relation to %s is not followed' % (type(host).__name__, short(it), sp))
        rep.check('R14.i', fkey(ff, 'visits the search paths in order'), how == 'same',
                  'the candidates are built from %s in the given order' % sp if how == 'same' else
                  'find_file iterates %s: the search paths are not visited in the order given, so a later search directory can win '
                  'over an earlier one' % short(at), st, j)
        # first match wins
        if isinstance(host, (ast.For, ast.AsyncFor)):
            inside = set(id(n) for s in host.body for n in ast.walk(s))
            rets = [r for r in returns_of(ff) if not (r.value is None or (isinstance(r.value, ast.Constant) and r.value.value is None))]
            in_loop = [r for r in rets if id(r) in inside]
            after = [r for r in rets if id(r) not in inside]
            ok = bool(in_loop) and not after
            if after:
                # ``found = candidate; break`` ... ``return found``: every binding of the returned name made inside the
                # loop is followed at once by break
                ok = True
                for r in after:
                    if not isinstance(r.value, ast.Name):
                        raise AnalysisError('find_file: answer %s computed after the loop is not followed' % short(r.value))
                    binds = [s for s, v, i in C.assigned_value(ff.node, r.value.id) if id(s) in inside]
                    if not binds:
                        raise AnalysisError('find_file: answer %s is not bound inside the search loop' % r.value.id)
                    for b in binds:
                        blk = _block_of(mod, b)
                        nxt = blk[blk.index(b) + 1] if blk is not None and b in blk and blk.index(b) + 1 < len(blk) else None
                        if not isinstance(nxt, ast.Break) or _loop_of(mod, nxt) is not host:
                            ok = False
            rep.check('R14.i', fkey(ff, 'first match wins'), ok, 'the first regular file found ends the search' if ok else
                      'the search does not stop at the first regular file (the last search directory holding the file wins)', st, host)
        else:
            # a generator / list of candidates: consumed by next() (first) -- anything else is not followed here
            use = mod.parents.get(host)
            name = None
            stn = stmt_of(mod, host)
            if isinstance(stn, ast.Assign) and stn.value is host and len(stn.targets) == 1 and isinstance(stn.targets[0], ast.Name):
                name = stn.targets[0].id
            nexts = [c for c in walk_body(ff.node) if isinstance(c, ast.Call) and isinstance(c.func, ast.Name) and c.func.id == 'next' and c.args]
            firsts = []
            for c in nexts:
                g = c.args[0]
                if g is host:
                    firsts.append(c)
                elif isinstance(g, ast.GeneratorExp) and name is not None and len(g.generators) == 1 and \
                        isinstance(g.generators[0].iter, ast.Name) and g.generators[0].iter.id == name:
                    firsts.append(c)
                elif isinstance(g, ast.Name) and name is not None and g.id == name:
                    firsts.append(c)
            loops = [s for s in stmts_of(ff.node) if isinstance(s, ast.For) and name is not None and isinstance(s.iter, ast.Name) and s.iter.id == name]
            if firsts and not loops:
                rep.ok('R14.i', fkey(ff, 'first match wins'), 'next() takes the first candidate that qualifies', st, firsts[0])
            elif loops and not firsts:
                inside = set(id(n) for lp in loops for s in lp.body for n in ast.walk(s))
                rets = [r for r in returns_of(ff) if not (r.value is None or (isinstance(r.value, ast.Constant) and r.value.value is None))]
                ok = bool(rets) and all(id(r) in inside for r in rets)
                rep.check('R14.i', fkey(ff, 'first match wins'), ok, 'the first regular file found ends the search' if ok else
                          'the search does not stop at the first regular file (the last search directory holding the file wins)', st, loops[0])
            else:
                raise AnalysisError('find_file: how the candidates %s are consumed is not followed' % short(host, 50))
    # the application keeps the order
    init = st.func('StaticApplication.__init__')
    stores = [s for s in stmts_of(init.node) if isinstance(s, ast.Assign) and any(norm(t) == 'self.search_paths' for t in s.targets)]
    if not stores:
        raise AnalysisError('StaticApplication.__init__: assignment of self.search_paths not found')
    ip = [p for p in init.params() if p != 'self']
    if not ip:
        raise AnalysisError('StaticApplication.__init__: search paths parameter not found')
    pname = 'search_paths' if 'search_paths' in ip else ip[0]
    for s in stores:
        how, at = _kept_order(C, init, s.value, pname)
        if how == 'other':
            raise AnalysisError('StaticApplication.__init__: self.search_paths = %s is not followed' % short(s.value))
        rep.check('R14.i', fkey(init, 'keeps the order of the search paths'), how == 'same',
                  'self.search_paths holds the search paths in the order given' if how == 'same' else
                  'self.search_paths is built with %s: the order of the search directories (first one wins) is lost' % short(at), st, s)
    rep.floor('R14.i', 3)


def _kept_order(C, fi, expr, pname, depth=0, seen=(), single=True):
    """(verdict, expression) -- see _order_of; with ``single`` a source may also be the one-element list / tuple of the
    parameter (a single directory given as a string)."""
    if depth > 8 or expr is None:
        return 'other', expr
    rec = lambda x, seen_=seen: _kept_order(C, fi, x, pname, depth + 1, seen_, single)
    if single and isinstance(expr, (ast.List, ast.Tuple)) and len(expr.elts) == 1 and isinstance(expr.elts[0], ast.Name):
        r = rec(expr.elts[0])
        return r if r[0] != 'other' else ('other', expr)
    if isinstance(expr, ast.Name):
        if expr.id in seen:
            return 'same', expr         # a re-binding in terms of itself: its other sources are judged by the caller
        ss = C._srcs(fi, expr)
        if ss and all(isinstance(x, ast.expr) for x in ss):
            worst = ('same', expr)
            for x in ss:
                if C._is_param(x):
                    r = ('same', x) if C._is_param(x, pname) else ('other', x)
                elif x is expr:
                    r = ('other', x)
                else:
                    r = rec(x, seen + (expr.id,))
                if r[0] == 'reordered' or (r[0] == 'other' and worst[0] == 'same'):
                    worst = r
            return worst
        return 'other', expr
    if isinstance(expr, ast.Call) and isinstance(expr.func, ast.Name) and len(expr.args) == 1 and not isinstance(expr.args[0], ast.Starred) \
            and expr.func.id not in C._locals_of(fi):
        inner = rec(expr.args[0])
        if expr.func.id in ORDER_KEEPING and not expr.keywords:
            return inner
        if expr.func.id in ORDER_BREAKING and inner[0] != 'other':
            return 'reordered', expr
        return 'other', expr
    if isinstance(expr, ast.Subscript) and isinstance(expr.slice, ast.Slice):
        inner = rec(expr.value)
        sl = expr.slice
        if inner[0] == 'other':
            return inner
        if sl.step is not None and not (isinstance(sl.step, ast.Constant) and sl.step.value in (1, None)):
            return 'reordered', expr
        if sl.lower is None and sl.upper is None:
            return inner
        return 'other', expr
    if isinstance(expr, ast.ListComp) and len(expr.generators) == 1 and not expr.generators[0].ifs:
        # [f(p) for p in search_paths]: one entry per search path, in order
        return rec(expr.generators[0].iter)
    return 'other', expr


def _block_of(mod, st):
    par = mod.parents.get(st)
    for f in ('body', 'orelse', 'finalbody'):
        blk = getattr(par, f, None)
        if isinstance(blk, list) and st in blk:
            return blk
    if isinstance(par, ast.ExceptHandler) and st in par.body:
        return par.body
    return None


def _loop_of(mod, st):
    cur = mod.parents.get(st)
    while cur is not None and not isinstance(cur, (ast.For, ast.AsyncFor, ast.While, ast.FunctionDef, ast.AsyncFunctionDef, ast.Lambda)):
        cur = mod.parents.get(cur)
    return cur if isinstance(cur, (ast.For, ast.AsyncFor, ast.While)) else None


# ---------------------------------------------------------------------------------------------- R14.j
def r14j(rep):
    C = _C()
    repo = rep.repo
    st = repo.mod(STATIC)
    bfr = st.func('build_file_response')
    rep.rule('R14.j', 'the 304 answer is the response created with an empty body; nothing stores a body into it before it is returned')
    cfg = cfg_of(bfr)
    s304 = [s for s in stmts_of(bfr.node) if isinstance(s, ast.Assign) and isinstance(s.targets[0], ast.Attribute)
            and s.targets[0].attr in ('status_code', 'status') and str(repo.try_fold(s.value, st, '')).startswith('304')]
    if len(s304) != 1:
        raise AnalysisError('build_file_response: expected one 304 status assignment')
    n304 = cfg.nodes_of(s304[0])
    after304 = cfg.reach(n304, normal_only=True)
    rets = [r for r in returns_of(bfr) if set(cfg.nodes_of(r)) & after304]
    if not rets:
        raise AnalysisError('build_file_response: the return of the 304 response not found')
    resp = norm(s304[0].targets[0].value)
    for r in rets:
        ok = r.value is not None and norm(r.value) == resp
        rep.check('R14.j', fkey(bfr, '304 returns the response it marked'), ok, 'the object given status 304 is the one returned' if ok else
                  'the 304 path returns %s, not the response whose status was set (%s)' % (short(r.value) if r.value is not None else 'None', resp),
                  st, r)
    if not isinstance(s304[0].targets[0].value, ast.Name):
        raise AnalysisError('build_file_response: the response object %s is not a local' % resp)
    # how the response object is created: response_type(<empty body>)
    makers = C._srcs(bfr, s304[0].targets[0].value)
    ok = bool(makers)
    why = ''
    for m in makers:
        if not (isinstance(m, ast.Call) and isinstance(m.func, ast.Name) and m.func.id in bfr.params()):
            raise AnalysisError('build_file_response: the response object comes from %s, which is not followed'
                                % (short(m) if isinstance(m, ast.AST) else m))
        body = C._argn(bfr, m, 'response', 0)
        if body is None:
            continue
        marker = object()
        val = body.value if isinstance(body, ast.Constant) else marker
        if val is marker and isinstance(body, (ast.Name, ast.Attribute)) and not (isinstance(body, ast.Name) and body.id in C._locals_of(bfr)):
            val = repo.try_fold(body, st, marker)
        if val is marker:
            if isinstance(body, (ast.List, ast.Tuple)) and not body.elts:
                continue
            raise AnalysisError('build_file_response: initial body %s of the response is not a constant' % short(body))
        if val not in ('', b'', None):
            ok, why = False, short(body)
    rep.check('R14.j', fkey(bfr, 'response starts empty'), ok, 'the response object is created with an empty body' if ok else
              'the response object is created with the body %s, which the 304 answer then carries' % why, st, s304[0])
    # no store of a body reaches the 304 return
    ret_nodes = set(n for r in rets for n in cfg.nodes_of(r))
    bad = []
    for s in stmts_of(bfr.node):
        hit = None
        if isinstance(s, (ast.Assign, ast.AugAssign, ast.AnnAssign)):
            tg = s.targets if isinstance(s, ast.Assign) else [s.target]
            for t0 in tg:
                for t in ast.walk(t0):
                    if isinstance(t, ast.Attribute) and t.attr in BODY_ATTRS and isinstance(t.ctx, ast.Store) and norm(t.value) == resp:
                        hit = t
        elif isinstance(s, ast.Expr) and isinstance(s.value, ast.Call):
            c = s.value
            if isinstance(c.func, ast.Attribute) and norm(c.func.value) == resp and c.func.attr in BODY_CALLS:
                hit = c
            elif isinstance(c.func, ast.Name) and c.func.id == 'setattr' and len(c.args) >= 2 and norm(c.args[0]) == resp and \
                    isinstance(c.args[1], ast.Constant) and c.args[1].value in BODY_ATTRS:
                hit = c
        if hit is not None and ret_nodes & cfg.reach(cfg.nodes_of(s), normal_only=True):
            bad.append(s)
    rep.check('R14.j', fkey(bfr, '304 without a body'), not bad, 'no body is stored into the response on the way to the 304 return' if not bad else
              'a body is stored into the response (%s) on a path that ends in the 304 return: a 304 must not carry one' % short(bad[0], 60),
              st, bad[0] if bad else rets[0])
    rep.floor('R14.j', 3)


# ---------------------------------------------------------------------------------------------- R14.k
def _bound_call(C, fi, call):
    """(callee FuncInfo, {parameter: normalised argument text, defaults filled in}) for a call into a plain function of the
    package; None when the call cannot be bound that way."""
    callee, skip = C._callee(C._Ctx(fi.mod, fi, None, 0), call)
    if callee is None or not C._plain_args(call) or not isinstance(callee.node, ast.FunctionDef) or callee.node.decorator_list:
        return None
    a = callee.node.args
    if a.vararg is not None or a.kwarg is not None:
        return None
    pos = [x.arg for x in a.posonlyargs + a.args]
    out = {}
    dflt = dict(zip(pos[len(pos) - len(a.defaults):], a.defaults))
    for x, d in zip(a.kwonlyargs, a.kw_defaults):
        if d is not None:
            dflt[x.arg] = d
    repo = fi.mod.repo

    def text(e, mod, local):
        if isinstance(e, (ast.Name, ast.Attribute)) and not (isinstance(e, ast.Name) and local is not None and e.id in C._locals_of(local)):
            marker = object()
            v = repo.try_fold(e, mod, marker)
            if v is not marker and isinstance(v, (int, float, str, bool, type(None))):
                return repr(v)
        if isinstance(e, ast.Constant):
            return repr(e.value)
        if isinstance(e, ast.UnaryOp) and isinstance(e.op, ast.USub) and isinstance(e.operand, ast.Constant):
            return repr(-e.operand.value)
        if isinstance(e, ast.Name) and local is not None and e.id in C._locals_of(local):
            ss = C._srcs(local, e)
            if len(ss) == 1 and isinstance(ss[0], ast.expr) and not C._is_param(ss[0]) and ss[0] is not e:
                return text(ss[0], mod, local)
            if len(ss) == 1 and C._is_param(ss[0]):
                return 'param:' + ss[0].id
        return norm(e)
    for p, d in dflt.items():
        out[p] = text(d, callee.mod, None)
    for i, arg in enumerate(call.args):
        if i + skip >= len(pos):
            return None
        out[pos[i + skip]] = text(arg, fi.mod, fi)
    for k in call.keywords:
        out[k.arg] = text(k.value, fi.mod, fi)
    return callee, out


def r14k(rep):
    """Like with like: the value compared with If-Modified-Since and the value sent as Last-Modified are the same function
    of the file -- otherwise the date a client echoes back need not compare as 'not newer' (200 instead of 304), or a
    changed file compares as unchanged."""
    C = _C()
    repo = rep.repo
    st = repo.mod(STATIC)
    bfr = st.func('build_file_response')
    rep.rule('R14.k', 'the time compared with If-Modified-Since and the time sent as Last-Modified are computed the same way')
    sent, compared = [], []
    for s in stmts_of(bfr.node):
        if isinstance(s, ast.Assign) and any(isinstance(t, ast.Attribute) and t.attr == 'last_modified' for t in s.targets):
            sent.append(s.value)
    for n in walk_body(bfr.node):
        if isinstance(n, ast.Compare) and len(n.ops) == 1 and isinstance(n.ops[0], (ast.LtE, ast.Lt, ast.GtE, ast.Gt)):
            l, r = n.left, n.comparators[0]
            if norm(r) == 'cached_modify_time' and norm(l) != 'cached_modify_time':
                compared.append(l)
            elif norm(l) == 'cached_modify_time' and norm(r) != 'cached_modify_time':
                compared.append(r)
    if not sent or not compared:
        raise AnalysisError('build_file_response: %s not found' % ('Last-Modified assignment' if not sent else '304 comparison'))

    def reaching_values(e, what, depth=0):
        """the expressions whose value ``e`` can have where it is used (reaching definitions, through plain copies)"""
        if not (isinstance(e, ast.Name) and e.id in C._locals_of(bfr)) or depth > 6:
            return [e]
        out = []
        for d in C._reaching(bfr, e):
            if d == 'initial':
                if e.id in bfr.params():
                    raise AnalysisError('build_file_response: the %s value can be the argument %s' % (what, e.id))
                continue
            s_, val, idx = d
            if isinstance(idx, int) and isinstance(s_, ast.Assign) and isinstance(val, (ast.Tuple, ast.List)):
                tgt = [t for t in s_.targets if isinstance(t, (ast.Tuple, ast.List)) and len(t.elts) == len(val.elts)
                       and not any(isinstance(x, ast.Starred) for x in list(t.elts) + list(val.elts))]
                if tgt:
                    val, idx = val.elts[idx], None
            if idx is not None or not isinstance(val, ast.expr):
                raise AnalysisError('build_file_response: the %s value %s is bound by a statement that is not followed' % (what, e.id))
            out.extend(reaching_values(val, what, depth + 1))
        return out

    def shapes(exprs, what):
        out = {}
        for e in exprs:
            for x in reaching_values(e, what):
                if not isinstance(x, ast.Call):
                    raise AnalysisError('build_file_response: the %s value comes from %s, which is not a call into the package'
                                        % (what, short(x) if isinstance(x, ast.AST) else x))
                b = _bound_call(C, bfr, x)
                if b is None:
                    raise AnalysisError('build_file_response: the %s value %s is not a plain call of a function of the package' % (what, short(x)))
                out[(b[0].key, tuple(sorted(b[1].items())))] = (b[0], b[1], x)
        return out
    sh_s, sh_c = shapes(sent, 'Last-Modified'), shapes(compared, 'compared')
    same = set(sh_s) == set(sh_c)
    detail = ''
    if not same:
        only_s = [sh_s[k] for k in sh_s if k not in sh_c]
        only_c = [sh_c[k] for k in sh_c if k not in sh_s]
        detail = 'Last-Modified is %s, the 304 decision uses %s' % (' / '.join(short(x[2], 50) for x in (only_s or sh_s.values())),
                                                                    ' / '.join(short(x[2], 50) for x in (only_c or sh_c.values())))
    rep.check('R14.k', fkey(bfr, 'Last-Modified and the 304 comparison agree'), same,
              'both are %s with the same arguments' % ' / '.join(sorted(set(v[0].qualname for v in sh_s.values()))) if same else
              'the time sent as Last-Modified and the time compared with If-Modified-Since are computed differently (%s): a client '
              'echoing the date it was sent is not reliably answered 304, or a changed file passes as unchanged' % detail, st, compared[0])
