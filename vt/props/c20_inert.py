"""C20, "the error text and the file names are data": what the failsafe runs besides its own code.

  R20.i  nothing reachable in clastic/flaw.py (module level and every function: the module is imported, and create_app
         and the endpoint run, while everything else is broken) nor in the launcher function that builds the failsafe
         executes or imports code that is *named at run time*: a call of exec / eval / execfile / __import__ /
         importlib.import_module / importlib.reload / runpy.run_path / run_module / imp.load_source / load_module /
         <loader>.exec_module whose argument is not a constant (constants moved to module level, once-assigned locals and
         loops over a constant tuple are followed).  The program that just failed to start must not be started again
         inside the process that reports the failure: it fails the same way (or hangs, or succeeds half-way), and the
         page is not constructed.  ``import x`` statements name their module in the source and are judged by R20.j.
  R20.j  a module imported *inside a function* of clastic/flaw.py cannot stop the construction: either the module is
         known to be there already (standard library; clastic itself; a package that flaw.py, clastic/__init__.py or a
         clastic module they import unconditionally at module level imports unconditionally at module level -- without it
         flaw could not have been imported in the first place), or the import statement sits where an ImportError is
         caught and the handler completes (in the function itself or at every call of that function in the module).

Nothing is evaluated; where a call site cannot be followed the judgement is declined with a note.
"""
import ast
import sys

from ..core import norm, short
from ..astutil import assigned_value, walk_body, call_tail, handler_catches
from ..cfg import enclosing_tries
from .common import fkey

_DYNAMIC_NAMES = ('exec', 'eval', 'execfile', '__import__', 'reload')
_DYNAMIC_ATTRS = ('import_module', '__import__', 'reload', 'run_path', 'run_module', 'load_source', 'load_module', 'load_compiled',
                  'exec_module', 'execfile')

try:
    _STDLIB = frozenset(sys.stdlib_module_names)
except AttributeError:      # pragma: no cover  (python < 3.10)
    _STDLIB = frozenset(('os', 'sys', 're', 'ast', 'site', 'sysconfig', 'json', 'time', 'traceback', 'collections', 'itertools',
                         'functools', 'importlib', 'inspect', 'io', 'posixpath', 'types', 'warnings', 'threading', 'socket'))


def _c20():
    from . import c20
    return c20


def _is_main_guard(st):
    return isinstance(st, ast.If) and norm(st.test).replace('"', "'") in ("__name__ == '__main__'", "'__main__' == __name__")


def _code_units(mod):
    """[(FuncInfo or None, [nodes])]: the module-level code (without the ``if __name__ == '__main__'`` demo and without
    function / class bodies) and the body of every function."""
    top = []
    todo = [st for st in mod.tree.body if not _is_main_guard(st)]
    while todo:
        n = todo.pop()
        if isinstance(n, (ast.FunctionDef, ast.AsyncFunctionDef, ast.Lambda)):
            continue
        top.append(n)
        todo.extend(ast.iter_child_nodes(n))
    out = [(None, top)]
    for q, fi in sorted(mod.functions.items()):
        out.append((fi, list(walk_body(fi.node))))
    return out


def _constant_name(repo, mod, fi, e):
    """The expression names something fixed in the source: it folds to a string constant (module-level constants and
    once-assigned locals followed), or it is the variable of a ``for`` loop over a constant tuple / list of strings."""
    base = _c20()
    v = base._fold(repo, fi, e) if fi is not None else repo.try_fold(e, mod, base._UNFOLDED)
    if isinstance(v, str):
        return True
    if isinstance(e, ast.Name) and fi is not None and e.id not in base._all_params(fi):
        binds = assigned_value(fi.node, e.id)
        if binds and all(idx == 'iter' and isinstance(st, ast.For) and isinstance(st.target, ast.Name) for st, v_, idx in binds):
            ok = True
            for st, v_, idx in binds:
                seq = base._fold(repo, fi, st.iter)
                ok = ok and isinstance(seq, (tuple, list)) and bool(seq) and all(isinstance(x, str) for x in seq)
            return ok
    if isinstance(e, ast.Name):
        # the variable of a comprehension over a constant tuple
        cur = mod.parents.get(e)
        while cur is not None and not isinstance(cur, (ast.FunctionDef, ast.AsyncFunctionDef, ast.Module)):
            if isinstance(cur, (ast.ListComp, ast.SetComp, ast.GeneratorExp, ast.DictComp)):
                for g in cur.generators:
                    if isinstance(g.target, ast.Name) and g.target.id == e.id:
                        seq = base._fold(repo, fi, g.iter) if fi is not None else repo.try_fold(g.iter, mod, None)
                        return isinstance(seq, (tuple, list)) and all(isinstance(x, str) for x in seq)
            cur = mod.parents.get(cur)
    return False


def _dynamic_call(repo, mod, fi, c):
    """Name of the code-running primitive a call is, else None."""
    base = _c20()
    f = c.func
    if isinstance(f, ast.Name) and f.id in _DYNAMIC_NAMES:
        if fi is not None and (f.id in base._all_params(fi) or assigned_value(fi.node, f.id)):
            return None
        if f.id in mod.assigns:
            return None                    # a function / constant of the module that happens to have the name
        imp = mod.imports.get(f.id)
        if imp is not None and imp[0] not in ('importlib', 'imp', 'builtins', '__builtin__', 'runpy', 'six.moves'):
            return None
        return f.id
    if isinstance(f, ast.Name) and f.id in _DYNAMIC_ATTRS:
        imp = mod.imports.get(f.id)
        if imp is not None and imp[0].split('.')[0] in ('importlib', 'imp', 'runpy', 'builtins', '__builtin__'):
            return '%s.%s' % imp
        return None
    if isinstance(f, ast.Attribute) and f.attr in _DYNAMIC_ATTRS:
        return norm(f)
    return None


def no_code_named_at_run_time(rep, fs):
    repo = fs.repo
    rep.rule('R20.i', 'the failsafe executes / imports no code that is named at run time (exec, eval, __import__, import_module, run_path, ...)')
    flaw = fs.flaw_src
    units = [(flaw, fi, nodes) for fi, nodes in _code_units(flaw)]
    server = repo.mod('clastic.server')
    for q, fi in sorted(server.functions.items()):
        if any(isinstance(c, ast.Call) and call_tail(c) == 'create_app' for c in walk_body(fi.node)):
            units.append((server, fi, list(walk_body(fi.node))))
    found = 0
    for mod, fi, nodes in units:
        for c in nodes:
            if not isinstance(c, ast.Call):
                continue
            what = _dynamic_call(repo, mod, fi, c)
            if what is None:
                continue
            found += 1
            arg = c.args[0] if c.args else next((k.value for k in c.keywords if k.arg in ('name', 'source', 'path_name', 'mod_name', 'object')), None)
            fixed = arg is not None and not isinstance(arg, ast.Starred) and _constant_name(repo, mod, fi, arg)
            key = fkey(fi, c) if fi is not None else '%s::%s' % (mod.name, norm(c))
            rep.check('R20.i', key, fixed,
                      '%s names its code in the source' % short(c, 50) if fixed else
                      '%s runs code that is named at run time (%s): the failsafe may start the very program that just failed (or '
                      'whatever the text / a file name says) and is then not constructed' % (short(c, 60), what), mod, c)
    if not found:
        rep.ok('R20.i', '%s::dynamic code' % flaw.name, 'no exec / eval / dynamic import anywhere in the failsafe module or its builder', flaw)


# ------------------------------------------------------------------------------------------------ R20.j imports in functions
def _unconditional_imports(mod):
    """[(absolute module name, level)] of the import statements that are direct children of the module body."""
    out = []
    for st in mod.tree.body:
        if isinstance(st, ast.Import):
            out.extend((a.name, 0) for a in st.names)
        elif isinstance(st, ast.ImportFrom):
            name = mod._abs_module(st)
            out.append((name, st.level))
            if st.level:
                # ``from . import server`` names submodules
                out.extend(('%s.%s' % (name, a.name), st.level) for a in st.names)
    return out


def _certainly_imported(repo, flaw):
    """Top-level package names that are imported by the time clastic.flaw has been imported successfully."""
    tops, seen = set(), set()
    todo = [flaw.name, repo.PKG]
    while todo:
        name = todo.pop()
        if name in seen:
            continue
        seen.add(name)
        try:
            m = repo.try_mod(name) if repo.is_internal(name) else None
        except Exception:
            m = None
        if m is None:
            continue
        for imp, level in _unconditional_imports(m):
            if not imp:
                continue
            if repo.is_internal(imp):
                todo.append(imp)
                # importing a.b.c imports a and a.b first
                parts = imp.split('.')
                todo.extend('.'.join(parts[:i]) for i in range(1, len(parts)))
            else:
                tops.add(imp.split('.')[0])
    return tops


def _import_caught(mod, fnode, node):
    """(handler, problem): the innermost enclosing try body with a handler for ImportError."""
    for tr, part in enclosing_tries(mod, node, fnode):
        if part != 'body':
            continue
        for h in tr.handlers:
            if handler_catches(h, 'ImportError'):
                if any(isinstance(s, ast.Raise) for s in ast.walk(h)):
                    return h, 'the handler raises again'
                return h, None
    return None, None


def _reached(repo, flaw, entries):
    """({function key: True when every chain of calls from an entry point to it passes a call that sits where an
    ImportError is caught, False when some chain does not}, {names of module functions used as values on the way})."""
    base = _c20()
    state, as_value = {}, set()
    todo = [(e, False) for e in entries]
    while todo:
        fi, contained = todo.pop()
        prev = state.get(fi.key)
        if prev is not None and (prev is False or contained):
            continue
        state[fi.key] = contained
        for n in ast.walk(fi.node):
            if isinstance(n, ast.Call):
                hit = base._callee_of(repo, fi, n)
                if hit is not None and hit[0].mod is flaw:
                    h, problem = _import_caught(flaw, fi.node, n)
                    todo.append((hit[0], contained or (h is not None and problem is None)))
            elif isinstance(n, ast.Name) and isinstance(n.ctx, ast.Load) and n.id in flaw.functions:
                par = flaw.parents.get(n)
                if not (isinstance(par, ast.Call) and par.func is n):
                    as_value.add(n.id)
    return state, as_value


def function_level_imports(rep, fs):
    repo = fs.repo
    flaw = fs.flaw_src
    rep.rule('R20.j', 'a module imported inside a function of the failsafe is known to be importable, or its ImportError is caught')
    present = _certainly_imported(repo, flaw)
    entries = [flaw.functions[q] for q in ('create_app', fs.endpoint.qualname) if q in flaw.functions]
    state, as_value = _reached(repo, flaw, entries)
    n = 0
    for q, fi in sorted(flaw.functions.items()):
        for st in walk_body(fi.node):
            if isinstance(st, ast.Import):
                names = [a.name for a in st.names]
            elif isinstance(st, ast.ImportFrom):
                names = [flaw._abs_module(st)] if not st.level else []
                if st.level:
                    n += 1
                    rep.ok('R20.j', fkey(fi, st), 'a relative import inside clastic', flaw, st)
                    continue
            else:
                continue
            for name in names:
                n += 1
                top = (name or '').split('.')[0]
                key = fkey(fi, 'import %s' % name)
                if repo.is_internal(name or ''):
                    rep.ok('R20.j', key, '%s is clastic itself' % name, flaw, st)
                elif top in _STDLIB:
                    rep.ok('R20.j', key, '%s is part of the standard library' % top, flaw, st)
                elif top in present:
                    rep.ok('R20.j', key, '%s is imported unconditionally at module level on the way to clastic.flaw' % top, flaw, st)
                else:
                    h, problem = _import_caught(flaw, fi.node, st)
                    owner = fi
                    while owner.key not in state and '.' in owner.qualname:
                        up = flaw.functions.get(owner.qualname.rpartition('.')[0])
                        if up is None:
                            break
                        owner = up
                    if h is not None and problem is None:
                        v = True
                    elif state.get(owner.key) is not None:
                        v = state[owner.key]
                    else:
                        rep.notes.append('R20.j declined: %s ("import %s") is %s' % (fi.qualname, name,
                                         'handed on as a value; where it runs cannot be followed' if owner.name in as_value else
                                         'not seen to be called from create_app or the endpoint'))
                        continue
                    rep.check('R20.j', key, v,
                              'an ImportError of the optional package %s is caught' % top if v else
                              '%s imports the optional package %s where no handler catches the ImportError%s: on a machine without it '
                              'the failsafe raises instead of constructing the page'
                              % (fi.qualname, top, ' (%s)' % problem if problem else ''), flaw, st)
    if not n:
        rep.ok('R20.j', '%s::function-level imports' % flaw.name, 'no function of the failsafe module imports anything', flaw)
