"""C10 -- Embedding a sub-application is equivalent to declaring its routes flat.

Equivalence of two applications on all requests is behavioural; decided is that each *ingredient* of the
flat declaration is computed the way the property says:

  R10.a  re-binding covers every inner route in order: SubApplication.bind_all walks self.app.routes
         directly (loop or list comprehension), skips only NullRoute instances, yields rt.bind(app, **kw) once
         for each, where the keyword dict carries 'prefix' = self.prefix on top of whatever the caller passed;
         add() inserts the returned list contiguously (R06.a); cast_to_route_factory turns
         (prefix, Application) into SubApplication(*in_arg);
  R10.b  prefixing composes: BoundRoute.pattern = prefix + route.pattern (the already-bound inner
         pattern), prefix defaults to '', SubApplication.prefix = prefix.rstrip('/');
  R10.c  middleware order (= R03.d), resource precedence at bind and request time (= R02.c), built-in
         _application is the outermost binding application;
  R10.d  error handling comes from the application being bound into: the value that ends up in
         self.render_error is app.error_handler's when rebind_render_error (default True, no caller switches it
         off) and the route's otherwise; it is checked against the merged resources; dispatch consults
         self.error_handler;
  R10.e  renderer stickiness plumbing: rebind_render flows SubApplication.__init__ (default False) -> add
         -> bind_all -> BoundRoute.__init__ under one keyword; explicit callable renders win; the render
         factory is that of the most recently bound application able to provide one; every bind keyword a
         caller writes is popped by BoundRoute.__init__.
Declined: the equivalence itself; render_factory selection as a value computation.

Values are recognised by role, not by the local that carries them: ``effects.Flow`` (reaching definitions on the
CFG) gives the values that can flow into ``self.render`` / ``self.render_error`` with their path conditions, and
resolves named temporaries (``unbound_render = self.unbound_route.render``) to what they stand for.
"""
import ast
import copy

from ..core import AnalysisError, norm, short
from ..cfg import expand_conds
from ..effects import Flow, slot_key, effects_in
from ..astutil import argn
from .. import layers as layers_
from . import chain
from .common import (cfg_of, fkey, conds, has_cond, cond_texts, stmts_of, walk_body, call_tail, call_name, returns_of, stmt_of, kwarg,
                     isinstance_test)

APP, ROUTE = 'clastic.application', 'clastic.route'


# ------------------------------------------------------------------------------------------------ helpers
def _expr(text):
    return ast.parse(text, mode='eval').body


def _deref(fl, expr, at):
    """Follow a local / self-attribute with a single reaching assignment to the assigned expression."""
    for _ in range(6):
        k = slot_key(expr)
        if k is None:
            break
        d = fl.single_def(k, at)
        if d is None:
            break
        expr, at = d.value, d.stmt
    return expr, at


def _require_followed(repo, fi, leaves, what):
    """A value handed out by a helper of the analysed package that the front-end could not dissolve into the caller
    cannot be judged here: analysis gap, not a violation."""
    from ..effects import callee_of
    for l in leaves:
        v = l.value
        if isinstance(v, ast.Call):
            callee = callee_of(repo, fi, v)
            if callee is not None and callee.name.startswith('_') and (l.opaque or True):
                raise AnalysisError('%s: %s is computed by %s, which could not be followed' % (fi.qualname, what, callee.qualname))


def _kwarg_name(fi):
    a = fi.node.args
    return a.kwarg.arg if a.kwarg is not None else None


def popped_flags(fi, key):
    """(local names bound to ``<**kw>.pop(key, default)``, [pop calls]) in fi."""
    kw = _kwarg_name(fi)
    pops = [c for c in walk_body(fi.node) if isinstance(c, ast.Call) and isinstance(c.func, ast.Attribute) and c.func.attr == 'pop'
            and norm(c.func.value) == kw and c.args and isinstance(c.args[0], ast.Constant) and c.args[0].value == key]
    names = set()
    for s in stmts_of(fi.node):
        if isinstance(s, ast.Assign) and s.value in pops:
            for t in s.targets:
                if isinstance(t, ast.Name):
                    names.add(t.id)
    return names, pops


def _is_flag(text, names, pops):
    return text in names or text in set(norm(p) for p in pops)


def _subst_name(expr, name, const):
    class S(ast.NodeTransformer):
        def visit_Name(self, n):
            if n.id == name and isinstance(n.ctx, ast.Load):
                return ast.copy_location(ast.Constant(value=const), n)
            return n
    return S().visit(copy.deepcopy(expr))


def concat_parts(e):
    """Operands of a string concatenation in any spelling: ``a + b``, ``'%s%s' % (a, b)``, ``'{}{}'.format(a, b)``,
    ``f'{a}{b}'``, ``''.join([a, b])`` -> [a, b]; None when ``e`` is not a pure concatenation."""
    if isinstance(e, ast.BinOp) and isinstance(e.op, ast.Add):
        l, r = concat_parts(e.left), concat_parts(e.right)
        return (l if l is not None else [e.left]) + (r if r is not None else [e.right])
    if isinstance(e, ast.BinOp) and isinstance(e.op, ast.Mod) and isinstance(e.left, ast.Constant) and isinstance(e.left.value, str):
        args = e.right.elts if isinstance(e.right, ast.Tuple) else [e.right]
        if e.left.value == '%s' * len(args) and args:
            return list(args)
        return None
    if isinstance(e, ast.Call) and isinstance(e.func, ast.Attribute) and isinstance(e.func.value, ast.Constant) and isinstance(e.func.value.value, str):
        if e.func.attr == 'format' and not e.keywords and e.args and e.func.value.value in ('{}' * len(e.args), ''.join('{%d}' % i for i in range(len(e.args)))):
            return list(e.args)
        if e.func.attr == 'join' and e.func.value.value == '' and len(e.args) == 1 and isinstance(e.args[0], (ast.List, ast.Tuple)) and not e.keywords:
            return list(e.args[0].elts)
        return None
    if isinstance(e, ast.JoinedStr):
        if e.values and all(isinstance(v, ast.FormattedValue) and v.conversion == -1 and v.format_spec is None for v in e.values):
            return [v.value for v in e.values]
        return None
    return None


class KwDict(object):
    """Layer model of a keyword dict built by straight-line code before it is passed on with ``**``:
    bottom -> top list of ('caller',) / ('src', text) / ('key', name, value expr, stmt); ``setdefault`` and
    ``if k not in d: d[k] = v`` go to the bottom (an existing entry wins), ``d[k] = v`` / ``update`` / ``dict(d, k=v)`` on top.
    Every dict-valued local of the function is tracked (the ** parameter starts as the caller's keywords), so
    ``opts = dict(kwargs, prefix=p)`` after ``kwargs.setdefault(..)`` carries the defaults along."""

    def __init__(self, fi, fl, var, use_stmts):
        self.fi, self.fl, self.var = fi, fl, var
        self.stmts = []
        kwp = _kwarg_name(fi)
        self.env = {}
        if kwp is not None:
            self.env[kwp] = [('caller',)]
        self._build(fi.node.body)
        if var not in self.env:
            raise AnalysisError('%s: %s is not a dict built in this function' % (fi.qualname, var))
        self.layers = self.env[var]
        cfg = fl.cfg
        for st in self.stmts:
            for u in use_stmts:
                if not cfg.must_pass(cfg.nodes_of(st), cfg.entry, cfg.nodes_of(u)):
                    raise AnalysisError('%s: keyword dict %s is modified conditionally (%s)' % (fi.qualname, var, short(st, 60)))
            loops = [l for l in stmts_of(fi.node) if isinstance(l, (ast.For, ast.While)) and st in stmts_of(l) and l is not st]
            if loops:
                raise AnalysisError('%s: keyword dict %s is modified inside a loop' % (fi.qualname, var))

    def _from_expr(self, e):
        out = []
        for l in layers_.layers_of_expr(e):
            if l.kind == 'literal':
                for k in l.keys:
                    out.append(('key', k, l.values[k], l.node))
            elif l.text in self.env:
                out.extend(self.env[l.text])
            else:
                out.append(('src', l.text))
        return out

    def _default_stmt(self, st):
        """``d.setdefault(K, V)`` / ``if K not in d: d[K] = V`` -> (d, K expr, V expr) or None."""
        if isinstance(st, ast.Expr) and isinstance(st.value, ast.Call) and isinstance(st.value.func, ast.Attribute) and \
                st.value.func.attr == 'setdefault' and norm(st.value.func.value) in self.env and len(st.value.args) == 2 and not st.value.keywords:
            return norm(st.value.func.value), st.value.args[0], st.value.args[1]
        if isinstance(st, ast.If) and not st.orelse and len(st.body) == 1 and isinstance(st.test, ast.Compare) and len(st.test.ops) == 1 and \
                isinstance(st.test.ops[0], ast.NotIn) and norm(st.test.comparators[0]) in self.env:
            var = norm(st.test.comparators[0])
            b = st.body[0]
            if isinstance(b, ast.Assign) and len(b.targets) == 1 and isinstance(b.targets[0], ast.Subscript) and \
                    norm(b.targets[0].value) == var and norm(b.targets[0].slice) == norm(st.test.left):
                return var, st.test.left, b.value
        return None

    def _build(self, body):
        q = self.fi.qualname
        for st in body:
            d = self._default_stmt(st)
            if d is not None:
                var, k, v = d
                if not isinstance(k, ast.Constant):
                    raise AnalysisError('%s: computed key %s in keyword dict %s' % (q, norm(k), var))
                self.env[var].insert(0, ('key', k.value, v, st))
                self.stmts.append(st)
                continue
            if isinstance(st, ast.For) and isinstance(st.target, ast.Name) and isinstance(st.iter, (ast.Tuple, ast.List)) and \
                    all(isinstance(e, ast.Constant) for e in st.iter.elts) and len(st.body) == 1 and not st.orelse:
                d = self._default_stmt(st.body[0])
                if d is not None and norm(d[1]) == st.target.id:
                    for e in st.iter.elts:
                        self.env[d[0]].insert(0, ('key', e.value, _subst_name(d[2], st.target.id, e.value), st))
                    self.stmts.append(st)
                    continue
            if isinstance(st, ast.Assign) and len(st.targets) == 1 and isinstance(st.targets[0], ast.Name):
                t = st.targets[0].id
                v = st.value
                if isinstance(v, ast.Name) and v.id in self.env:
                    self.env[t] = self.env[v.id]          # alias: the same dict object
                    self.stmts.append(st)
                    continue
                if isinstance(v, ast.Dict) or (isinstance(v, ast.Call) and isinstance(v.func, ast.Name) and v.func.id == 'dict'):
                    self.env[t] = self._from_expr(v)
                    self.stmts.append(st)
                    continue
                if t in self.env:
                    raise AnalysisError('%s: keyword dict %s re-bound to %s' % (q, t, short(v, 50)))
                continue
            if isinstance(st, ast.Assign) and len(st.targets) == 1 and isinstance(st.targets[0], ast.Subscript) and norm(st.targets[0].value) in self.env:
                k = st.targets[0].slice
                if not isinstance(k, ast.Constant):
                    raise AnalysisError('%s: computed key %s in keyword dict %s' % (q, norm(k), norm(st.targets[0].value)))
                self.env[norm(st.targets[0].value)].append(('key', k.value, st.value, st))
                self.stmts.append(st)
                continue
            if isinstance(st, ast.Expr) and isinstance(st.value, ast.Call) and isinstance(st.value.func, ast.Attribute) and \
                    norm(st.value.func.value) in self.env and st.value.func.attr == 'update':
                c = st.value
                lay = self.env[norm(c.func.value)]
                for a in c.args:
                    lay.extend(self._from_expr(a))
                for k in c.keywords:
                    if k.arg is None:
                        lay.extend(self._from_expr(k.value))
                    else:
                        lay.append(('key', k.arg, k.value, st))
                self.stmts.append(st)
                continue
            # anything else that writes a tracked dict is outside the model
            if not isinstance(st, (ast.FunctionDef, ast.AsyncFunctionDef, ast.ClassDef)):
                for e in effects_in(ast.Module(body=[st], type_ignores=[]), nested=False):
                    if e.root in self.env:
                        raise AnalysisError('%s: unmodelled write to keyword dict %s: %s' % (q, e.root, short(e.node, 60)))
                for n in ast.walk(st):
                    if isinstance(n, ast.Name) and isinstance(n.ctx, ast.Store) and n.id in self.env:
                        raise AnalysisError('%s: keyword dict %s re-bound in %s' % (q, n.id, short(st, 50)))

    def lookup(self, key):
        """('forced', value, stmt): a literal entry above everything the caller passed; ('default', value, stmt): a literal
        entry below the caller's keywords and none above; ('caller', None, None): only the caller can supply it;
        ('unknown', ...): an unmodelled source may supply it."""
        top = None
        for i in range(len(self.layers) - 1, -1, -1):
            l = self.layers[i]
            if l[0] == 'key' and l[1] == key:
                top = i
                break
            if l[0] in ('src',):
                return ('unknown', None, None)
            if l[0] == 'caller':
                # the caller may or may not pass it: look below for the default
                for j in range(i - 1, -1, -1):
                    m = self.layers[j]
                    if m[0] == 'key' and m[1] == key:
                        return ('default', m[2], m[3])
                    if m[0] in ('src', 'caller'):
                        return ('unknown', None, None)
                return ('caller', None, None)
        if top is None:
            return ('absent', None, None)
        return ('forced', self.layers[top][2], self.layers[top][3])


def _walk_all(fnode):
    for st in fnode.body:
        for n in ast.walk(st):
            yield n


def _enclosing_iteration(mod, node, fnode):
    cur = mod.parents.get(node)
    while cur is not None and cur is not fnode:
        if isinstance(cur, (ast.For, ast.ListComp, ast.GeneratorExp, ast.SetComp, ast.DictComp, ast.While)):
            return cur
        cur = mod.parents.get(cur)
    return None


def _strip_copy(e):
    """list(x) / tuple(x) iterate x in x's order."""
    while isinstance(e, ast.Call) and isinstance(e.func, ast.Name) and e.func.id in ('list', 'tuple') and len(e.args) == 1 and not e.keywords:
        e = e.args[0]
    return e


# ------------------------------------------------------------------------------------------------ R10.a
def _r10a(rep, app, route):
    ba = app.func('SubApplication.bind_all')
    fl = Flow(ba)
    bcfg = fl.cfg
    fors = [s for s in stmts_of(ba.node) if isinstance(s, (ast.For, ast.While))]
    comps = [n for n in walk_body(ba.node) if isinstance(n, (ast.ListComp, ast.GeneratorExp, ast.SetComp, ast.DictComp))]
    its = fors + comps
    it = its[0] if len(its) == 1 else None
    it_expr = None
    if isinstance(it, ast.For):
        it_expr = it.iter
    elif isinstance(it, (ast.ListComp, ast.GeneratorExp)) and len(it.generators) == 1 and not it.generators[0].is_async:
        it_expr = it.generators[0].iter
    it_text = fl.text(_strip_copy(it_expr), stmt_of(app, it_expr)) if it_expr is not None else None
    ok = it_text == 'self.app.routes'
    rep.check('R10.a', fkey(ba, 'iterates inner routes'), ok, 'walks self.app.routes directly (inner order preserved)' if ok else
              'bind_all does not iterate self.app.routes directly: %s' % (it_text if it_text else [short(getattr(x, 'iter', x), 50) for x in its]), app,
              it if isinstance(it, ast.stmt) else (stmt_of(app, it) if it is not None else ba.node))
    if not ok:
        return
    is_loop = isinstance(it, ast.For)
    rt = norm(it.target if is_loop else it.generators[0].target)
    binds = [c for c in walk_body(ba.node) if isinstance(c, ast.Call) and isinstance(c.func, ast.Attribute) and c.func.attr == 'bind']
    b = binds[0] if len(binds) == 1 else None
    kwv = None
    ok = b is not None and norm(b.func.value) == rt and len(b.args) == 1 and norm(b.args[0]) == ba.params()[1] and \
        len(b.keywords) == 1 and b.keywords[0].arg is None and isinstance(b.keywords[0].value, ast.Name) and \
        _enclosing_iteration(app, b, ba.node) is it
    where = b if b is not None else (it if is_loop else stmt_of(app, it))
    rets = returns_of(ba)
    appends = []
    if ok:
        kwv = b.keywords[0].value.id
        if is_loop:
            # the bound route reaches the returned list through exactly one append in the loop
            rv = norm(rets[0].value) if len(rets) == 1 and isinstance(rets[0].value, ast.Name) else None
            growers = [e for e in effects_in(ba.node) if e.root == rv and e.kind == 'mutcall']
            appends = [e.node for e in growers if e.method == 'append' and len(e.node.args) == 1]
            ok = rv is not None and len(growers) == 1 and len(appends) == 1 and stmt_of(app, appends[0]) in stmts_of(it)
            if ok:
                a0 = appends[0].args[0]
                lv = fl.leaves(a0, stmt_of(app, appends[0]))
                ok = len(lv) == 1 and lv[0].value is b
                rdef = fl.single_def(rv, rets[0])
                ok = ok and rdef is not None and isinstance(rdef.value, ast.List) and not rdef.value.elts
        else:
            # the comprehension (a list, or a generator materialised by list()) is what is returned
            ok = it.elt is b and bool(rets)
            for r in rets:
                v, _ = _deref(fl, r.value, r)
                ok = ok and _strip_copy(v) is it and (isinstance(it, ast.ListComp) or v is not it)
    rep.check('R10.a', fkey(ba, 'append rt.bind(app, **kwargs)'), ok, 'each inner route is re-bound to the embedding application with the bind keywords' if ok else
              'bind_all does not append rt.bind(app, **kwargs) for each inner route', app, where)
    if not ok:
        return
    if is_loop:
        ast_ = stmt_of(app, appends[0])
        cs = conds(ba, ast_)
        ok = len(cs) == 1 and cs[0][1] is False and isinstance_test(cs[0][0], rt, 'NullRoute')
        jumps = [s for s in stmts_of(it) if isinstance(s, (ast.Continue, ast.Break))]
        for j in jumps:
            jc = conds(ba, j)
            ok = ok and isinstance(j, ast.Continue) and len(jc) == 1 and jc[0][1] is True and isinstance_test(jc[0][0], rt, 'NullRoute')
        rep.check('R10.a', fkey(ba, 'skips only the null route'), ok, 'only NullRoute instances are skipped' if ok else
                  'routes are skipped under other conditions than isinstance(rt, NullRoute): %s' % '; '.join(cond_texts(cs)), app, appends[0])
        ap_nodes = bcfg.nodes_of(ast_)
        ok = not (set(ap_nodes) & bcfg.reach([m for n in ap_nodes for m in bcfg.succ[n]], avoid=bcfg.nodes_of(it)))
        rep.check('R10.a', fkey(ba, 'once per route'), ok, 'each inner route is re-bound once' if ok else 'an inner route can be appended twice', app, appends[0])
        use = it
    else:
        cs = [(t, p) for t, p in expand_conds([(i, True) for i in it.generators[0].ifs]) if not isinstance(t, ast.BoolOp)]
        ok = len(cs) == 1 and cs[0][1] is False and isinstance_test(cs[0][0], rt, 'NullRoute')
        rep.check('R10.a', fkey(ba, 'skips only the null route'), ok, 'only NullRoute instances are skipped' if ok else
                  'routes are skipped under other conditions than isinstance(rt, NullRoute): %s' % '; '.join(cond_texts(cs)), app, stmt_of(app, it))
        rep.ok('R10.a', fkey(ba, 'once per route'), 'each inner route is re-bound once (one element per item of a single generator)', app, stmt_of(app, it))
        use = stmt_of(app, it)
    kd = KwDict(ba, fl, kwv, [use])
    how, v, st = kd.lookup('prefix')
    ok = how == 'forced' and norm(v) == 'self.prefix'
    rep.check('R10.a', fkey(ba, 'prefix keyword'), ok, "the bind keywords carry prefix = self.prefix (over anything the caller passed) before any route is re-bound" if ok else
              'the embedding prefix is not passed to the re-bound routes (%s %s)' % (how, short(v, 40) if v is not None else ''), app, st or ba.node)
    return kd


def _r10a_cast(rep, app):
    crf = app.func('cast_to_route_factory')
    fl = Flow(crf)
    p0 = crf.params()[0]
    sub = [r for r in returns_of(crf) if isinstance(r.value, ast.Call) and call_name(r.value) == 'SubApplication']
    ok = len(sub) == 1 and len(sub[0].value.args) == 1 and not sub[0].value.keywords and norm(sub[0].value.args[0]) == '*%s' % p0 and \
        any(p is True and txt == 'isinstance(%s[1], Application)' % p0 for txt, p, _ in fl.cond_texts(conds(crf, sub[0])))
    rep.check('R10.a', fkey(crf), ok, '(prefix, Application) tuples become SubApplication(prefix, app)' if ok else
              'cast_to_route_factory no longer maps (prefix, Application) to SubApplication(*entry)', app, crf.node)


def _add_view(app):
    """(fi, flow, route-factory local, [bind_all call statements], [bind call statements], ** dict name)"""
    ad = app.func('Application.add')
    fl = Flow(ad)
    rfv = [norm(s.targets[0]) for s in stmts_of(ad.node) if isinstance(s, ast.Assign) and isinstance(s.value, ast.Call)
           and call_name(s.value) == 'cast_to_route_factory' and len(s.targets) == 1 and isinstance(s.targets[0], ast.Name)]
    if len(rfv) != 1:
        raise AnalysisError('Application.add: the route factory (result of cast_to_route_factory) is not bound to one local')
    rf = rfv[0]
    ball, bone = [], []
    for c in walk_body(ad.node):
        if not isinstance(c, ast.Call):
            continue
        ft = fl.text(c.func, stmt_of(app, c))
        if ft in ('%s.bind_all' % rf, "getattr(%s, 'bind_all', None)" % rf):
            ball.append(c)
        elif ft == '%s.bind' % rf:
            bone.append(c)
    return ad, fl, rf, ball, bone


def _r10a_add(rep, app):
    ad, fl, rf, ball, bone = _add_view(app)
    ok = False
    if len(ball) == 1:
        want = "getattr(%s, 'bind_all', None)" % rf
        ok = any(p is True and want in txt for txt, p, _ in fl.cond_texts(conds(ad, ball[0])))
        # the result is what gets inserted
        st = stmt_of(app, ball[0])
        ok = ok and isinstance(st, ast.Assign) and st.value is ball[0]
    rep.check('R10.a', fkey(ad, 'uses bind_all'), ok, 'add() expands route factories through bind_all' if ok else 'add() does not use bind_all for sub-applications', app, ad.node)


# ------------------------------------------------------------------------------------------------ R10.b
def _single_leaf(fl, slot):
    lv = fl.leaves(_expr(slot), 'exit')
    if len(lv) == 1 and not lv[0].opaque:
        return lv[0]
    return None


def _r10b(rep, app, route):
    bi = route.func('BoundRoute.__init__')
    fl = Flow(bi)
    ps = bi.params()
    kw = _kwarg_name(bi)
    pnames, ppops = popped_flags(bi, 'prefix')
    lf = _single_leaf(fl, 'self.pattern')
    parts = concat_parts(lf.value) if lf is not None else None
    ok = parts is not None and len(parts) == 2 and _is_flag(norm(parts[0]), pnames, ppops) and fl.text(parts[1], lf.stmt) == '%s.pattern' % ps[1]
    rep.check('R10.b', fkey(bi, 'self.pattern'), ok, 'bound pattern = prefix + (already bound) inner pattern, so prefixes compose by depth' if ok else
              'BoundRoute.pattern is not prefix + route.pattern: %s' % (short(lf.value) if lf else None), route, lf.stmt if lf else bi.node)
    ok = len(ppops) == 1 and len(ppops[0].args) == 2 and isinstance(ppops[0].args[1], ast.Constant) and ppops[0].args[1].value == ''
    rep.check('R10.b', fkey(bi, 'prefix default'), ok, "prefix comes from the bind keyword, default ''" if ok else 'prefix is not kwargs.pop(\'prefix\', \'\')', route, bi.node)
    si = app.func('SubApplication.__init__')
    sfl = Flow(si)
    lf = _single_leaf(sfl, 'self.prefix')
    ok = lf is not None and sfl.text(lf.value, lf.stmt) == "%s.rstrip('/')" % si.params()[1]
    rep.check('R10.b', fkey(si, 'self.prefix'), ok, "prefix is stored without a trailing slash ('/' merges at root level)" if ok else
              "SubApplication.prefix is not prefix.rstrip('/')", app, si.node)
    lf = _single_leaf(sfl, 'self.app')
    ok = lf is not None and sfl.text(lf.value, lf.stmt) == si.params()[2]
    rep.check('R10.b', fkey(si, 'self.app'), ok, 'the embedded application is kept as given' if ok else 'SubApplication.app is not the given application', app, si.node)
    lf = _single_leaf(fl, 'self.unbound_route')
    ok = lf is not None and fl.text(lf.value, lf.stmt) == "getattr(%s, 'unbound_route', %s)" % (ps[1], ps[1])
    rep.check('R10.b', fkey(bi, 'unbound_route'), ok, 'endpoint/render always come from the original unbound route, at any depth' if ok else
              'unbound_route is not carried through re-binding', route, bi.node)
    lf = _single_leaf(fl, 'self.bound_apps')
    ok = lf is not None and fl.text(lf.value, lf.stmt) == "getattr(%s, 'bound_apps', []) + [%s]" % (ps[1], ps[2])
    rep.check('R10.b', fkey(bi, 'bound_apps'), ok, 'bound_apps grows inner -> outer; [-1] is the serving application' if ok else
              'bound_apps is not extended with the binding application at the end', route, bi.node)


# ------------------------------------------------------------------------------------------------ R10.d
def _receivers(fi, fl, attrs):
    out = []
    for n in walk_body(fi.node):
        if isinstance(n, ast.Attribute) and n.attr in attrs and isinstance(n.ctx, ast.Load):
            out.append(fl.text(n.value, stmt_of(fi.mod, n)))
    return out


def _r10d(rep, app, route):
    repo = rep.repo
    bi = route.func('BoundRoute.__init__')
    fl = Flow(bi)
    ps = bi.params()
    fnames, fpops = popped_flags(bi, 'rebind_render_error')
    lv = fl.leaves(_expr('self.render_error'), 'exit')
    _require_followed(repo, bi, lv, 'self.render_error')

    def flag_is(leaf, pol):
        return any(p is pol and _is_flag(norm(t), fnames, fpops) for t, p in leaf.conds)
    from_app = [l for l in lv if not l.opaque and flag_is(l, True)]
    from_route = [l for l in lv if not l.opaque and flag_is(l, False)]
    ok = len(lv) == 2 and len(from_app) == 1 and len(from_route) == 1 and \
        fl.text(from_app[0].value, from_app[0].stmt) in ("getattr(%s.error_handler, 'render_error', None)" % ps[2], '%s.error_handler.render_error' % ps[2]) and \
        fl.text(from_route[0].value, from_route[0].stmt) == '%s.render_error' % ps[1]
    rep.check('R10.d', fkey(bi, 'render_error source'), ok, 'render_error is the binding application\'s error handler\'s (unless rebind_render_error is off)' if ok else
              'render_error is not taken from app.error_handler when re-binding: %s' % [short(l.value, 60) for l in lv], route,
              (lv[0].stmt if lv and lv[0].stmt is not None and lv[0].stmt != 'exit' else bi.node))
    ok = len(fpops) == 1 and len(fpops[0].args) == 2 and isinstance(fpops[0].args[1], ast.Constant) and fpops[0].args[1].value is True
    rep.check('R10.d', fkey(bi, 'rebind_render_error default'), ok, 'rebind_render_error defaults to True' if ok else 'rebind_render_error does not default to True', route, bi.node)
    offs = []
    for m in repo.all_internal_modules():
        for n in ast.walk(m.tree):
            if isinstance(n, ast.keyword) and n.arg == 'rebind_render_error':
                offs.append((m, n))
            if isinstance(n, ast.Constant) and n.value == 'rebind_render_error' and m.name != ROUTE:
                offs.append((m, n))
    rep.check('R10.d', 'clastic::rebind_render_error callers', not offs, 'no caller in the package switches rebind_render_error off' if not offs else
              'rebind_render_error is passed at %s' % [(m.relpath, n.value.lineno if hasattr(n, 'value') and hasattr(n.value, 'lineno') else '?') for m, n in offs], route)
    stores = fl.defs.get('self.render_error', [])
    ok = bool(lv) and not any(l.opaque for l in lv) and all(d.kind == 'assign' and d.idx is None for d in stores)
    rep.check('R10.d', fkey(bi, 'self.render_error'), ok, 'the selected render_error is stored on the bound route' if ok else 'self.render_error is not the selected renderer', route, bi.node)
    cre = [c for c in walk_body(bi.node) if isinstance(c, ast.Call) and call_name(c) == 'check_render_error']
    sel = fl.aliases('self.render_error')
    res = fl.aliases('self.resources')
    ok = len(cre) == 1 and len(cre[0].args) == 2 and not cre[0].keywords and norm(cre[0].args[0]) in sel and norm(cre[0].args[1]) in res and \
        any(p is True and isinstance(t, ast.Call) and call_name(t) == 'callable' and len(t.args) == 1 and norm(t.args[0]) in sel for t, p in conds(bi, cre[0]))
    rep.check('R10.d', fkey(bi, 'check_render_error'), ok, 'the error renderer\'s arguments are checked against the merged resources at bind time' if ok else
              'render_error is not checked against self.resources at bind time', route, bi.node)
    d = app.func('Application.dispatch')
    rc = _receivers(d, Flow(d), ('not_found_type', 'uncaught_to_response', 'method_not_allowed_type'))
    if not rc:
        raise AnalysisError('Application.dispatch: no use of an error handler (not_found_type / uncaught_to_response) found')
    ok = all(r == 'self.error_handler' for r in rc)
    rep.check('R10.d', fkey(d, 'err_handler'), ok, 'uncaught errors and 404/405 types come from the serving application\'s error handler' if ok else
              'dispatch does not consult self.error_handler: %s' % sorted(set(rc)), app, d.node)
    hs = route.func('NullRoute.handle_sentinel_condition')
    rc = _receivers(hs, Flow(hs), ('not_found_type', 'method_not_allowed_type'))
    if not rc:
        raise AnalysisError('NullRoute.handle_sentinel_condition: no use of an error handler found')
    ok = all(r == '_application.error_handler' for r in rc)
    rep.check('R10.d', fkey(hs, 'err_handler'), ok, 'the null route asks the serving application for its error types' if ok else
              'the null route does not use _application.error_handler: %s' % sorted(set(rc)), route, hs.node)


# ------------------------------------------------------------------------------------------------ R10.e
def _r10e_plumbing(rep, app, route, kd):
    bi = route.func('BoundRoute.__init__')
    si = app.func('SubApplication.__init__')
    ba = app.func('SubApplication.bind_all')
    names, pops = popped_flags(bi, 'rebind_render')
    ok = len(pops) == 1 and len(pops[0].args) == 2 and isinstance(pops[0].args[1], ast.Constant) and pops[0].args[1].value is True
    rep.check('R10.e', fkey(bi, 'rebind_render default'), ok, 'plain routes re-bind their render argument by default' if ok else 'rebind_render does not default to True', route, bi.node)
    a = si.node.args
    dflt = dict(zip([x.arg for x in a.args][len(a.args) - len(a.defaults):], a.defaults))
    sfl = Flow(si)
    lf = _single_leaf(sfl, 'self.rebind_render')
    ok = isinstance(dflt.get('rebind_render'), ast.Constant) and dflt['rebind_render'].value is False and \
        lf is not None and sfl.text(lf.value, lf.stmt) == 'rebind_render'
    rep.check('R10.e', fkey(si, 'rebind_render'), ok, 'embedded routes keep their own renderers unless re-binding is requested (default False)' if ok else
              'SubApplication(rebind_render=False) default / storage changed', app, si.node)
    if kd is None:
        raise AnalysisError('SubApplication.bind_all: bind keyword dict not identified (see R10.a)')
    how, v, st = kd.lookup('rebind_render')
    ok = how == 'default' and norm(v) == 'self.rebind_render'
    rep.check('R10.e', fkey(ba, 'rebind_render forwarded'), ok, 'bind_all forwards self.rebind_render (a caller\'s value wins)' if ok else
              'bind_all does not forward self.rebind_render (%s %s)' % (how, short(v, 40) if v is not None else ''), app, st or ba.node)
    ad, afl, rf, ball, bone = _add_view(app)
    calls = ball + bone
    kws = set(norm(k.value) for c in calls for k in c.keywords if k.arg is None)
    if len(kws) != 1 or not calls:
        raise AnalysisError('Application.add: the bind calls do not pass one keyword dict (%s)' % sorted(kws))
    akd = KwDict(ad, afl, kws.pop(), [stmt_of(app, c) for c in calls])
    how, v, st = akd.lookup('rebind_render')
    ok = how == 'default' and afl.text(v, st) == "getattr(%s, 'rebind_render', True)" % rf
    rep.check('R10.e', fkey(ad, 'rebind_render default'), ok, 'add() defaults rebind_render from the route factory' if ok else
              'add() does not default rebind_render from the factory (%s %s)' % (how, short(v, 40) if v is not None else ''), app, st or ad.node)


def _r10e_render(rep, app, route):
    bi = route.func('BoundRoute.__init__')
    fl = Flow(bi)
    ps = bi.params()
    names, pops = popped_flags(bi, 'rebind_render')
    ur = _single_leaf(fl, 'self.unbound_route')
    if ur is None:
        raise AnalysisError('BoundRoute.__init__: self.unbound_route has no single definition')
    ur_render = '%s.render' % fl.text(ur.value, ur.stmt)
    prev_render = '%s.render' % ps[1]
    lv = fl.leaves(_expr('self.render'), 'exit')
    _require_followed(rep.repo, bi, lv, 'self.render')
    ctx = dict((id(l), fl.cond_texts(l.conds)) for l in lv)

    def cond(l, text, pol):
        return any(p is pol and txt == text for txt, p, _ in ctx[id(l)])
    is_explicit = 'callable(%s)' % ur_render
    is_prev = 'callable(%s)' % prev_render
    expl = [l for l in lv if cond(l, is_explicit, True)]
    ok = len(expl) == 1 and not expl[0].opaque and fl.text(expl[0].value, expl[0].stmt) == ur_render
    rep.check('R10.e', fkey(bi, 'explicit render wins'), ok, 'an explicit callable render always takes precedence' if ok else
              'explicit callable renders no longer take precedence', route, bi.node)
    fac = [l for l in lv if l not in expl and not l.opaque and isinstance(l.value, ast.Call) and len(l.value.args) == 1 and not l.value.keywords
           and slot_key(l.value.func) is not None and fl.text(l.value.args[0], l.stmt) == ur_render]

    def bind_render_values(t):
        if isinstance(t, ast.BoolOp) and isinstance(t.op, ast.Or):
            return set(fl.text(v, fl.stmt_of(t)) for v in t.values)
        return None
    want = set(['%s is _noop_render' % prev_render, 'not callable(%s)' % prev_render])

    def is_bind_render(vals):
        return vals is not None and len(vals) == 3 and want <= vals and any(_is_flag(x, names, pops) for x in vals - want)
    ok = len(fac) == 1 and cond(fac[0], is_explicit, False) and \
        any(p is True and is_bind_render(bind_render_values(t)) for t, p in fac[0].conds)
    rep.check('R10.e', fkey(bi, 'factory branch'), ok, 'a render argument is re-interpreted by a render factory only when re-binding applies' if ok else
              'the render-factory branch is not conditioned on bind_render', route, fac[0].stmt if fac else bi.node)
    carry = [l for l in lv if l not in expl and l not in fac]
    keep = [l for l in carry if not l.opaque and fl.text(l.value, l.stmt) == prev_render and cond(l, is_prev, True)]
    noop = [l for l in carry if not l.opaque and norm(l.value) == '_noop_render' and cond(l, is_prev, False)]
    ok = len(carry) == 2 and len(keep) == 1 and len(noop) == 1
    rep.check('R10.e', fkey(bi, 'carry-through branch'), ok, 'otherwise the previously bound renderer is carried through' if ok else
              'the carry-through branch of render selection changed: %s' % [short(l.value, 40) for l in carry], route,
              carry[0].stmt if carry and isinstance(carry[0].stmt, ast.AST) else bi.node)
    ors = [n for n in walk_body(bi.node) if isinstance(n, ast.BoolOp) and isinstance(n.op, ast.Or) and
           any(_is_flag(x, names, pops) for x in bind_render_values(n))]
    ok = len(ors) == 1 and is_bind_render(bind_render_values(ors[0]))
    rep.check('R10.e', fkey(bi, 'bind_render'), ok, 're-binding applies when requested or when nothing callable was bound yet' if ok else
              'bind_render is not "rebind_render or route.render is _noop_render or not callable(route.render)"', route, ors[0] if ors else bi.node)
    ok = False
    if len(fac) == 1:
        d = fl.single_def(slot_key(fac[0].value.func), fac[0].stmt)
        v = d.value if d is not None else None
        if isinstance(v, ast.Call) and call_name(v) == 'first' and len(v.args) >= 1 and norm(kwarg(v, 'key')) == 'callable':
            a0, at0 = _deref(fl, v.args[0], d.stmt)
            if isinstance(a0, ast.Call) and call_name(a0) == 'reversed' and len(a0.args) == 1:
                l0, _ = _deref(fl, a0.args[0], at0)
                ok = isinstance(l0, ast.ListComp) and len(l0.generators) == 1 and fl.text(l0.generators[0].iter, fl.stmt_of(l0)) == 'self.bound_apps'
    rep.check('R10.e', fkey(bi, 'render factory'), ok, 'the render factory is that of the most recently bound (outermost) application that has one' if ok else
              'render factory selection is not first(reversed([...bound_apps...]), key=callable)', route, bi.node)
    stores = fl.defs.get('self.render', [])
    ok = bool(lv) and not any(l.opaque for l in lv) and all(d.kind == 'assign' and d.idx is None for d in stores)
    rep.check('R10.e', fkey(bi, 'self.render'), ok, 'the selected renderer is stored and used for the chain' if ok else 'self.render is not the selected renderer', route, bi.node)


def run(rep):
    repo = rep.repo
    app, route = repo.mod(APP), repo.mod(ROUTE)
    rep.decide('R10.a every inner route re-bound in order with the prefix; R10.b prefix composition; R10.c middleware / '
               'resource precedence; R10.d outer error handling; R10.e renderer / slash plumbing')
    rep.decline('response equivalence nested vs flat (behavioural); render_factory selection as a value computation')
    rep.rule('R10.a', 'sequence rules on SubApplication.bind_all / cast_to_route_factory')
    rep.rule('R10.b', 'dataflow of the prefix')
    rep.rule('R10.c', 'merge order and layer order (shared with C03 / C02)')
    rep.rule('R10.d', 'render_error provenance')
    rep.rule('R10.e', 'kwarg-name agreement and render selection branches')

    # ---- R10.a -----------------------------------------------------------
    def bind_all_rules():
        return _r10a(rep, app, route)
    kd = rep.guard(bind_all_rules)

    def cast_rule():
        _r10a_cast(rep, app)
    rep.guard(cast_rule)

    def running_index():
        from .c06 import check_running_index
        check_running_index(rep, 'R10.a')
    rep.guard(running_index)

    def add_uses_bind_all():
        _r10a_add(rep, app)
    rep.guard(add_uses_bind_all)
    rep.guard(rep.floor, 'R10.a', 7)

    # ---- R10.b -----------------------------------------------------------
    def prefix_rules():
        _r10b(rep, app, route)
    rep.guard(prefix_rules)
    rep.guard(rep.floor, 'R10.b', 6)

    # ---- R10.c -----------------------------------------------------------
    def merge_order():
        chain.check_merge_order(rep, 'R10.c')

    def request_layers():
        chain.check_request_layers(rep, 'R10.c')

    def slash_plumbing():
        from .c07 import check_slash_plumbing
        check_slash_plumbing(rep, 'R10.c')
    rep.guard(merge_order)
    rep.guard(request_layers)
    rep.guard(slash_plumbing)
    rep.guard(rep.floor, 'R10.c', 24)

    # ---- R10.d -----------------------------------------------------------
    def error_handling_rules():
        _r10d(rep, app, route)
    rep.guard(error_handling_rules)
    rep.guard(rep.floor, 'R10.d', 7)

    # ---- R10.e -----------------------------------------------------------
    def kwarg_agreement():
        from .c07 import bind_kwarg_agreement
        bind_kwarg_agreement(rep, 'R10.e')

    def render_plumbing():
        _r10e_plumbing(rep, app, route, kd)

    def render_selection():
        _r10e_render(rep, app, route)
    rep.guard(kwarg_agreement)
    rep.guard(render_plumbing)
    rep.guard(render_selection)
    rep.guard(rep.floor, 'R10.e', 12)
