"""C10 -- Embedding a sub-application is equivalent to declaring its routes flat.

Equivalence of two applications on all requests is behavioural; decided is that each *ingredient* of the
flat declaration is computed the way the property says:

  R10.a  re-binding covers every inner route in order: SubApplication.bind_all walks self.app.routes
         directly, skips only NullRoute instances, appends rt.bind(app, **kwargs) for each, with
         kwargs['prefix'] = self.prefix; add() inserts the returned list contiguously (R06.a);
         cast_to_route_factory turns (prefix, Application) into SubApplication(*in_arg);
  R10.b  prefixing composes: BoundRoute.pattern = prefix + route.pattern (the already-bound inner
         pattern), prefix defaults to '', SubApplication.prefix = prefix.rstrip('/');
  R10.c  middleware order (= R03.d), resource precedence at bind and request time (= R02.c), built-in
         _application is the outermost binding application;
  R10.d  error handling comes from the application being bound into: render_error is taken from
         app.error_handler when rebind_render_error (default True, no caller switches it off), checked
         against the merged resources; dispatch consults self.error_handler;
  R10.e  renderer stickiness plumbing: rebind_render flows SubApplication.__init__ (default False) -> add
         -> bind_all -> BoundRoute.__init__ under one keyword; explicit callable renders win; the render
         factory is that of the most recently bound application able to provide one; every bind keyword a
         caller writes is popped by BoundRoute.__init__.
Declined: the equivalence itself; render_factory selection as a value computation.
"""
import ast

from ..core import AnalysisError, norm, short
from . import chain
from .c07 import bind_kwarg_agreement
from .common import (cfg_of, fkey, conds, has_cond, cond_texts, stmts_of, walk_body, call_tail, call_name, returns_of, stmt_of, kwarg)

APP, ROUTE = 'clastic.application', 'clastic.route'


def run(rep):
    repo = rep.repo
    app, route = repo.mod(APP), repo.mod(ROUTE)
    rep.decide('R10.a every inner route re-bound in order with the prefix; R10.b prefix composition; R10.c middleware / '
               'resource precedence; R10.d outer error handling; R10.e renderer / slash plumbing')
    rep.decline('response equivalence nested vs flat (behavioural); render_factory selection as a value computation')
    rep.rule('R10.a', 'sequence rules on SubApplication.bind_all / cast_to_route_factory')
    rep.rule('R10.b', 'dataflow of the prefix')
    rep.rule('R10.c', 'merge order and layer order (shared with C03 / C02)')
    rep.rule('R10.d', 'render_error provenance')
    rep.rule('R10.e', 'kwarg-name agreement and render selection branches')

    # ---- R10.a -----------------------------------------------------------
    ba = app.func('SubApplication.bind_all')
    bcfg = cfg_of(ba)
    loops = [s for s in stmts_of(ba.node) if isinstance(s, ast.For)]
    ok = len(loops) == 1 and norm(loops[0].iter) == 'self.app.routes'
    rep.check('R10.a', fkey(ba, 'iterates inner routes'), ok, 'walks self.app.routes directly (inner order preserved)' if ok else
              'bind_all does not iterate self.app.routes directly: %s' % (norm(loops[0].iter) if loops else None), app, loops[0] if loops else ba.node)
    if not ok:
        return
    lp = loops[0]
    rt = norm(lp.target)
    rets = returns_of(ba)
    rv = norm(rets[0].value) if len(rets) == 1 else None
    apps = [c for c in ast.walk(lp) if isinstance(c, ast.Call) and norm(c.func) == '%s.append' % rv]
    ok = len(apps) == 1
    if ok:
        v = apps[0].args[0]
        if isinstance(v, ast.Name):
            srcs = [s.value for s in lp.body if isinstance(s, ast.Assign) and norm(s.targets[0]) == v.id]
            v = srcs[0] if len(srcs) == 1 else v
        ok = isinstance(v, ast.Call) and norm(v.func) == '%s.bind' % rt and norm(v.args[0]) == ba.params()[1] and \
            any(k.arg is None and norm(k.value) == 'kwargs' for k in v.keywords)
    rep.check('R10.a', fkey(ba, 'append rt.bind(app, **kwargs)'), ok, 'each inner route is re-bound to the embedding application with the bind keywords' if ok else
              'bind_all does not append rt.bind(app, **kwargs) for each inner route', app, apps[0] if apps else lp)
    if apps:
        cs = conds(ba, apps[0])
        skips = [t for t, p in cs]
        ok = len(cs) == 1 and cs[0][1] is False and norm(cs[0][0]) == 'isinstance(%s, NullRoute)' % rt
        conts = [s for s in ast.walk(lp) if isinstance(s, (ast.Continue, ast.Break))]
        ok = ok and len(conts) == 1 and isinstance(conts[0], ast.Continue)
        rep.check('R10.a', fkey(ba, 'skips only the null route'), ok, 'only NullRoute instances are skipped' if ok else
                  'routes are skipped under other conditions than isinstance(rt, NullRoute): %s' % '; '.join(cond_texts(cs)), app, apps[0])
        # exactly one append per iteration
        iter_nodes = [n.id for n in bcfg.nodes if n.kind == 'iter' and n.stmt is lp]
        ap_nodes = bcfg.nodes_of(stmt_of(app, apps[0]))
        ok = not (set(ap_nodes) & bcfg.reach([m for n in ap_nodes for m in bcfg.succ[n]], avoid=bcfg.nodes_of(lp)))
        rep.check('R10.a', fkey(ba, 'once per route'), ok, 'each inner route is re-bound once' if ok else 'an inner route can be appended twice', app, apps[0])
    pf = [s for s in stmts_of(ba.node) if isinstance(s, ast.Assign) and norm(s.targets[0]) == "kwargs['prefix']"]
    ok = len(pf) == 1 and norm(pf[0].value) == 'self.prefix' and bcfg.must_pass(bcfg.nodes_of(pf[0]), bcfg.entry, bcfg.nodes_of(lp))
    rep.check('R10.a', fkey(ba, 'prefix keyword'), ok, "kwargs['prefix'] = self.prefix before any route is re-bound" if ok else
              'the embedding prefix is not passed to the re-bound routes', app, pf[0] if pf else ba.node)
    crf = app.func('cast_to_route_factory')
    sub = [r for r in returns_of(crf) if isinstance(r.value, ast.Call) and call_name(r.value) == 'SubApplication']
    ok = len(sub) == 1 and norm(sub[0].value.args[0]) == '*%s' % crf.params()[0] and \
        has_cond(conds(crf, sub[0]), lambda t: norm(t) == 'isinstance(%s[1], Application)' % crf.params()[0], True)
    rep.check('R10.a', fkey(crf), ok, '(prefix, Application) tuples become SubApplication(prefix, app)' if ok else
              'cast_to_route_factory no longer maps (prefix, Application) to SubApplication(*entry)', app, crf.node)
    ad = app.func('Application.add')
    rfv = [norm(s.targets[0]) for s in stmts_of(ad.node) if isinstance(s, ast.Assign) and isinstance(s.value, ast.Call)
           and call_name(s.value) == 'cast_to_route_factory']
    rf = rfv[0] if rfv else 'rf'
    ok = any(isinstance(s, ast.Assign) and isinstance(s.value, ast.Call) and norm(s.value.func) == '%s.bind_all' % rf and
             has_cond(conds(ad, s), lambda t: "getattr(%s, 'bind_all', None)" % rf in norm(t), True) for s in stmts_of(ad.node))
    from .c06 import check_running_index
    check_running_index(rep, 'R10.a')
    rep.check('R10.a', fkey(ad, 'uses bind_all'), ok, 'add() expands route factories through bind_all' if ok else 'add() does not use bind_all for sub-applications', app, ad.node)
    rep.floor('R10.a', 7)

    # ---- R10.b -----------------------------------------------------------
    bi = route.func('BoundRoute.__init__')
    ps = bi.params()
    pt = [s for s in stmts_of(bi.node) if isinstance(s, ast.Assign) and norm(s.targets[0]) == 'self.pattern']
    ok = len(pt) == 1 and norm(pt[0].value) == 'prefix + %s.pattern' % ps[1]
    rep.check('R10.b', fkey(bi, 'self.pattern'), ok, 'bound pattern = prefix + (already bound) inner pattern, so prefixes compose by depth' if ok else
              'BoundRoute.pattern is not prefix + route.pattern: %s' % (short(pt[0].value) if pt else None), route, pt[0] if pt else bi.node)
    pp = [s for s in stmts_of(bi.node) if isinstance(s, ast.Assign) and norm(s.targets[0]) == 'prefix']
    ok = len(pp) == 1 and norm(pp[0].value) == "kwargs.pop('prefix', '')"
    rep.check('R10.b', fkey(bi, 'prefix default'), ok, "prefix comes from the bind keyword, default ''" if ok else 'prefix is not kwargs.pop(\'prefix\', \'\')', route, bi.node)
    si = app.func('SubApplication.__init__')
    sp = [s for s in stmts_of(si.node) if isinstance(s, ast.Assign) and norm(s.targets[0]) == 'self.prefix']
    ok = len(sp) == 1 and norm(sp[0].value) == "%s.rstrip('/')" % si.params()[1]
    rep.check('R10.b', fkey(si, 'self.prefix'), ok, "prefix is stored without a trailing slash ('/' merges at root level)" if ok else
              "SubApplication.prefix is not prefix.rstrip('/')", app, si.node)
    sa = [s for s in stmts_of(si.node) if isinstance(s, ast.Assign) and norm(s.targets[0]) == 'self.app']
    ok = len(sa) == 1 and norm(sa[0].value) == si.params()[2]
    rep.check('R10.b', fkey(si, 'self.app'), ok, 'the embedded application is kept as given' if ok else 'SubApplication.app is not the given application', app, si.node)
    ur = [s for s in stmts_of(bi.node) if isinstance(s, ast.Assign) and 'self.unbound_route' in [norm(t) for t in s.targets]]
    ok = len(ur) == 1 and norm(ur[0].value) == "getattr(%s, 'unbound_route', %s)" % (ps[1], ps[1])
    rep.check('R10.b', fkey(bi, 'unbound_route'), ok, 'endpoint/render always come from the original unbound route, at any depth' if ok else
              'unbound_route is not carried through re-binding', route, bi.node)
    bapps = [s for s in stmts_of(bi.node) if isinstance(s, ast.Assign) and norm(s.targets[0]) == 'self.bound_apps']
    ok = len(bapps) == 1 and norm(bapps[0].value) == "getattr(%s, 'bound_apps', []) + [%s]" % (ps[1], ps[2])
    rep.check('R10.b', fkey(bi, 'bound_apps'), ok, 'bound_apps grows inner -> outer; [-1] is the serving application' if ok else
              'bound_apps is not extended with the binding application at the end', route, bi.node)
    rep.floor('R10.b', 6)

    # ---- R10.c -----------------------------------------------------------
    chain.check_merge_order(rep, 'R10.c')
    chain.check_request_layers(rep, 'R10.c')
    from .c07 import check_slash_plumbing
    check_slash_plumbing(rep, 'R10.c')
    rep.floor('R10.c', 24)

    # ---- R10.d -----------------------------------------------------------
    rr = [s for s in stmts_of(bi.node) if isinstance(s, ast.Assign) and norm(s.targets[0]) == 'render_error']
    from_app = [s for s in rr if has_cond(conds(bi, s), lambda t: norm(t) == 'rebind_render_error', True)]
    from_route = [s for s in rr if has_cond(conds(bi, s), lambda t: norm(t) == 'rebind_render_error', False)]
    ok = len(from_app) == 1 and norm(from_app[0].value) in ("getattr(%s.error_handler, 'render_error', None)" % ps[2], '%s.error_handler.render_error' % ps[2]) and \
        len(from_route) == 1 and norm(from_route[0].value) == '%s.render_error' % ps[1]
    rep.check('R10.d', fkey(bi, 'render_error source'), ok, 'render_error is the binding application\'s error handler\'s (unless rebind_render_error is off)' if ok else
              'render_error is not taken from app.error_handler when re-binding', route, bi.node)
    pop = [c for c in walk_body(bi.node) if isinstance(c, ast.Call) and norm(c.func) == 'kwargs.pop' and isinstance(c.args[0], ast.Constant)
           and c.args[0].value == 'rebind_render_error']
    ok = len(pop) == 1 and isinstance(pop[0].args[1], ast.Constant) and pop[0].args[1].value is True
    rep.check('R10.d', fkey(bi, 'rebind_render_error default'), ok, 'rebind_render_error defaults to True' if ok else 'rebind_render_error does not default to True', route, bi.node)
    offs = []
    for m in repo.all_internal_modules():
        for n in ast.walk(m.tree):
            if isinstance(n, ast.keyword) and n.arg == 'rebind_render_error':
                offs.append((m, n))
            if isinstance(n, ast.Constant) and n.value == 'rebind_render_error' and m.name != ROUTE:
                offs.append((m, n))
    rep.check('R10.d', 'clastic::rebind_render_error callers', not offs, 'no caller in the package switches rebind_render_error off' if not offs else
              'rebind_render_error is passed at %s' % [(m.relpath, n.value.lineno if hasattr(n, 'value') and hasattr(n.value, 'lineno') else '?') for m, n in offs], route)
    st = [s for s in stmts_of(bi.node) if isinstance(s, ast.Assign) and norm(s.targets[0]) == 'self.render_error']
    ok = len(st) == 1 and norm(st[0].value) == 'render_error'
    rep.check('R10.d', fkey(bi, 'self.render_error'), ok, 'the selected render_error is stored on the bound route' if ok else 'self.render_error is not the selected renderer', route, bi.node)
    cre = [c for c in walk_body(bi.node) if isinstance(c, ast.Call) and call_name(c) == 'check_render_error']
    ok = len(cre) == 1 and [norm(a) for a in cre[0].args] == ['render_error', 'self.resources'] and \
        has_cond(conds(bi, cre[0]), lambda t: norm(t) == 'callable(render_error)', True)
    rep.check('R10.d', fkey(bi, 'check_render_error'), ok, 'the error renderer\'s arguments are checked against the merged resources at bind time' if ok else
              'render_error is not checked against self.resources at bind time', route, bi.node)
    d = app.func('Application.dispatch')
    eh = [s for s in stmts_of(d.node) if isinstance(s, ast.Assign) and norm(s.targets[0]) == 'err_handler']
    ok = len(eh) == 1 and norm(eh[0].value) == 'self.error_handler'
    rep.check('R10.d', fkey(d, 'err_handler'), ok, 'uncaught errors and 404/405 types come from the serving application\'s error handler' if ok else
              'dispatch does not consult self.error_handler', app, d.node)
    hs = route.func('NullRoute.handle_sentinel_condition')
    ok = any(isinstance(s, ast.Assign) and norm(s.value) == '_application.error_handler' for s in stmts_of(hs.node))
    rep.check('R10.d', fkey(hs, 'err_handler'), ok, 'the null route asks the serving application for its error types' if ok else
              'the null route does not use _application.error_handler', route, hs.node)
    rep.floor('R10.d', 7)

    # ---- R10.e -----------------------------------------------------------
    popped, written = bind_kwarg_agreement(rep, 'R10.e')
    d_ = popped.get('rebind_render')
    ok = isinstance(d_, ast.Constant) and d_.value is True
    rep.check('R10.e', fkey(bi, 'rebind_render default'), ok, 'plain routes re-bind their render argument by default' if ok else 'rebind_render does not default to True', route, bi.node)
    a = si.node.args
    dflt = dict(zip([x.arg for x in a.args][len(a.args) - len(a.defaults):], a.defaults))
    ok = isinstance(dflt.get('rebind_render'), ast.Constant) and dflt['rebind_render'].value is False and \
        any(isinstance(s, ast.Assign) and norm(s.targets[0]) == 'self.rebind_render' and norm(s.value) == 'rebind_render' for s in stmts_of(si.node))
    rep.check('R10.e', fkey(si, 'rebind_render'), ok, 'embedded routes keep their own renderers unless re-binding is requested (default False)' if ok else
              'SubApplication(rebind_render=False) default / storage changed', app, si.node)
    ok = any(isinstance(c, ast.Call) and norm(c.func) == 'kwargs.setdefault' and isinstance(c.args[0], ast.Constant) and c.args[0].value == 'rebind_render'
             and norm(c.args[1]) == 'self.rebind_render' for c in walk_body(ba.node))
    rep.check('R10.e', fkey(ba, 'rebind_render forwarded'), ok, 'bind_all forwards self.rebind_render' if ok else 'bind_all does not forward self.rebind_render', app, ba.node)
    ok = any(isinstance(c, ast.Call) and norm(c.func) == 'kwargs.setdefault' and isinstance(c.args[0], ast.Constant) and c.args[0].value == 'rebind_render'
             and norm(c.args[1]) == "getattr(%s, 'rebind_render', True)" % rf for c in walk_body(ad.node))
    rep.check('R10.e', fkey(ad, 'rebind_render default'), ok, 'add() defaults rebind_render from the route factory' if ok else
              'add() does not default rebind_render from the factory', app, ad.node)
    # render selection branches
    rs = [s for s in stmts_of(bi.node) if isinstance(s, ast.Assign) and norm(s.targets[0]) == 'render']
    is_explicit = lambda t: norm(t) == 'callable(unbound_route.render)'
    expl = [s for s in rs if has_cond(conds(bi, s), is_explicit, True)]
    ok = len(expl) == 1 and norm(expl[0].value) == 'unbound_route.render'
    rep.check('R10.e', fkey(bi, 'explicit render wins'), ok, 'an explicit callable render always takes precedence' if ok else
              'explicit callable renders no longer take precedence', route, bi.node)
    fac = [s for s in rs if isinstance(s.value, ast.Call) and norm(s.value.func) == 'render_factory']
    ok = len(fac) == 1 and norm(fac[0].value.args[0]) == 'unbound_route.render' and \
        has_cond(conds(bi, fac[0]), is_explicit, False) and any('bind_render' in norm(t) and p is True for t, p in conds(bi, fac[0]))
    rep.check('R10.e', fkey(bi, 'factory branch'), ok, 'a render argument is re-interpreted by a render factory only when re-binding applies' if ok else
              'the render-factory branch is not conditioned on bind_render', route, fac[0] if fac else bi.node)
    carry = [s for s in rs if s not in expl and s not in fac]
    # (conditional expressions are normalised to if/else by the loader)
    is_prev = lambda t: norm(t) == 'callable(%s.render)' % ps[1]
    keep = [s for s in carry if norm(s.value) == '%s.render' % ps[1] and has_cond(conds(bi, s), is_prev, True)]
    noop = [s for s in carry if norm(s.value) == '_noop_render' and has_cond(conds(bi, s), is_prev, False)]
    ok = len(carry) == 2 and len(keep) == 1 and len(noop) == 1
    rep.check('R10.e', fkey(bi, 'carry-through branch'), ok, 'otherwise the previously bound renderer is carried through' if ok else
              'the carry-through branch of render selection changed', route, carry[0] if carry else bi.node)
    br = [s for s in stmts_of(bi.node) if isinstance(s, ast.Assign) and norm(s.targets[0]) == 'bind_render']
    ok = len(br) == 1 and isinstance(br[0].value, ast.BoolOp) and isinstance(br[0].value.op, ast.Or) and \
        set(norm(v) for v in br[0].value.values) == {'rebind_render', '%s.render is _noop_render' % ps[1], 'not callable(%s.render)' % ps[1]}
    rep.check('R10.e', fkey(bi, 'bind_render'), ok, 're-binding applies when requested or when nothing callable was bound yet' if ok else
              'bind_render is not "rebind_render or route.render is _noop_render or not callable(route.render)"', route, br[0] if br else bi.node)
    rf = [s for s in stmts_of(bi.node) if isinstance(s, ast.Assign) and norm(s.targets[0]) == 'render_factory' and isinstance(s.value, ast.Call)
          and call_name(s.value) == 'first']
    ok = len(rf) == 1 and norm(rf[0].value.args[0]) == 'reversed(render_factory_list)' and norm(kwarg(rf[0].value, 'key')) == 'callable'
    rfl = [s for s in stmts_of(bi.node) if isinstance(s, ast.Assign) and norm(s.targets[0]) == 'render_factory_list']
    ok = ok and len(rfl) == 1 and isinstance(rfl[0].value, ast.ListComp) and norm(rfl[0].value.generators[0].iter) == 'self.bound_apps'
    rep.check('R10.e', fkey(bi, 'render factory'), ok, 'the render factory is that of the most recently bound (outermost) application that has one' if ok else
              'render factory selection is not first(reversed([...bound_apps...]), key=callable)', route, bi.node)
    sr = [s for s in stmts_of(bi.node) if isinstance(s, ast.Assign) and norm(s.targets[0]) == 'self.render']
    ok = len(sr) == 1 and norm(sr[0].value) == 'render'
    rep.check('R10.e', fkey(bi, 'self.render'), ok, 'the selected renderer is stored and used for the chain' if ok else 'self.render is not the selected renderer', route, bi.node)
    rep.floor('R10.e', 12)
