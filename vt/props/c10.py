"""C10 -- Embedding a sub-application is equivalent to declaring its routes flat.

Equivalence of two applications on all requests is behavioural; decided is that each *ingredient* of the
flat declaration is computed the way the property says:

  R10.a  re-binding covers every inner route in order: SubApplication.bind_all walks self.app.routes
         directly (loop or list comprehension), skips only NullRoute instances, yields rt.bind(app, **kw) once
         for each, where the keyword dict carries 'prefix' = self.prefix on top of whatever the caller passed;
         add() inserts the returned list contiguously (R06.a); cast_to_route_factory turns
         (prefix, Application) into SubApplication(*in_arg);
  R10.b  prefixing composes: BoundRoute.pattern = prefix + route.pattern (the already-bound inner
         pattern), prefix defaults to '', SubApplication.prefix = prefix.rstrip('/'); what a bound route derives
         from a URL pattern (matcher, converters, the names the URL provides) is derived from self.pattern of this
         binding, never read off / compiled from the route being re-bound (a segment bound by the prefix is provided
         like any other, as in the flat declaration);
  R10.c  middleware order (= R03.d), resource precedence at bind and request time (= R02.c), built-in
         _application is the outermost binding application; the chain a bound route executes is compiled at that
         binding from the merged list (never taken over from the route being re-bound); every ``.slash_mode`` that
         Application.dispatch reads (directly or through a local it hoisted) is that of the route it is handling -- the
         mode its pattern was compiled for -- never the application's (they differ under inherit_slashes=False);
  R10.d  error handling comes from the application being bound into: the value that ends up in
         self.render_error is app.error_handler's when rebind_render_error (default True, no caller switches it
         off) and the route's otherwise; it is checked against the merged resources; dispatch consults
         self.error_handler;
  R10.e  renderer stickiness plumbing: rebind_render flows SubApplication.__init__ (default False) -> add
         -> bind_all -> BoundRoute.__init__ under one keyword; explicit callable renders win; the render
         factory is that of the most recently bound application able to provide one; every bind keyword a
         caller writes is popped by BoundRoute.__init__; the stand-in stored when no factory has interpreted a
         non-callable render argument is the marker the next binding tests for (``route.render is _noop_render``): a
         value a private helper computes is followed through its returns -- a function object it creates per call is
         not that marker (writer / reader agreement on the sentinel).
Declined: the equivalence itself; render_factory selection as a value computation.

Values are recognised by role, not by the local that carries them: ``effects.Flow`` (reaching definitions on the
CFG) gives the values that can flow into ``self.render`` / ``self.render_error`` with their path conditions, and
resolves named temporaries (``unbound_render = self.unbound_route.render``) to what they stand for.
"""
import ast
import copy

from ..core import AnalysisError, norm, short
from ..cfg import expand_conds
from ..effects import Flow, slot_key, effects_in, callee_of
from ..astutil import argn
from .. import layers as layers_
from . import chain
from .common import (cfg_of, fkey, conds, has_cond, cond_texts, stmts_of, walk_body, call_tail, call_name, returns_of, stmt_of, kwarg,
                     isinstance_test)

APP, ROUTE = 'clastic.application', 'clastic.route'


# ------------------------------------------------------------------------------------------------ helpers
def _expr(text):
    return ast.parse(text, mode='eval').body


def _deref(fl, expr, at):
    """Follow a local / self-attribute with a single reaching assignment to the assigned expression."""
    for _ in range(6):
        k = slot_key(expr)
        if k is None:
            break
        d = fl.single_def(k, at)
        if d is None:
            break
        expr, at = d.value, d.stmt
    return expr, at


def _require_followed(repo, fi, leaves, what, made=None):
    """A value handed out by a helper of the analysed package that the front-end could not dissolve into the caller
    cannot be judged here: analysis gap, not a violation."""
    from ..effects import callee_of
    for l in leaves:
        v = l.value
        if isinstance(v, ast.Call):
            callee = callee_of(repo, fi, v)
            if callee is not None and callee.name.startswith('_'):
                if made is not None and _returns_own_function(callee):
                    made[id(l)] = callee        # followed: a function object the helper creates per call
                    continue
                raise AnalysisError('%s: %s is computed by %s, which could not be followed' % (fi.qualname, what, callee.qualname))


def _returns_own_function(callee):
    """Every ``return`` of the helper hands out a function it defines itself (a nested ``def`` / a lambda): a new function
    object per call -- whatever else it is, it is not any module-level function a caller could compare it with."""
    if isinstance(callee.node, ast.Lambda) or any(isinstance(n, (ast.Yield, ast.YieldFrom)) for n in walk_body(callee.node)):
        return False
    nested = set(n.name for n in callee.node.body if isinstance(n, (ast.FunctionDef, ast.AsyncFunctionDef)))
    stored = set(n.id for n in walk_body(callee.node) if isinstance(n, ast.Name) and isinstance(n.ctx, ast.Store))
    rets = [r for r in returns_of(callee)]
    return bool(rets) and all(r.value is not None and (isinstance(r.value, ast.Lambda) or
                              (isinstance(r.value, ast.Name) and r.value.id in nested and r.value.id not in stored)) for r in rets)


def _kwarg_name(fi):
    a = fi.node.args
    return a.kwarg.arg if a.kwarg is not None else None


class Flags(object):
    """Bind keywords of a ``**kw`` function by role: which expressions stand for ``kw.pop(K, D)``.

    Recognised: the pop call itself, locals (chains of plain copies, tuple packing) assigned from it, and the spelled-out
    default ``x = D`` ... ``if K in kw: x = kw.pop(K)``."""

    def __init__(self, fl, fi, repo=None):
        self.fl, self.fi = fl, fi
        self.repo = repo if repo is not None else fi.mod.repo
        self.kw = _kwarg_name(fi)
        self._cache = {}

    def _table(self, gen_target, gen_iter, elt_or_value):
        """``kw.pop(n, d)`` driven by ``for n, d in TABLE`` with TABLE a module-level constant of (name, default) pairs:
        the list of pairs, else None."""
        if not (isinstance(gen_target, (ast.Tuple, ast.List)) and len(gen_target.elts) == 2 and all(isinstance(e, ast.Name) for e in gen_target.elts)):
            return None
        n, d = gen_target.elts[0].id, gen_target.elts[1].id
        c = elt_or_value
        if not (isinstance(c, ast.Call) and isinstance(c.func, ast.Attribute) and c.func.attr == 'pop' and norm(c.func.value) == self.kw and
                [norm(a) for a in c.args] == [n, d] and not c.keywords):
            return None
        tab = fold_const(self.fi, gen_iter)
        if isinstance(tab, dict):
            tab = list(tab.items())
        if not isinstance(tab, (tuple, list)) or not all(isinstance(p, (tuple, list)) and len(p) == 2 and isinstance(p[0], str) for p in tab):
            return None
        return [(p[0], p[1]) for p in tab]

    def _table_entry(self, expr, at):
        fl = self.fl
        # a, b, c = [kw.pop(n, d) for n, d in TABLE]
        k = slot_key(expr)
        if k is not None:
            ds = fl.reaching(k, at)
            if len(ds) == 1 and ds[0].kind == 'assign' and isinstance(ds[0].idx, int) and ds[0].idx >= 0:
                v = ds[0].value
                if isinstance(v, ast.Call) and call_name(v) in ('list', 'tuple') and len(v.args) == 1:
                    v = v.args[0]
                if isinstance(v, (ast.ListComp, ast.GeneratorExp)) and len(v.generators) == 1 and not v.generators[0].ifs:
                    tab = self._table(v.generators[0].target, v.generators[0].iter, v.elt)
                    tg = [t for t in ds[0].stmt.targets if isinstance(t, (ast.Tuple, ast.List))]
                    if tab is not None and tg and len(tg[0].elts) == len(tab) and not any(isinstance(e, ast.Starred) for e in tg[0].elts):
                        return tab[ds[0].idx]
            return None
        # opts = {}; for n, d in TABLE: opts[n] = kw.pop(n, d) ... opts['key']      (or a dict comprehension)
        if isinstance(expr, ast.Subscript) and isinstance(expr.value, ast.Name) and isinstance(expr.slice, ast.Constant):
            dv = expr.value.id
            d = fl.single_def(dv, at)
            if d is None:
                return None
            tab = None
            if isinstance(d.value, ast.DictComp) and len(d.value.generators) == 1 and not d.value.generators[0].ifs and \
                    norm(d.value.key) == norm(d.value.generators[0].target.elts[0] if isinstance(d.value.generators[0].target, ast.Tuple) else None):
                tab = self._table(d.value.generators[0].target, d.value.generators[0].iter, d.value.value)
            elif isinstance(d.value, ast.Dict) and not d.value.keys:
                fills = [e for e in effects_in(self.fi.node) if e.root == dv]
                loops = [l for l in stmts_of(self.fi.node) if isinstance(l, ast.For) and len(l.body) == 1 and not l.orelse and isinstance(l.body[0], ast.Assign)
                         and len(l.body[0].targets) == 1 and isinstance(l.body[0].targets[0], ast.Subscript) and norm(l.body[0].targets[0].value) == dv]
                if len(fills) == 1 and len(loops) == 1 and fills[0].node is loops[0].body[0] and isinstance(loops[0].target, ast.Tuple) and \
                        norm(loops[0].body[0].targets[0].slice) == norm(loops[0].target.elts[0]) and \
                        fl.cfg.must_pass(fl.cfg.nodes_of(loops[0]), fl.cfg.entry, fl.cfg.nodes_of(at)):
                    tab = self._table(loops[0].target, loops[0].iter, loops[0].body[0].value)
            if tab is not None:
                hit = [p for p in tab if p[0] == expr.slice.value]
                if len(hit) == 1:
                    return hit[0]
        return None

    def _pop(self, e):
        """(key, default expr or None) when ``e`` is ``kw.pop('key'[, default])``"""
        if isinstance(e, ast.Call) and isinstance(e.func, ast.Attribute) and e.func.attr == 'pop' and norm(e.func.value) == self.kw and \
                e.args and isinstance(e.args[0], ast.Constant) and isinstance(e.args[0].value, str) and not e.keywords and len(e.args) <= 2:
            return e.args[0].value, (e.args[1] if len(e.args) == 2 else None)
        return None

    def pops(self, key):
        return [c for c in walk_body(self.fi.node) if self._pop(c) and self._pop(c)[0] == key]

    def key_of(self, expr, at=None):
        """(key, default expr) when ``expr`` (evaluated at ``at``) is the value of bind keyword ``key``; None otherwise."""
        ck = (id(expr), id(at))
        if ck not in self._cache:
            self._cache[ck] = self._key_of(expr, at)
        return self._cache[ck]

    def _key_of(self, expr, at):
        if at is None:
            at = self.fl.stmt_of(expr)
        direct = self._pop(expr)
        if direct is not None:
            return direct if direct[1] is not None else None
        if at is None:
            return None
        te = self._table_entry(expr, at)
        if te is not None:
            return te[0], ast.Constant(value=te[1])
        if slot_key(expr) is None:
            return None
        lv = self.fl.leaves(expr, at)
        if len(lv) == 1 and not lv[0].opaque and isinstance(lv[0].value, ast.Subscript) and isinstance(lv[0].stmt, ast.AST):
            te = self._table_entry(lv[0].value, lv[0].stmt)
            if te is not None:
                return te[0], ast.Constant(value=te[1])
        popped = [(l, self._pop(l.value)) for l in lv if not l.opaque and self._pop(l.value)]
        consts = [l for l in lv if not l.opaque and isinstance(l.value, ast.Constant)]
        if len(lv) == 1 and len(popped) == 1 and popped[0][1][1] is not None:
            return popped[0][1]
        if len(lv) == 2 and len(popped) == 1 and len(consts) == 1 and popped[0][1][1] is None:
            key = popped[0][1][0]
            # x = D ... if 'key' in kw: x = kw.pop('key')
            for t, p in popped[0][0].conds:
                if p is True and isinstance(t, ast.Compare) and len(t.ops) == 1 and isinstance(t.ops[0], ast.In) and \
                        isinstance(t.left, ast.Constant) and t.left.value == key and norm(t.comparators[0]) == self.kw:
                    return key, consts[0].value
        return None

    def defaults(self, key):
        """Default expressions of every expression in the function that stands for bind keyword ``key``."""
        seen = []
        for n in walk_body(self.fi.node):
            if isinstance(n, (ast.Call, ast.Subscript)) or (isinstance(n, ast.Name) and isinstance(n.ctx, ast.Load)):
                kv = self.key_of(n)
                if kv is not None and kv[0] == key and not any(kv[1] is x or norm(kv[1]) == norm(x) for x in seen):
                    seen.append(kv[1])
        return seen

    def default_is(self, key, value):
        """True / False: the keyword defaults to the constant ``value`` everywhere / somewhere not; None: the keyword is
        not read in a recognised way at all."""
        ds = self.defaults(key)
        if not ds:
            return None
        return all(isinstance(d, ast.Constant) and type(d.value) is type(value) and d.value == value for d in ds)


class Unknown(Exception):
    pass


_POS_CMP = {ast.IsNot: ast.Is, ast.NotEq: ast.Eq, ast.NotIn: ast.In}


class Prop(object):
    """Propositional reading of path conditions: tests become formulas over atoms (canonical texts of calls, comparisons,
    names; bind keywords by role), locals that name a condition are expanded -- also when they are set by an if-chain --
    and implications are decided by truth table."""

    def __init__(self, fl, flags=None):
        self.fl, self.flags = fl, flags
        self._memo = {}

    # formulas: ('c', bool) | ('a', text) | ('n', f) | ('&', [f..]) | ('|', [f..])
    def formula(self, e, at=None, depth=0):
        fl = self.fl
        if at is None:
            at = fl.stmt_of(e)
        if depth > 8:
            raise Unknown('condition nested too deeply')
        if isinstance(e, ast.Constant):
            return ('c', bool(e.value))
        if isinstance(e, ast.UnaryOp) and isinstance(e.op, ast.Not):
            return ('n', self.formula(e.operand, at, depth + 1))
        if isinstance(e, ast.BoolOp):
            return ('&' if isinstance(e.op, ast.And) else '|', [self.formula(v, at, depth + 1) for v in e.values])
        if isinstance(e, ast.IfExp):
            t = self.formula(e.test, at, depth + 1)
            return ('|', [('&', [t, self.formula(e.body, at, depth + 1)]), ('&', [('n', t), self.formula(e.orelse, at, depth + 1)])])
        if isinstance(e, ast.Compare) and len(e.ops) == 1 and type(e.ops[0]) in _POS_CMP:
            pos = ast.Compare(left=e.left, ops=[_POS_CMP[type(e.ops[0])]()], comparators=e.comparators)
            return ('n', ('a', fl.text(pos, at)))
        if self.flags is not None and isinstance(e, (ast.Name, ast.Call, ast.Subscript)):
            kv = self.flags.key_of(e, at)
            if kv is not None:
                return ('a', 'keyword:%s' % kv[0])
        k = slot_key(e)
        if k is not None and at is not None:
            ds = fl.reaching(k, at)
            real = [d for d in ds if d.kind != 'entry']
            if len(ds) == 1 and real and fl.single_def(k, at) is not None:
                d = fl.single_def(k, at)
                if isinstance(d.value, (ast.BoolOp, ast.UnaryOp, ast.Compare, ast.IfExp, ast.Constant, ast.Call, ast.Name, ast.Attribute)):
                    return self.formula(d.value, d.stmt, depth + 1)
            elif len(real) > 1 and len(real) == len(ds):
                # set by an if-chain: the disjunction over the definitions of (their conditions and their value);
                # only when the conditions are mutually exclusive and exhaustive (checked by truth table)
                arms = []
                lvs = fl.leaves(e, at)
                if any(lf.opaque for lf in lvs):
                    return ('a', fl.text(e, at))        # a value of unknown parts: a free atom assumes nothing
                for lf in lvs:
                    cs = [self.cond(t, p) for t, p in lf.conds]
                    arms.append((('&', cs), self.formula(lf.value, lf.stmt if isinstance(lf.stmt, ast.AST) else at, depth + 1)))
                guards = [g for g, _ in arms]
                common = self._common(guards)
                guards = [('&', [c for c in g[1] if c not in common]) for g in guards]
                if not self._partition(guards):
                    return ('a', fl.text(e, at))        # not a clean case split: a free atom assumes nothing
                return ('|', [('&', [g, v]) for g, (_, v) in zip(guards, arms)])
        return ('a', fl.text(e, at))

    def cond(self, t, p):
        f = self.formula(t)
        return f if p else ('n', f)

    def conds(self, cs):
        return [self.cond(t, p) for t, p in cs]

    @staticmethod
    def _common(guards):
        if not guards:
            return []
        return [c for c in guards[0][1] if all(c in g[1] for g in guards[1:])]

    def atoms(self, f, acc=None):
        acc = set() if acc is None else acc
        if f[0] == 'a':
            acc.add(f[1])
        elif f[0] == 'n':
            self.atoms(f[1], acc)
        elif f[0] in '&|':
            for x in f[1]:
                self.atoms(x, acc)
        return acc

    def ev(self, f, env):
        k = f[0]
        if k == 'c':
            return f[1]
        if k == 'a':
            return env[f[1]]
        if k == 'n':
            return not self.ev(f[1], env)
        if k == '&':
            return all(self.ev(x, env) for x in f[1])
        return any(self.ev(x, env) for x in f[1])

    def _rows(self, fs):
        names = sorted(set().union(*[self.atoms(f) for f in fs])) if fs else []
        if len(names) > 14:
            raise Unknown('too many atoms')
        for i in range(1 << len(names)):
            yield dict((n, bool(i >> j & 1)) for j, n in enumerate(names))

    def _partition(self, guards):
        for env in self._rows(guards):
            if sum(1 for g in guards if self.ev(g, env)) != 1:
                return False
        return True

    def implies(self, premises, conclusion):
        """premises (list of formulas, conjunction) => conclusion, on every assignment of the atoms"""
        for env in self._rows(list(premises) + [conclusion]):
            if all(self.ev(p, env) for p in premises) and not self.ev(conclusion, env):
                return False
        return True


def _subst_name(expr, name, const):
    class S(ast.NodeTransformer):
        def visit_Name(self, n):
            if n.id == name and isinstance(n.ctx, ast.Load):
                return ast.copy_location(ast.Constant(value=const), n)
            return n
    return S().visit(copy.deepcopy(expr))


def concat_parts(e):
    """Operands of a string concatenation in any spelling: ``a + b``, ``'%s%s' % (a, b)``, ``'{}{}'.format(a, b)``,
    ``f'{a}{b}'``, ``''.join([a, b])`` -> [a, b]; None when ``e`` is not a pure concatenation."""
    if isinstance(e, ast.BinOp) and isinstance(e.op, ast.Add):
        l, r = concat_parts(e.left), concat_parts(e.right)
        return (l if l is not None else [e.left]) + (r if r is not None else [e.right])
    if isinstance(e, ast.BinOp) and isinstance(e.op, ast.Mod) and isinstance(e.left, ast.Constant) and isinstance(e.left.value, str):
        args = e.right.elts if isinstance(e.right, ast.Tuple) else [e.right]
        if e.left.value == '%s' * len(args) and args:
            return list(args)
        return None
    if isinstance(e, ast.Call) and isinstance(e.func, ast.Attribute) and isinstance(e.func.value, ast.Constant) and isinstance(e.func.value.value, str):
        if e.func.attr == 'format' and not e.keywords and e.args and e.func.value.value in ('{}' * len(e.args), ''.join('{%d}' % i for i in range(len(e.args)))):
            return list(e.args)
        if e.func.attr == 'join' and e.func.value.value == '' and len(e.args) == 1 and isinstance(e.args[0], (ast.List, ast.Tuple)) and not e.keywords:
            return list(e.args[0].elts)
        return None
    if isinstance(e, ast.JoinedStr):
        if e.values and all(isinstance(v, ast.FormattedValue) and v.conversion == -1 and v.format_spec is None for v in e.values):
            return [v.value for v in e.values]
        return None
    return None


def fold_const(fi, expr):
    """Value of a constant expression: literals, module-level constants, and class-level constants read through
    ``self.NAME`` / ``cls.NAME`` / ``ClassName.NAME``; None when it does not fold."""
    repo = fi.mod.repo
    v = repo.try_fold(expr, fi.mod)
    if v is None and isinstance(expr, ast.Attribute) and isinstance(expr.value, ast.Name) and fi.cls is not None and \
            expr.value.id in ('self', 'cls', fi.cls.name):
        owner, val = repo.class_attr(fi.cls, expr.attr)
        if owner is not None and isinstance(val, ast.AST) and not isinstance(val, (ast.FunctionDef, ast.AsyncFunctionDef)):
            v = repo.try_fold(val, owner.mod)
    return v


class KwDict(object):
    """Layer model of a keyword dict built by straight-line code before it is passed on with ``**``:
    bottom -> top list of ('caller',) / ('src', text) / ('key', name, value expr, stmt); ``setdefault`` and
    ``if k not in d: d[k] = v`` go to the bottom (an existing entry wins), ``d[k] = v`` / ``update`` / ``dict(d, k=v)`` on top.
    Every dict-valued local of the function is tracked (the ** parameter starts as the caller's keywords), so
    ``opts = dict(kwargs, prefix=p)`` after ``kwargs.setdefault(..)`` carries the defaults along."""

    def __init__(self, fi, fl, var, use_stmts):
        self.fi, self.fl, self.var = fi, fl, var
        self.stmts = []
        kwp = _kwarg_name(fi)
        self.env = {}
        if kwp is not None:
            self.env[kwp] = [('caller',)]
        self._build(fi.node.body)
        if var not in self.env:
            raise AnalysisError('%s: %s is not a dict built in this function' % (fi.qualname, var))
        self.layers = self.env[var]
        cfg = fl.cfg
        for st in self.stmts:
            for u in use_stmts:
                if not cfg.must_pass(cfg.nodes_of(st), cfg.entry, cfg.nodes_of(u)):
                    raise AnalysisError('%s: keyword dict %s is modified conditionally (%s)' % (fi.qualname, var, short(st, 60)))
            loops = [l for l in stmts_of(fi.node) if isinstance(l, (ast.For, ast.While)) and st in stmts_of(l) and l is not st]
            if loops:
                raise AnalysisError('%s: keyword dict %s is modified inside a loop' % (fi.qualname, var))

    def _from_expr(self, e):
        out = []
        for l in layers_.layers_of_expr(e):
            if l.kind == 'literal':
                for k in l.keys:
                    out.append(('key', k, l.values[k], l.node))
            elif l.text in self.env:
                out.extend(self.env[l.text])
            else:
                out.append(('src', l.text))
        return out

    def _default_stmt(self, st):
        """``d.setdefault(K, V)`` / ``if K not in d: d[K] = V`` -> (d, K expr, V expr) or None."""
        if isinstance(st, ast.Expr) and isinstance(st.value, ast.Call) and isinstance(st.value.func, ast.Attribute) and \
                st.value.func.attr == 'setdefault' and norm(st.value.func.value) in self.env and len(st.value.args) == 2 and not st.value.keywords:
            return norm(st.value.func.value), st.value.args[0], st.value.args[1]
        if isinstance(st, ast.If) and not st.orelse and len(st.body) == 1 and isinstance(st.test, ast.Compare) and len(st.test.ops) == 1 and \
                isinstance(st.test.ops[0], ast.NotIn) and norm(st.test.comparators[0]) in self.env:
            var = norm(st.test.comparators[0])
            b = st.body[0]
            if isinstance(b, ast.Assign) and len(b.targets) == 1 and isinstance(b.targets[0], ast.Subscript) and \
                    norm(b.targets[0].value) == var and norm(b.targets[0].slice) == norm(st.test.left):
                return var, st.test.left, b.value
        return None

    def _conditional_writes(self, st, names=None):
        """``if <test>: d['k'] = v`` (other than the not-in default idiom), possibly inside ``for name in CONSTANTS``: entries
        that sometimes overwrite whatever the dict held -- [(dict, key, value)]; None when ``st`` is something else."""
        if isinstance(st, ast.For) and isinstance(st.target, ast.Name) and len(st.body) == 1 and not st.orelse and names is None:
            consts = fold_const(self.fi, st.iter)
            if isinstance(consts, (tuple, list)) and all(isinstance(x, str) for x in consts):
                out = []
                for x in consts:
                    sub = self._conditional_writes(st.body[0], (st.target.id, x))
                    if sub is None:
                        return None
                    out.extend(sub)
                return out
            return None
        if isinstance(st, ast.If) and not st.orelse and st.body and all(
                isinstance(b, ast.Assign) and len(b.targets) == 1 and isinstance(b.targets[0], ast.Subscript) and norm(b.targets[0].value) in self.env
                for b in st.body):
            out = []
            for b in st.body:
                k = b.targets[0].slice
                if names is not None and norm(k) == names[0]:
                    kv = names[1]
                elif isinstance(k, ast.Constant):
                    kv = k.value
                else:
                    return None
                out.append((norm(b.targets[0].value), kv, b.value))
            return out
        return None

    def _build(self, body):
        q = self.fi.qualname
        for st in body:
            d = self._default_stmt(st)
            if d is not None:
                var, k, v = d
                if not isinstance(k, ast.Constant):
                    raise AnalysisError('%s: computed key %s in keyword dict %s' % (q, norm(k), var))
                self.env[var].insert(0, ('key', k.value, v, st))
                self.stmts.append(st)
                continue
            if isinstance(st, ast.For) and isinstance(st.target, ast.Name) and len(st.body) == 1 and not st.orelse:
                # for name in ('a', 'b') / in MODULE_LEVEL_TUPLE: d.setdefault(name, f(name))
                names = fold_const(self.fi, st.iter)
                d = self._default_stmt(st.body[0])
                if d is not None and norm(d[1]) == st.target.id and isinstance(names, (tuple, list)) and all(isinstance(x, str) for x in names):
                    from ..normalize import Canon
                    for x in names:
                        v = Canon().visit(_subst_name(d[2], st.target.id, x))
                        self.env[d[0]].insert(0, ('key', x, ast.fix_missing_locations(ast.copy_location(v, d[2])), st))
                    self.stmts.append(st)
                    continue
            if isinstance(st, ast.Assign) and len(st.targets) == 1 and isinstance(st.targets[0], ast.Name):
                t = st.targets[0].id
                v = st.value
                if isinstance(v, ast.Name) and v.id in self.env:
                    self.env[t] = self.env[v.id]          # alias: the same dict object
                    self.stmts.append(st)
                    continue
                if isinstance(v, ast.Dict) or (isinstance(v, ast.Call) and isinstance(v.func, ast.Name) and v.func.id == 'dict'):
                    self.env[t] = self._from_expr(v)
                    self.stmts.append(st)
                    continue
                if isinstance(v, ast.Call) and norm(v.func) == 'dict.fromkeys' and 1 <= len(v.args) <= 2 and not v.keywords:
                    names = fold_const(self.fi, v.args[0])
                    if isinstance(names, (tuple, list)) and all(isinstance(x, str) for x in names):
                        val = v.args[1] if len(v.args) == 2 else ast.copy_location(ast.Constant(value=None), v)
                        self.env[t] = [('key', x, val, st) for x in names]
                        self.stmts.append(st)
                        continue
                if t in self.env:
                    raise AnalysisError('%s: keyword dict %s re-bound to %s' % (q, t, short(v, 50)))
                continue
            if isinstance(st, ast.Assign) and len(st.targets) == 1 and isinstance(st.targets[0], ast.Subscript) and norm(st.targets[0].value) in self.env:
                k = st.targets[0].slice
                if not isinstance(k, ast.Constant):
                    raise AnalysisError('%s: computed key %s in keyword dict %s' % (q, norm(k), norm(st.targets[0].value)))
                self.env[norm(st.targets[0].value)].append(('key', k.value, st.value, st))
                self.stmts.append(st)
                continue
            if isinstance(st, ast.Expr) and isinstance(st.value, ast.Call) and isinstance(st.value.func, ast.Attribute) and \
                    norm(st.value.func.value) in self.env and st.value.func.attr == 'update':
                c = st.value
                lay = self.env[norm(c.func.value)]
                for a in c.args:
                    lay.extend(self._from_expr(a))
                for k in c.keywords:
                    if k.arg is None:
                        lay.extend(self._from_expr(k.value))
                    else:
                        lay.append(('key', k.arg, k.value, st))
                self.stmts.append(st)
                continue
            cw = self._conditional_writes(st)
            if cw is not None:
                for var, k, v in cw:
                    self.env[var].append(('key?', k, v, st))
                self.stmts.append(st)
                continue
            # anything else that writes a tracked dict is outside the model
            if not isinstance(st, (ast.FunctionDef, ast.AsyncFunctionDef, ast.ClassDef)):
                for e in effects_in(ast.Module(body=[st], type_ignores=[]), nested=False):
                    if e.root in self.env:
                        raise AnalysisError('%s: unmodelled write to keyword dict %s: %s' % (q, e.root, short(e.node, 60)))
                for n in ast.walk(st):
                    if isinstance(n, ast.Name) and isinstance(n.ctx, ast.Store) and n.id in self.env:
                        raise AnalysisError('%s: keyword dict %s re-bound in %s' % (q, n.id, short(st, 50)))

    def lookup(self, key):
        """('forced', value, stmt): a literal entry above everything the caller passed; ('default', value, stmt): a literal
        entry below the caller's keywords and none above; ('caller', None, None): only the caller can supply it;
        ('absent', ..): nobody does; ('unknown', ...): an unmodelled source may supply it."""
        return self._lookup(self.layers, key, 0)

    def _lookup(self, layers, key, depth):
        top = None
        for i in range(len(layers) - 1, -1, -1):
            l = layers[i]
            if l[0] == 'key?' and l[1] == key:
                return ('conditional', l[2], l[3])      # sometimes overwrites whatever is below (the caller's value too)
            if l[0] == 'key' and l[1] == key:
                top = i
                break
            if l[0] in ('src',):
                return ('unknown', None, None)
            if l[0] == 'caller':
                # the caller may or may not pass it: look below for the default
                for j in range(i - 1, -1, -1):
                    m = layers[j]
                    if m[0] == 'key?' and m[1] == key:
                        return ('unknown', None, None)
                    if m[0] == 'key' and m[1] == key:
                        return ('default', m[2], m[3])
                    if m[0] in ('src', 'caller'):
                        return ('unknown', None, None)
                return ('caller', None, None)
        if top is None:
            return ('absent', None, None)
        v = layers[top][2]
        # d[k] = other.get(k, default): whatever ``other`` holds for k, else the default
        if isinstance(v, ast.Call) and isinstance(v.func, ast.Attribute) and v.func.attr == 'get' and len(v.args) == 2 and not v.keywords and \
                norm(v.func.value) in self.env and depth < 3:
            if not (isinstance(v.args[0], ast.Constant) and v.args[0].value == key):
                return ('unknown', None, None)
            src = self.env[norm(v.func.value)]
            if src is layers:
                src = layers[:top]          # d[k] = d.get(k, default): what the dict held before this entry
            how, v2, st2 = self._lookup(src, key, depth + 1)
            if how == 'caller':
                return ('default', v.args[1], layers[top][3])
            if how == 'absent':
                return ('forced', v.args[1], layers[top][3])
            if how in ('default', 'forced'):
                return (how, v2, st2)
            return ('unknown', None, None)
        return ('forced', v, layers[top][3])


def _enclosing_iteration(mod, node, fnode):
    cur = mod.parents.get(node)
    while cur is not None and cur is not fnode:
        if isinstance(cur, (ast.For, ast.ListComp, ast.GeneratorExp, ast.SetComp, ast.DictComp, ast.While)):
            return cur
        cur = mod.parents.get(cur)
    return None


def _strip_copy(e):
    """list(x) / tuple(x) iterate x in x's order."""
    while isinstance(e, ast.Call) and isinstance(e.func, ast.Name) and e.func.id in ('list', 'tuple') and len(e.args) == 1 and not e.keywords:
        e = e.args[0]
    return e


# ------------------------------------------------------------------------------------------------ R10.a
def _is_comp(n):
    return isinstance(n, (ast.ListComp, ast.GeneratorExp)) and len(n.generators) == 1 and not n.generators[0].is_async


def _filter_generator(repo, fi, e):
    """``e`` is a call ``helper(seq)`` of a private generator of the package that yields the elements of its argument, in
    order, under a condition: (loop variable, [(test, polarity)] under which an element is passed on, seq expression)."""
    callee = callee_of(repo, fi, e) if isinstance(e, ast.Call) else None
    if callee is None or not callee.name.startswith('_') or e.keywords or len(e.args) != 1 or isinstance(e.args[0], ast.Starred):
        return None
    ps = [p for p in callee.params() if p not in ('self', 'cls')]
    body = [s_ for s_ in callee.node.body if not (isinstance(s_, ast.Expr) and isinstance(s_.value, ast.Constant))]
    if len(ps) != 1 or not body or not isinstance(body[0], ast.For) or any(not (isinstance(s_, ast.Return) and s_.value is None) for s_ in body[1:]):
        return None
    loop = body[0]
    ys = [n for n in walk_body(callee.node) if isinstance(n, (ast.Yield, ast.YieldFrom))]
    if len(ys) != 1 or not isinstance(ys[0], ast.Yield) or not isinstance(loop.target, ast.Name) or norm(ys[0].value) != loop.target.id or \
            norm(loop.iter) != ps[0] or loop.orelse:
        return None
    if any(isinstance(s_, (ast.Break, ast.Return)) for s_ in stmts_of(loop)):
        return None
    yst = stmt_of(callee.mod, ys[0])
    # the loop body does nothing but decide whether to yield
    for s_ in stmts_of(loop):
        if not (s_ is yst or isinstance(s_, (ast.If, ast.Continue, ast.Pass))):
            return None
    return loop.target.id, list(cfg_of(callee).conds_at_stmt(yst)), e.args[0]


def _r10a(rep, app, route):
    ba = app.func('SubApplication.bind_all')
    fl = Flow(ba)
    bcfg = fl.cfg
    fors = [s for s in stmts_of(ba.node) if isinstance(s, (ast.For, ast.While))]
    comps = [n for n in walk_body(ba.node) if isinstance(n, (ast.ListComp, ast.GeneratorExp, ast.SetComp, ast.DictComp))]
    its = fors + comps
    binds = [c for c in walk_body(ba.node) if isinstance(c, ast.Call) and isinstance(c.func, ast.Attribute) and c.func.attr == 'bind']
    if not binds:
        raise AnalysisError('SubApplication.bind_all: no .bind(...) call found (re-binding delegated to code that could not be followed)')
    b = binds[0] if len(binds) == 1 else None
    it = _enclosing_iteration(app, b, ba.node) if b is not None else None
    is_loop = isinstance(it, ast.For)
    # the iterated sequence, through named temporaries, list()/tuple() copies and order-preserving pre-filters
    # ([rt for rt in <seq> if <test>]); every loop / comprehension of the function must belong to this chain
    chain_its, prefilters = [it], []
    it_text = None
    if is_loop or _is_comp(it):
        cur = it.iter if is_loop else it.generators[0].iter
        at = stmt_of(app, cur)
        for _ in range(4):
            e, at2 = _deref(fl, _strip_copy(cur), at)
            e = _strip_copy(e)
            g = e.generators[0] if _is_comp(e) else None
            if g is not None and isinstance(e.elt, ast.Name) and isinstance(g.target, ast.Name) and e.elt.id == g.target.id:
                chain_its.append(e)
                prefilters.append((g.target.id, [(i, True) for i in g.ifs]))
                cur, at = g.iter, stmt_of(app, g.iter)
                continue
            pf = _filter_generator(rep.repo, ba, e)
            if pf is not None:
                prefilters.append(pf[:2])
                cur = pf[2]
                continue
            it_text = fl.text(e, at2 if isinstance(at2, ast.AST) else at)
            break
    # any other loop / comprehension of the function must not be able to touch the result
    rets_ = returns_of(ba)
    rnames = set(n.id for r in rets_ if r.value is not None for n in ast.walk(r.value) if isinstance(n, ast.Name))
    strangers = [x for x in its if not any(x is y for y in chain_its)]
    inert = all(not (set(n.id for n in ast.walk(x) if isinstance(n, ast.Name)) & rnames) and
                not any(isinstance(n, ast.Call) and isinstance(n.func, ast.Attribute) and n.func.attr == 'bind' for n in ast.walk(x)) for x in strangers)
    ok = it_text == 'self.app.routes' and inert
    rep.check('R10.a', fkey(ba, 'iterates inner routes'), ok, 'walks self.app.routes directly (inner order preserved)' if ok else
              'bind_all does not iterate self.app.routes directly: %s' % (it_text if it_text and it_text != 'self.app.routes' else
                                                                          [short(getattr(x, 'iter', x), 50) for x in its]), app,
              it if isinstance(it, ast.stmt) else (stmt_of(app, it) if it is not None else ba.node))
    if not ok:
        return
    rt = norm(it.target if is_loop else it.generators[0].target)
    kwv = None
    ok = norm(b.func.value) == rt and len(b.args) == 1 and norm(b.args[0]) == ba.params()[1] and \
        len(b.keywords) == 1 and b.keywords[0].arg is None and isinstance(b.keywords[0].value, ast.Name)
    where = b
    rets = returns_of(ba)
    appends = []
    if ok:
        kwv = b.keywords[0].value.id
        rv = norm(rets[0].value) if len(rets) == 1 and isinstance(rets[0].value, ast.Name) else None
        growers = [e for e in effects_in(ba.node) if e.root == rv and e.kind == 'mutcall'] if rv else []
        if is_loop:
            # the bound route reaches the returned list through exactly one append in the loop
            appends = [e.node for e in growers if e.method == 'append' and len(e.node.args) == 1]
            ok = rv is not None and len(growers) == 1 and len(appends) == 1 and stmt_of(app, appends[0]) in stmts_of(it)
            if ok:
                lv = fl.leaves(appends[0].args[0], stmt_of(app, appends[0]))
                ok = len(lv) == 1 and lv[0].value is b
        elif growers:
            # ret = []; ret.extend(<comprehension>); return ret
            g0 = growers[0]
            ok = it.elt is b and len(growers) == 1 and g0.method == 'extend' and len(g0.node.args) == 1 and _strip_copy(g0.node.args[0]) is it and \
                not any(stmt_of(app, g0.node) in stmts_of(l) for l in fors)
        else:
            # the comprehension (a list, or a generator materialised by list()) is what is returned
            ok = it.elt is b and bool(rets)
            for r in rets:
                v, _ = _deref(fl, r.value, r)
                ok = ok and _strip_copy(v) is it and (isinstance(it, ast.ListComp) or v is not it)
        if ok and (is_loop or growers):
            rdef = fl.single_def(rv, rets[0])
            ok = rdef is not None and isinstance(rdef.value, ast.List) and not rdef.value.elts
    rep.check('R10.a', fkey(ba, 'append rt.bind(app, **kwargs)'), ok, 'each inner route is re-bound to the embedding application with the bind keywords' if ok else
              'bind_all does not append rt.bind(app, **kwargs) for each inner route', app, where)
    if not ok:
        return
    # conditions under which an inner route is left out: the loop's / comprehension's own, plus those of pre-filters
    atoms = []
    for var, cs_ in prefilters:
        atoms += [(t, p, var) for t, p in expand_conds(list(cs_)) if not isinstance(t, ast.BoolOp)]
    if is_loop:
        ast_ = stmt_of(app, appends[0])
        cs = conds(ba, ast_)
        atoms += [(t, p, rt) for t, p in cs]
        ok = True
        jumps = [s for s in stmts_of(it) if isinstance(s, (ast.Continue, ast.Break))]
        for j in jumps:
            jc = conds(ba, j)
            ok = ok and isinstance(j, ast.Continue) and len(jc) == 1 and jc[0][1] is True and isinstance_test(jc[0][0], rt, 'NullRoute')
        where = appends[0]
    else:
        atoms += [(t, p, rt) for t, p in expand_conds([(i, True) for i in it.generators[0].ifs]) if not isinstance(t, ast.BoolOp)]
        ok = True
        where = stmt_of(app, it)
    ok = ok and len(atoms) == 1 and atoms[0][1] is False and isinstance_test(atoms[0][0], atoms[0][2], 'NullRoute')
    rep.check('R10.a', fkey(ba, 'skips only the null route'), ok, 'only NullRoute instances are skipped' if ok else
              'routes are skipped under other conditions than isinstance(rt, NullRoute): %s' % '; '.join(cond_texts([(t, p) for t, p, _ in atoms])), app, where)
    if is_loop:
        ap_nodes = bcfg.nodes_of(ast_)
        ok = not (set(ap_nodes) & bcfg.reach([m for n in ap_nodes for m in bcfg.succ[n]], avoid=bcfg.nodes_of(it)))
        rep.check('R10.a', fkey(ba, 'once per route'), ok, 'each inner route is re-bound once' if ok else 'an inner route can be appended twice', app, appends[0])
        use = it
    else:
        rep.ok('R10.a', fkey(ba, 'once per route'), 'each inner route is re-bound once (one element per item of a single generator)', app, stmt_of(app, it))
        use = stmt_of(app, it)
    kd = KwDict(ba, fl, kwv, [use])
    how, v, st = kd.lookup('prefix')
    ok = how == 'forced' and norm(v) == 'self.prefix'
    rep.check('R10.a', fkey(ba, 'prefix keyword'), ok, "the bind keywords carry prefix = self.prefix (over anything the caller passed) before any route is re-bound" if ok else
              'the embedding prefix is not passed to the re-bound routes (%s %s)' % (how, short(v, 40) if v is not None else ''), app, st or ba.node)
    return kd


def _constructions(repo, fi, cls_name, param, _depth=0):
    """[(call, prop, formulas of the conditions, name of the entry parameter)] of the ``return <cls_name>(...)`` statements of
    ``fi`` -- the class named directly or through a local that selects it (``factory_type = SubApplication if .. else
    Route``) -- and of private helpers of the module whose result ``fi`` returns (followed one level; ``param`` is
    mapped to the helper's parameter it is passed as)."""
    fl = Flow(fi)
    pr = Prop(fl)
    out = []
    for r in returns_of(fi):
        for lf in fl.leaves(r.value, r) if r.value is not None else []:
            v = lf.value
            if lf.opaque or not isinstance(v, ast.Call):
                continue
            here = lf.stmt if isinstance(lf.stmt, ast.AST) else r
            conds_ = list(lf.conds) + [c for c in fl.conds(r) if c not in lf.conds] + [c for c in fl.conds(here) if c not in lf.conds]
            for cl in fl.leaves(v.func, here):
                if not cl.opaque and norm(cl.value) == cls_name:
                    out.append((v, pr, pr.conds(conds_ + [c for c in cl.conds if c not in conds_]), param))
            callee = callee_of(repo, fi, v)
            if callee is not None and callee.name.startswith('_') and _depth < 1 and not v.keywords and \
                    not any(isinstance(a, ast.Starred) for a in v.args) and len(v.args) <= len(callee.params()):
                passed = [i for i, a in enumerate(v.args) if norm(a) == param]
                if len(passed) == 1:
                    out.extend(_constructions(repo, callee, cls_name, callee.params()[passed[0]], _depth + 1))
    return out


def _r10a_cast(rep, app):
    crf = app.func('cast_to_route_factory')
    try:
        subs = _constructions(rep.repo, crf, 'SubApplication', crf.params()[0])
        ok = len(subs) == 1
        if ok:
            call, pr, premises, p0 = subs[0]
            ok = len(call.args) == 1 and not call.keywords and norm(call.args[0]) == '*%s' % p0 and \
                pr.implies(premises, ('a', 'isinstance(%s[1], Application)' % p0))
    except Unknown as e:
        raise AnalysisError('cast_to_route_factory: conditions not understood (%s)' % e)
    if not subs:
        # nothing found: a result computed by a helper that could not be followed is a gap, not a judgement
        cfl = Flow(crf)
        _require_followed(rep.repo, crf, [l for r in returns_of(crf) if r.value is not None for l in cfl.leaves(r.value, r)], 'the route factory')
    rep.check('R10.a', fkey(crf), ok, '(prefix, Application) tuples become SubApplication(prefix, app)' if ok else
              'cast_to_route_factory no longer maps (prefix, Application) to SubApplication(*entry)', app, crf.node)


def _add_view(app):
    """(fi, flow, route-factory local, [bind_all call statements], [bind call statements], ** dict name)"""
    ad = app.func('Application.add')
    fl = Flow(ad)
    rfv = [norm(s.targets[0]) for s in stmts_of(ad.node) if isinstance(s, ast.Assign) and isinstance(s.value, ast.Call)
           and call_name(s.value) == 'cast_to_route_factory' and len(s.targets) == 1 and isinstance(s.targets[0], ast.Name)]
    if len(rfv) != 1:
        raise AnalysisError('Application.add: the route factory (result of cast_to_route_factory) is not bound to one local')
    rf = rfv[0]
    ball, bone = [], []
    for c in walk_body(ad.node):
        if not isinstance(c, ast.Call):
            continue
        ft = fl.text(c.func, stmt_of(app, c))
        if ft in ('%s.bind_all' % rf, "getattr(%s, 'bind_all', None)" % rf):
            ball.append(c)
        elif ft == '%s.bind' % rf:
            bone.append(c)
    return ad, fl, rf, ball, bone


def _r10a_add(rep, app):
    ad, fl, rf, ball, bone = _add_view(app)
    ok = False
    if len(ball) == 1:
        want = "getattr(%s, 'bind_all', None)" % rf
        ok = any(p is True and want in txt for txt, p, _ in fl.cond_texts(conds(ad, ball[0])))
        # the result is what gets inserted
        st = stmt_of(app, ball[0])
        ok = ok and isinstance(st, ast.Assign) and st.value is ball[0]
    rep.check('R10.a', fkey(ad, 'uses bind_all'), ok, 'add() expands route factories through bind_all' if ok else 'add() does not use bind_all for sub-applications', app, ad.node)


# ------------------------------------------------------------------------------------------------ R10.b
def _class_sets_attr(repo, ci, attr):
    """True / False: instances of class ``ci`` (of the analysed tree) have / do not have attribute ``attr`` -- a method,
    property or class-level name of the class or one of its bases, or ``self.attr`` stored by one of their methods; None
    when a base is not a class of the tree."""
    for c in repo.mro(ci):
        if not hasattr(c, 'methods'):
            if c in ('object',) or getattr(c, 'name', None) == 'object':
                continue
            return None
        if attr in c.methods or attr in c.class_attrs:
            return True
        for m in c.methods.values():
            for n in ast.walk(m.node):
                if isinstance(n, ast.Attribute) and n.attr == attr and isinstance(n.ctx, ast.Store) and \
                        isinstance(n.value, ast.Name) and n.value.id == 'self':
                    return True
                if isinstance(n, ast.Call) and call_name(n) == 'setattr':
                    return None     # attributes set by computed name
    return False


def _isinstance_presence(fl, mod, test, pol, wanted):
    """``isinstance(obj, C)`` (not) holding decides ``hasattr(obj, attr)`` for the (obj, attr) pairs asked about: under the
    test every class ``obj`` can then be (C and its subclasses / the other classes of obj's receiver role and theirs) has
    the attribute, or none has.  -> [(obj text, attr, present?)]"""
    from ..callgraph import ROLE_TABLE
    repo = mod.repo
    if not (isinstance(test, ast.Call) and call_name(test) == 'isinstance' and len(test.args) == 2 and not test.keywords):
        return []
    obj = norm(test.args[0])
    ci = repo.resolve_class(mod, test.args[1])
    if not hasattr(ci, 'methods'):
        return []
    out = []
    for o, a in wanted:
        if o != obj:
            continue
        if pol:
            cands = [ci] + repo.subclasses(ci)
        else:
            universe = []
            for modname, cname in ROLE_TABLE.get(obj, []):
                m = repo.try_mod(modname)
                if m is not None and cname in m.classes:
                    universe.append(m.classes[cname])
            if not universe or ci not in universe:
                continue
            cands = []
            for u in universe:
                for c in [u] + repo.subclasses(u):
                    if c is not ci and ci not in repo.mro(c) and c not in cands:
                        cands.append(c)
        have = [_class_sets_attr(repo, c, a) for c in cands]
        if cands and all(h is True for h in have):
            out.append((o, a, True))
        elif cands and all(h is False for h in have):
            out.append((o, a, False))
    return out


def _getattr_cases(fl, mod, leaf, wanted=()):
    """[(object text, attribute, present?)]: the leaf flows only when ``hasattr(obj, attr)`` is / is not true -- from an explicit
    ``hasattr`` test on the path, from ``try: x = obj.attr / except AttributeError: x = default``, or -- for the
    (object, attribute) pairs in ``wanted`` -- from an ``isinstance(obj, Class)`` test that separates the classes which
    have the attribute from those which do not.  A test carried by a local (``rebinding = isinstance(..)``) is looked up."""
    from ..astutil import handler_catches
    out = []
    for t, p in leaf.conds:
        for _ in range(3):
            if isinstance(t, ast.UnaryOp) and isinstance(t.op, ast.Not):
                t, p = t.operand, not p
                continue
            k = slot_key(t)
            d = fl.single_def(k, fl.stmt_of(t)) if k is not None and fl.stmt_of(t) is not None else None
            if d is None or not isinstance(d.value, (ast.Call, ast.UnaryOp, ast.Name)):
                break
            t = d.value
        if isinstance(t, ast.Call) and call_name(t) == 'hasattr' and len(t.args) == 2 and isinstance(t.args[1], ast.Constant):
            out.append((norm(t.args[0]), t.args[1].value, p))
        out.extend(_isinstance_presence(fl, mod, t, p, wanted))
    st = leaf.stmt if isinstance(leaf.stmt, ast.AST) else None
    par = mod.parents.get(st) if st is not None else None

    def attr_read(try_):
        if len(try_.body) == 1 and isinstance(try_.body[0], ast.Assign) and isinstance(try_.body[0].value, ast.Attribute) and \
                not try_.orelse and not try_.finalbody and len(try_.handlers) == 1 and handler_catches(try_.handlers[0], 'AttributeError') and \
                norm(try_.handlers[0].type) == 'AttributeError':
            v = try_.body[0].value
            return norm(v.value), v.attr
        return None
    if isinstance(par, ast.Try) and st in par.body and attr_read(par):
        out.append(attr_read(par) + (True,))
    if isinstance(par, ast.ExceptHandler):
        t_ = mod.parents.get(par)
        if isinstance(t_, ast.Try) and attr_read(t_) and len(par.body) == 1:
            out.append(attr_read(t_) + (False,))
    return out


def _specialise(expected, cases):
    """``expected`` with ``getattr(obj, 'attr', default)`` replaced by what it is when the attribute is known present / absent;
    ``[] + x`` simplified to ``x``."""
    known = dict(((o, a), p) for o, a, p in cases)

    class S(ast.NodeTransformer):
        def visit_Call(self, n):
            self.generic_visit(n)
            if call_name(n) == 'getattr' and len(n.args) == 3 and isinstance(n.args[1], ast.Constant) and (norm(n.args[0]), n.args[1].value) in known:
                if known[(norm(n.args[0]), n.args[1].value)]:
                    return ast.Attribute(value=n.args[0], attr=n.args[1].value, ctx=ast.Load())
                return n.args[2]
            return n

        def visit_BinOp(self, n):
            self.generic_visit(n)
            if isinstance(n.op, ast.Add) and isinstance(n.left, ast.List) and not n.left.elts and isinstance(n.right, ast.List):
                return n.right
            return n
    return S().visit(copy.deepcopy(expected))


def _slot_is(fl, mod, slot, expected_text, what):
    """The slot holds ``expected`` at exit: one value with that text, or the case split of its getattr defaults (hasattr
    tests / try-except AttributeError).  Several values that cannot be read as such a split: analysis gap."""
    lv = fl.leaves(_expr(slot), 'exit')
    if not fl.defs.get(slot):
        return False, None
    if len(lv) == 1:
        return (not lv[0].opaque) and fl.text(lv[0].value, lv[0].stmt) == expected_text, lv[0]
    wanted = [(norm(c.args[0]), c.args[1].value) for c in ast.walk(_expr(expected_text))
              if isinstance(c, ast.Call) and call_name(c) == 'getattr' and len(c.args) == 3 and isinstance(c.args[1], ast.Constant)]
    cases = [_getattr_cases(fl, mod, l, wanted) for l in lv]
    if any(l.opaque for l in lv) or not all(cases):
        raise AnalysisError('%s: %s has several definitions that are not understood as one value' % (fl.fi.qualname, what))
    pols = set((o, a, p) for c in cases for o, a, p in c)
    ok = all(fl.text(l.value, l.stmt) == norm(_specialise(_expr(expected_text), c)) for l, c in zip(lv, cases)) and \
        all((o, a, not p) in pols for o, a, p in pols)
    return ok, lv[0]


def _single_leaf(fl, slot):
    lv = fl.leaves(_expr(slot), 'exit')
    if len(lv) == 1 and not lv[0].opaque:
        return lv[0]
    return None


class _Origin(object):
    """Where the list a chain value started from was made (value, statement, path conditions): what ``_getattr_cases`` reads."""
    __slots__ = ('value', 'stmt', 'conds', 'opaque')

    def __init__(self, value, stmt, conds):
        self.value, self.stmt, self.conds, self.opaque = value, stmt, list(conds), False


def _app_chain(fl, mod, expr, at, rp, ap, conds=(), depth=0):
    """Abstract value of the list expression ``expr`` evaluated at ``at`` in BoundRoute.__init__: [(items, fresh, origin)] over
    every way the value can have been made.  ``items``: a tuple over 'prev' (the chain of the route being re-bound:
    ``route.bound_apps`` / ``getattr(route, 'bound_apps', [])``), 'app' (the binding application) and ('?', text) for anything
    else; ``fresh``: the list object was allocated by this constructor call (display, ``+``, ``list(..)``, slice, ``.copy()``)
    rather than being the re-bound route's own list; ``x += more`` extends whatever ``x`` was in place."""
    e = expr
    here = at if isinstance(at, ast.AST) else None

    def unknown(why=None):
        return [((('?', why or short(e, 40)),), False, _Origin(e, here, conds))]

    def is_route(x):
        return fl.text(x, here) == rp

    if depth > 10:
        return unknown('too deep')
    if isinstance(e, ast.IfExp):
        from ..cfg import expand_conds
        out = []
        for arm, pol in ((e.body, True), (e.orelse, False)):
            out += _app_chain(fl, mod, arm, at, rp, ap, list(conds) + expand_conds([(e.test, pol)]), depth + 1)
        return out
    if isinstance(e, (ast.List, ast.Tuple)):
        acc = [()]
        for x in e.elts:
            if isinstance(x, ast.Starred):
                subs = _app_chain(fl, mod, x.value, at, rp, ap, conds, depth + 1)
                acc = [a + it for a in acc for it, _, _ in subs]
            elif fl.text(x, here) == ap:
                acc = [a + ('app',) for a in acc]
            else:
                acc = [a + (('?', norm(x)),) for a in acc]
        return [(a, True, _Origin(e, here, conds)) for a in acc]
    if isinstance(e, ast.BinOp) and isinstance(e.op, ast.Add):
        ls = _app_chain(fl, mod, e.left, at, rp, ap, conds, depth + 1)
        rs = _app_chain(fl, mod, e.right, at, rp, ap, conds, depth + 1)
        return [(l[0] + r[0], True, l[2]) for l in ls for r in rs]
    if isinstance(e, ast.BoolOp) and isinstance(e.op, ast.Or) and len(e.values) == 2 and isinstance(e.values[1], (ast.List, ast.Tuple)) and \
            not e.values[1].elts:
        return _app_chain(fl, mod, e.values[0], at, rp, ap, conds, depth + 1)      # ``prev or []``: an empty chain either way
    if isinstance(e, ast.Subscript) and isinstance(e.slice, ast.Slice) and e.slice.lower is None and e.slice.upper is None and e.slice.step is None:
        return [(it, True, o) for it, _, o in _app_chain(fl, mod, e.value, at, rp, ap, conds, depth + 1)]
    if isinstance(e, ast.Call):
        if call_name(e) in ('list', 'tuple') and not e.keywords and len(e.args) <= 1:
            if not e.args:
                return [((), True, _Origin(e, here, conds))]
            return [(it, True, o) for it, _, o in _app_chain(fl, mod, e.args[0], at, rp, ap, conds, depth + 1)]
        if isinstance(e.func, ast.Attribute) and e.func.attr == 'copy' and not e.args and not e.keywords:
            return [(it, True, o) for it, _, o in _app_chain(fl, mod, e.func.value, at, rp, ap, conds, depth + 1)]
        if call_name(e) == 'getattr' and len(e.args) == 3 and not e.keywords and isinstance(e.args[1], ast.Constant) and \
                e.args[1].value == 'bound_apps' and is_route(e.args[0]) and isinstance(e.args[2], (ast.List, ast.Tuple)) and not e.args[2].elts:
            return [(('prev',), False, _Origin(e, here, conds))]
        return unknown()
    if isinstance(e, ast.Attribute) and e.attr == 'bound_apps' and slot_key(e) is None:
        if is_route(e.value):
            return [(('prev',), False, _Origin(e, here, conds))]
        return unknown()
    k = slot_key(e)
    if k is None:
        return unknown()
    ds = fl.reaching(k, at)
    out = []
    for d in ds:
        cs = list(conds) + [c for c in (fl.conds(d.stmt) if d.stmt is not None else []) if c not in conds]
        if len(ds) > 1:
            cs = cs + [c for c in fl.flow_conds(d, at) if c not in cs]
        if d.kind == 'assign' and d.idx is None:
            out += _app_chain(fl, mod, d.value, d.stmt, rp, ap, cs, depth + 1)
        elif d.kind == 'aug' and isinstance(d.stmt, ast.AugAssign) and isinstance(d.stmt.op, ast.Add) and d.stmt is not at:
            before = _app_chain(fl, mod, d.stmt.target, d.stmt, rp, ap, cs, depth + 1)
            more = _app_chain(fl, mod, d.stmt.value, d.stmt, rp, ap, cs, depth + 1)
            out += [(b[0] + m[0], b[1], b[2]) for b in before for m in more]
        else:
            out += [((('?', '%s (%s)' % (k, d.kind)),), False, _Origin(e, here, cs))]
    return out or unknown()


def _rebound_after(fl, names, stmt):
    """One of the slots ``names`` (all naming one list) is given another object after ``stmt`` -- anything but a plain copy
    from another of them."""
    cfg_ = fl.cfg
    after = cfg_.reach([m for n in cfg_.nodes_of(stmt) for m in cfg_.succ[n]])
    for k in names:
        for d in fl.defs.get(k, []):
            if d.stmt is stmt or not (set(cfg_.nodes_of(d.stmt)) & after):
                continue
            if not (d.kind == 'assign' and d.idx is None and d.value is not None and slot_key(d.value) in names):
                return True
    return False


def _bound_apps_chain(fl, bi, mod, rp, ap):
    """-> (ok, detail, node).  The chain of applications kept by the new bound route is the chain of the route being re-bound
    followed by the binding application, in a list of its own: one inner route is re-bound into every parent its
    application is embedded in, so a list shared with it would collect applications that are not on this route's
    embedding chain -- and the render-factory search walks the chain."""
    cfg_ = fl.cfg
    if not fl.defs.get('self.bound_apps'):
        return False, 'self.bound_apps is never assigned', bi.node
    cases = _app_chain(fl, mod, _expr('self.bound_apps'), 'exit', rp, ap)
    # in-place growth through method calls on the attribute / a local that names the same list
    names = fl.aliases('self.bound_apps')
    grown = []
    for e in effects_in(bi.node):
        if e.kind != 'mutcall' or norm(e.target) not in names:
            continue
        st = stmt_of(mod, e.node)
        key = norm(e.target)
        more = None
        if e.method == 'append' and len(e.node.args) == 1 and not e.node.keywords and fl.text(e.node.args[0], st) == ap:
            more = ('app',)
        elif e.method == 'extend' and len(e.node.args) == 1 and not e.node.keywords:
            sub = _app_chain(fl, mod, e.node.args[0], st, rp, ap)
            if len(sub) == 1:
                more = sub[0][0]
        once = more is not None and cfg_.must_pass(cfg_.nodes_of(st), cfg_.entry, cfg_.exit, normal_only=True) and \
            not any(isinstance(l, (ast.For, ast.While)) and st in stmts_of(l) for l in stmts_of(bi.node)) and \
            not _rebound_after(fl, names, st)
        if not once:
            return False, 'the chain is modified by %s, which is not one unconditional append of the binding application' % short(e.node, 50), e.node
        grown.append(more)
    tail = tuple(x for g in grown for x in g)
    bad = None
    for items, fresh, origin in cases:
        items = items + tail
        absent = (rp, 'bound_apps', False) in _getattr_cases(fl, mod, origin, [(rp, 'bound_apps')])
        if items == ('prev', 'app') and fresh:
            continue
        if items == ('app',) and fresh and absent:
            continue        # first binding: the route has no chain yet
        where = origin.stmt if isinstance(origin.stmt, ast.AST) else bi.node
        if items == ('prev', 'app') or (items == ('app',) and absent):
            bad = ('the chain is built in the list of the route being re-bound (%s is extended in place, not copied): every later '
                   'embedding of the same application sees the applications of this one' % short(origin.value, 40), where)
        else:
            shown = ' + '.join(x if isinstance(x, str) else x[1] for x in items) or 'empty'
            bad = ('the chain is %s, not the previous chain followed by the binding application' % shown, where)
        break
    if bad:
        return False, bad[0], bad[1]
    return bool(cases), 'previous chain + [app], a new list per binding', bi.node


def _r10b(rep, app, route):
    bi = route.func('BoundRoute.__init__')
    fl = Flow(bi)
    ps = bi.params()
    kw = _kwarg_name(bi)
    flags = Flags(fl, bi)
    lf = _single_leaf(fl, 'self.pattern')
    parts = concat_parts(lf.value) if lf is not None else None
    kv = flags.key_of(parts[0], lf.stmt) if parts else None
    ok = parts is not None and len(parts) == 2 and kv is not None and kv[0] == 'prefix' and fl.text(parts[1], lf.stmt) == '%s.pattern' % ps[1]
    rep.check('R10.b', fkey(bi, 'self.pattern'), ok, 'bound pattern = prefix + (already bound) inner pattern, so prefixes compose by depth' if ok else
              'BoundRoute.pattern is not prefix + route.pattern: %s' % (short(lf.value) if lf else None), route, lf.stmt if lf else bi.node)
    dflt = flags.default_is('prefix', '')
    if dflt is None:
        raise AnalysisError("BoundRoute.__init__: no read of the bind keyword 'prefix' recognised")
    rep.check('R10.b', fkey(bi, 'prefix default'), dflt, "prefix comes from the bind keyword, default ''" if dflt else 'prefix is not kwargs.pop(\'prefix\', \'\')', route, bi.node)
    si = app.func('SubApplication.__init__')
    sfl = Flow(si)
    lf = _single_leaf(sfl, 'self.prefix')
    ok = lf is not None and sfl.text(lf.value, lf.stmt) == "%s.rstrip('/')" % si.params()[1]
    rep.check('R10.b', fkey(si, 'self.prefix'), ok, "prefix is stored without a trailing slash ('/' merges at root level)" if ok else
              "SubApplication.prefix is not prefix.rstrip('/')", app, si.node)
    lf = _single_leaf(sfl, 'self.app')
    ok = lf is not None and sfl.text(lf.value, lf.stmt) == si.params()[2]
    rep.check('R10.b', fkey(si, 'self.app'), ok, 'the embedded application is kept as given' if ok else 'SubApplication.app is not the given application', app, si.node)
    ok, _ = _slot_is(fl, route, 'self.unbound_route', "getattr(%s, 'unbound_route', %s)" % (ps[1], ps[1]), 'self.unbound_route')
    rep.check('R10.b', fkey(bi, 'unbound_route'), ok, 'endpoint/render always come from the original unbound route, at any depth' if ok else
              'unbound_route is not carried through re-binding', route, bi.node)
    ok, why, where = _bound_apps_chain(fl, bi, route, ps[1], ps[2])
    rep.check('R10.b', fkey(bi, 'bound_apps'), ok, 'bound_apps grows inner -> outer in a list of its own; [-1] is the serving application' if ok else
              'bound_apps is not a new list holding the previous chain and then the binding application: %s' % why, route, where)


PATTERN_DERIVED = ('regex', 'converters', 'path_args')


def _r10b_pattern_derived(rep, repo, route):
    """What a bound route derives from a URL pattern -- the matcher, the converters, the names the URL provides -- is
    derived from the pattern of *this* binding (``self.pattern``, the prefixed one): the flat declaration compiles the
    prefixed pattern, so a segment the prefix binds is matched, converted and offered to the endpoint / middlewares like
    any other.  The route being re-bound was compiled without this binding's prefix: nothing pattern-derived is read off
    it (or off the original unbound route), and nothing is compiled from its pattern."""
    from .c11 import contributions, _ReadCtx, _attr_reads
    bi = route.func('BoundRoute.__init__')
    fl = Flow(bi)
    ps = bi.params()
    if len(ps) < 3:
        raise AnalysisError('BoundRoute.__init__: parameters (route, app) not found')
    ctx = _ReadCtx(bi, fl, {ps[1]: {'route'}, ps[2]: {'app'}})
    own = fl.aliases('self.pattern')
    if not fl.defs.get('self.pattern'):
        raise AnalysisError('BoundRoute.__init__: self.pattern is not assigned here')
    assigned = [a for a in PATTERN_DERIVED if fl.defs.get('self.%s' % a)]
    if 'regex' not in assigned and 'converters' not in assigned:
        raise AnalysisError('BoundRoute.__init__: neither self.regex nor self.converters is assigned here')
    # (1) nothing pattern-derived is read off the route being re-bound, anywhere in the binding
    body = [st for st in bi.node.body]
    for attr in PATTERN_DERIVED:
        reads, _ = _attr_reads(repo, ctx, body, attr, 'self.%s' % attr)
        bad = [(k, n) for k, n in reads if k & {'route', 'original'}]
        rep.check('R10.b', fkey(bi, '%s of this binding' % attr), not bad,
                  'no .%s of the route being re-bound is read while binding' % attr if not bad else
                  'BoundRoute.__init__ reads %s, the %s of the route being re-bound: that was derived from the pattern without the prefix '
                  'of this binding, so a URL segment the prefix binds is not matched / converted / offered to the endpoint and middlewares -- '
                  'the flat declaration of the prefixed pattern provides it' % (short(bad[0][1], 50) if bad else '', attr),
                  route, bad[0][1] if bad else bi.node)
    # (2) what is kept is computed from self.pattern; the only pattern read off a route is the one self.pattern is built on
    for attr in assigned:
        slot = 'self.%s' % attr
        exprs, followed = contributions(fl, bi, slot, stop=own)
        reads, unfollowed = _attr_reads(repo, ctx, exprs, 'pattern', 'self.pattern')
        foreign = [(k, n) for k, n in reads if k != {'app'} and not (slot_key(n) in own)]
        derived = bool(set(followed) & set(own)) or any(slot_key(n) in own for e in exprs for n in ast.walk(e) if isinstance(n, (ast.Name, ast.Attribute)))
        if not derived and not foreign and unfollowed:
            raise AnalysisError('BoundRoute.__init__: self.%s is computed by %s, which could not be followed' % (attr, short(unfollowed[0], 40)))
        ok = derived and not foreign
        rep.check('R10.b', fkey(bi, 'self.%s from self.pattern' % attr), ok,
                  'self.%s is derived from self.pattern, the prefixed pattern of this binding' % attr if ok else
                  ('self.%s is computed from %s, not from self.pattern: the prefix of this binding is missing from what the bound route '
                   'matches / converts / provides' % (attr, short(foreign[0][1], 50)) if foreign else
                   'self.%s is not derived from self.pattern (the prefixed pattern of this binding): %s' %
                   (attr, [short(e, 40) for e in exprs[:2]])), route, foreign[0][1] if foreign else fl.defs[slot][0].stmt)


# ------------------------------------------------------------------------------------------------ R10.c (own part)
def _r10c_dispatch_mode_of_the_route(rep, app):
    """R10.c: the slash decision in Application.dispatch (redirect / strict 404 / rewrite) is made with the mode of the
    *route* being handled -- the mode its pattern was compiled for at bind time.  A bound route carries its own mode (that of
    the application it was bound into, or with inherit_slashes=False the one it had), so routes of one routing table can
    differ: every ``.slash_mode`` dispatch reads, directly or through a local it hoisted, is read off the loop's route --
    never off the application (or anything else that is the same for every route)."""
    from .dispatch import DispatchView
    dv = DispatchView(rep.repo)
    d = dv.fi
    fl = Flow(d)
    own = set(n.id for n in ast.walk(dv.loop.target) if isinstance(n, ast.Name)) | {dv.route_var}
    for n in walk_body(d.node):
        if not (isinstance(n, ast.Attribute) and n.attr == 'slash_mode' and isinstance(n.ctx, ast.Load)):
            continue
        st = stmt_of(app, n)
        recv = fl.text(n.value, st) if st is not None else norm(n.value)
        ok = recv in own
        rep.check('R10.c', fkey(d, 'slash mode read: %s' % norm(n)[:50]), ok, 'dispatch reads the slash mode of the route it is handling' if ok else
                  'dispatch decides the slash handling of a route with %s.slash_mode instead of the mode of the route it is handling (the one '
                  'its pattern was compiled for): a route embedded with inherit_slashes=False, whose mode differs from the application\'s, '
                  'is redirected / refused / rewritten by the wrong rule -- not what the flat declaration of the same route does' % recv,
                  app, n)


def _r10c_chain_compiled_here(rep, route):
    """The chain a bound route executes is compiled at this binding from the middleware list merged at this binding: every
    value that can reach ``self._execute`` is ``make_middleware_chain(<self.middlewares>, ..)``.  A chain taken over from
    the route being re-bound runs the inner application's middleware instances (and renderer), whatever the new route
    declares -- the flat declaration runs the outer ones."""
    bi = route.func('BoundRoute.__init__')
    fl = Flow(bi)
    if not fl.defs.get('self._execute'):
        raise AnalysisError('BoundRoute.__init__: self._execute is not assigned here')
    lv = fl.leaves(_expr('self._execute'), 'exit')
    _require_followed(rep.repo, bi, lv, 'self._execute')
    merged = fl.aliases('self.middlewares')
    bad = []
    for l in lv:
        v = l.value
        first = argn(v, 'middlewares', 0) if isinstance(v, ast.Call) and call_name(v) == 'make_middleware_chain' and not l.opaque else None
        at = l.stmt if isinstance(l.stmt, ast.AST) else None
        if first is None or not (norm(first) in merged or fl.text(first, at) in merged):
            bad.append(l)
    ok = bool(lv) and not bad
    rep.check('R10.c', fkey(bi, 'chain compiled for this binding'), ok,
              'the executed chain is compiled at every binding from the middleware list merged at that binding' if ok else
              'self._execute can be %s instead of make_middleware_chain(self.middlewares, ..): a re-bound route would run a chain compiled for '
              'another binding (the inner application\'s middleware instances and renderer), not the merged list it declares' %
              [short(l.value, 50) for l in bad], route, (bad[0].stmt if bad and isinstance(bad[0].stmt, ast.AST) else bi.node))


# ------------------------------------------------------------------------------------------------ R10.d
def _receivers(fi, fl, attrs):
    out = []
    for n in walk_body(fi.node):
        if isinstance(n, ast.Attribute) and n.attr in attrs and isinstance(n.ctx, ast.Load):
            out.append(fl.text(n.value, stmt_of(fi.mod, n)))
    return out


def _rename_roots(expr, mapping):
    class S(ast.NodeTransformer):
        def visit_Name(self, n):
            if n.id in mapping and isinstance(n.ctx, ast.Load):
                return copy.deepcopy(mapping[n.id])
            return n
    return S().visit(copy.deepcopy(expr))


def _receivers_through_calls(repo, fi, attrs, cg=None, depth=0):
    """Like ``_receivers``, followed into the functions of the tree that ``fi`` hands its own values to (the lookup moved
    behind a call: ``state.error_for(request, _application)``): a receiver found in the callee is expressed in the
    caller's terms -- the callee's parameters stand for the argument expressions, its ``self`` for the call's receiver.
    Only calls that name exactly one function of the tree (directly, through self, a receiver role, or a method name
    only one class defines) are followed; -> (receiver texts, call graph)."""
    fl = Flow(fi)
    out = _receivers(fi, fl, attrs)
    if depth >= 2:
        return out, cg
    for c in walk_body(fi.node):
        if not isinstance(c, ast.Call) or any(isinstance(a, ast.Starred) for a in c.args) or any(k.arg is None for k in c.keywords):
            continue
        if not isinstance(c.func, (ast.Name, ast.Attribute)):
            continue
        if cg is None:
            from ..callgraph import CallGraph
            cg = CallGraph(repo)
        tg, kind = cg._resolve_expr(fi, c.func)
        tg = [t for t in tg if hasattr(t, 'params') and not t.mod.external and not isinstance(t.node, ast.Lambda)]
        if len(tg) != 1 or kind not in ('call', 'self', 'role', 'cha', 'classattr') or tg[0] is fi:
            continue
        callee = tg[0]
        st = stmt_of(fi.mod, c)
        ps = list(callee.params())
        mapping = {}
        static = any(isinstance(d, ast.Name) and d.id == 'staticmethod' for d in callee.node.decorator_list)
        if callee.cls is not None and not static and kind != 'classattr' and ps and isinstance(c.func, ast.Attribute):
            mapping[ps.pop(0)] = fl.resolve(c.func.value, st)
        if len(c.args) > len(ps):
            continue
        for p_, a in zip(ps, c.args):
            mapping[p_] = fl.resolve(a, st)
        for k in c.keywords:
            if k.arg in ps and k.arg not in mapping:
                mapping[k.arg] = fl.resolve(k.value, st)
        inner, cg = _receivers_through_calls(repo, callee, attrs, cg, depth + 1)
        for txt in inner:
            out.append(norm(_rename_roots(_expr(txt), mapping)))
    return out, cg


def _r10d(rep, app, route):
    repo = rep.repo
    bi = route.func('BoundRoute.__init__')
    fl = Flow(bi)
    ps = bi.params()
    flags = Flags(fl, bi)
    pr = Prop(fl, flags)
    lv = fl.leaves(_expr('self.render_error'), 'exit')
    _require_followed(repo, bi, lv, 'self.render_error')
    rre = ('a', 'keyword:rebind_render_error')
    app_values = ("getattr(%s.error_handler, 'render_error', None)" % ps[2], '%s.error_handler.render_error' % ps[2])
    try:
        from_app = [l for l in lv if not l.opaque and fl.text(l.value, l.stmt) in app_values]
        from_route = [l for l in lv if not l.opaque and fl.text(l.value, l.stmt) == '%s.render_error' % ps[1]]
        ok = bool(from_app) and bool(from_route) and len(from_app) + len(from_route) == len(lv) and \
            all(pr.implies(pr.conds(l.conds), rre) for l in from_app) and all(pr.implies(pr.conds(l.conds), ('n', rre)) for l in from_route)
    except Unknown as e:
        raise AnalysisError('BoundRoute.__init__: conditions of the render_error selection not understood (%s)' % e)
    rep.check('R10.d', fkey(bi, 'render_error source'), ok, 'render_error is the binding application\'s error handler\'s (unless rebind_render_error is off)' if ok else
              'render_error is not taken from app.error_handler when re-binding: %s' % [short(l.value, 60) for l in lv], route,
              (lv[0].stmt if lv and isinstance(lv[0].stmt, ast.AST) else bi.node))
    dflt = flags.default_is('rebind_render_error', True)
    if dflt is None:
        raise AnalysisError("BoundRoute.__init__: no read of the bind keyword 'rebind_render_error' recognised")
    rep.check('R10.d', fkey(bi, 'rebind_render_error default'), dflt, 'rebind_render_error defaults to True' if dflt else 'rebind_render_error does not default to True', route, bi.node)
    offs = []

    def forwards(v):
        """``opts.pop('rebind_render_error', True)`` / ``.get(..)``: the caller's own value handed on, on by default"""
        return isinstance(v, ast.Call) and isinstance(v.func, ast.Attribute) and v.func.attr in ('pop', 'get') and not v.keywords and \
            len(v.args) == 2 and isinstance(v.args[0], ast.Constant) and v.args[0].value == 'rebind_render_error' and \
            isinstance(v.args[1], ast.Constant) and v.args[1].value is True
    for m in repo.all_internal_modules():
        for n in ast.walk(m.tree):
            if isinstance(n, ast.keyword) and n.arg == 'rebind_render_error' and not forwards(n.value):
                offs.append((m, n))
            if isinstance(n, ast.Constant) and n.value == 'rebind_render_error' and m.name != ROUTE:
                offs.append((m, n))
    rep.check('R10.d', 'clastic::rebind_render_error callers', not offs, 'no caller in the package switches rebind_render_error off' if not offs else
              'rebind_render_error is passed at %s' % [(m.relpath, n.value.lineno if hasattr(n, 'value') and hasattr(n.value, 'lineno') else '?') for m, n in offs], route)
    stores = fl.defs.get('self.render_error', [])
    ok = bool(lv) and not any(l.opaque for l in lv) and all(d.kind == 'assign' and d.idx is None for d in stores)
    rep.check('R10.d', fkey(bi, 'self.render_error'), ok, 'the selected render_error is stored on the bound route' if ok else 'self.render_error is not the selected renderer', route, bi.node)
    cre = [c for c in walk_body(bi.node) if isinstance(c, ast.Call) and call_name(c) == 'check_render_error']
    sel = fl.aliases('self.render_error')
    res = fl.aliases('self.resources')
    ok = len(cre) == 1 and len(cre[0].args) == 2 and not cre[0].keywords and norm(cre[0].args[0]) in sel and norm(cre[0].args[1]) in res and \
        any(p is True and isinstance(t, ast.Call) and call_name(t) == 'callable' and len(t.args) == 1 and norm(t.args[0]) in sel for t, p in conds(bi, cre[0]))
    rep.check('R10.d', fkey(bi, 'check_render_error'), ok, 'the error renderer\'s arguments are checked against the merged resources at bind time' if ok else
              'render_error is not checked against self.resources at bind time', route, bi.node)
    d = app.func('Application.dispatch')
    rc = _receivers(d, Flow(d), ('not_found_type', 'uncaught_to_response', 'method_not_allowed_type'))
    if not rc:
        rc, _ = _receivers_through_calls(repo, d, ('not_found_type', 'uncaught_to_response', 'method_not_allowed_type'))
    if not rc:
        raise AnalysisError('Application.dispatch: no use of an error handler (not_found_type / uncaught_to_response) found')
    ok = all(r == 'self.error_handler' for r in rc)
    rep.check('R10.d', fkey(d, 'err_handler'), ok, 'uncaught errors and 404/405 types come from the serving application\'s error handler' if ok else
              'dispatch does not consult self.error_handler: %s' % sorted(set(rc)), app, d.node)
    hs = route.func('NullRoute.handle_sentinel_condition')
    rc = _receivers(hs, Flow(hs), ('not_found_type', 'method_not_allowed_type'))
    if not rc:
        # the lookup moved behind a call that is handed the application: followed into the function of the tree it names
        rc, _ = _receivers_through_calls(repo, hs, ('not_found_type', 'method_not_allowed_type'))
    if not rc:
        raise AnalysisError('NullRoute.handle_sentinel_condition: no use of an error handler found')
    ok = all(r == '_application.error_handler' for r in rc)
    rep.check('R10.d', fkey(hs, 'err_handler'), ok, 'the null route asks the serving application for its error types' if ok else
              'the null route does not use _application.error_handler: %s' % sorted(set(rc)), route, hs.node)


# ------------------------------------------------------------------------------------------------ R10.e
def _r10e_plumbing(rep, app, route, kd):
    bi = route.func('BoundRoute.__init__')
    si = app.func('SubApplication.__init__')
    ba = app.func('SubApplication.bind_all')
    dflt = Flags(Flow(bi), bi).default_is('rebind_render', True)
    if dflt is None:
        raise AnalysisError("BoundRoute.__init__: no read of the bind keyword 'rebind_render' recognised")
    rep.check('R10.e', fkey(bi, 'rebind_render default'), dflt, 'plain routes re-bind their render argument by default' if dflt else 'rebind_render does not default to True', route, bi.node)
    a = si.node.args
    dflt = dict(zip([x.arg for x in a.args][len(a.args) - len(a.defaults):], a.defaults))
    sfl = Flow(si)
    lf = _single_leaf(sfl, 'self.rebind_render')
    ok = isinstance(dflt.get('rebind_render'), ast.Constant) and dflt['rebind_render'].value is False and \
        lf is not None and sfl.text(lf.value, lf.stmt) == 'rebind_render'
    rep.check('R10.e', fkey(si, 'rebind_render'), ok, 'embedded routes keep their own renderers unless re-binding is requested (default False)' if ok else
              'SubApplication(rebind_render=False) default / storage changed', app, si.node)
    if kd is None:
        raise AnalysisError('SubApplication.bind_all: bind keyword dict not identified (see R10.a)')
    how, v, st = kd.lookup('rebind_render')
    ok = how == 'default' and norm(v) == 'self.rebind_render'
    rep.check('R10.e', fkey(ba, 'rebind_render forwarded'), ok, 'bind_all forwards self.rebind_render (a caller\'s value wins)' if ok else
              'bind_all does not forward self.rebind_render (%s %s)' % (how, short(v, 40) if v is not None else ''), app, st or ba.node)
    ad, afl, rf, ball, bone = _add_view(app)
    calls = ball + bone
    kws = set(norm(k.value) for c in calls for k in c.keywords if k.arg is None)
    if len(kws) != 1 or not calls:
        raise AnalysisError('Application.add: the bind calls do not pass one keyword dict (%s)' % sorted(kws))
    akd = KwDict(ad, afl, kws.pop(), [stmt_of(app, c) for c in calls])
    how, v, st = akd.lookup('rebind_render')
    ok = how == 'default' and afl.text(v, st) == "getattr(%s, 'rebind_render', True)" % rf
    rep.check('R10.e', fkey(ad, 'rebind_render default'), ok, 'add() defaults rebind_render from the route factory' if ok else
              'add() does not default rebind_render from the factory (%s %s)' % (how, short(v, 40) if v is not None else ''), app, st or ad.node)
    # whatever add() itself enters into the keyword dict it binds with sits below the caller's keywords: an option the
    # caller wrote -- False and None included -- is the one the routes are bound with (the opt-outs of the statement)
    for key in sorted(set(l[1] for l in akd.layers if l[0] in ('key', 'key?')), key=str):
        how, v, st = akd.lookup(key)
        if how == 'unknown':
            raise AnalysisError('Application.add: what the bind keyword %r ends up as could not be established' % (key,))
        ok = how == 'default'
        rep.check('R10.e', fkey(ad, 'caller option %s wins' % key), ok, 'add() enters %r only as a default below the caller\'s keywords' % (key,) if ok else
                  'add() %s the bind option %r with %s whatever the caller passed: an explicit opt-out (False) handed to add() is replaced by the '
                  'route factory\'s default, so the embedded routes are bound with the embedding application\'s setting although the caller '
                  'opted out' % ('sometimes overwrites' if how == 'conditional' else 'overwrites', key, short(v, 40) if v is not None else '?'),
                  app, st or ad.node)


def _newest_factory(fl, pr, route, leaf):
    """The callee of the factory branch is the factory of the most recently bound application that has a callable one:
    ``first(reversed([.. for ba in self.bound_apps]), key=callable)`` or the equivalent search loop."""
    bound_apps = fl.aliases('self.bound_apps')

    def factories_of_bound_apps(e, at):
        e, at = _deref(fl, e, at)
        return isinstance(e, ast.ListComp) and len(e.generators) == 1 and not e.generators[0].ifs and \
            norm(e.generators[0].iter) in bound_apps or (isinstance(e, ast.ListComp) and len(e.generators) == 1 and not e.generators[0].ifs and
                                                         fl.text(e.generators[0].iter, fl.stmt_of(e)) in bound_apps)

    def newest_first(e, at):
        e, at = _deref(fl, e, at)
        return isinstance(e, ast.Call) and call_name(e) == 'reversed' and len(e.args) == 1 and not e.keywords and factories_of_bound_apps(e.args[0], at)
    key = slot_key(leaf.value.func)
    d = fl.single_def(key, leaf.stmt)
    if d is not None and isinstance(d.value, ast.Call) and call_name(d.value) == 'next':
        # next((f for f in reversed(candidates) if callable(f)), None)
        v = d.value
        g = v.args[0] if len(v.args) == 2 and not v.keywords and norm(v.args[1]) == 'None' else None
        if isinstance(g, ast.GeneratorExp) and len(g.generators) == 1 and isinstance(g.generators[0].target, ast.Name):
            var = g.generators[0].target.id
            return norm(g.elt) == var and [norm(i) for i in g.generators[0].ifs] == ['callable(%s)' % var] and newest_first(g.generators[0].iter, d.stmt)
        return False
    if d is not None:
        v = d.value
        return isinstance(v, ast.Call) and call_name(v) == 'first' and len(v.args) >= 1 and norm(argn(v, 'key', 2)) == 'callable' and \
            (argn(v, 'default', 1) is None or norm(argn(v, 'default', 1)) == 'None') and newest_first(v.args[0], d.stmt)
    # the search spelled out: factory = None; for c in reversed(<factories>): if callable(c): factory = c; break
    # (or over reversed(<bound apps>) with c = getattr(app_, 'render_factory', None) inside; None also from the loop's else)
    lv = fl.leaves(leaf.value.func, leaf.stmt)
    none = [l for l in lv if not l.opaque and isinstance(l.value, ast.Constant) and l.value.value is None]
    found = [l for l in lv if l not in none]
    if len(found) != 1 or not none:
        return False
    f0 = found[0]
    sets = [d_.stmt for d_ in fl.reaching(key, leaf.stmt) if d_.kind == 'assign' and isinstance(d_.stmt, ast.Assign) and
            not (isinstance(d_.value, ast.Constant) and d_.value.value is None)]
    if len(sets) != 1:
        return False
    loops = [l for l in stmts_of(fl.fi.node) if isinstance(l, ast.For) and sets[0] in stmts_of(l)]
    if len(loops) != 1:
        return False
    loop = loops[0]
    var = norm(loop.target)
    if f0.opaque and f0.stmt is loop:
        by_value = newest_first(loop.iter, loop) and norm(sets[0].value) == var
        cand = var
    else:
        it, _ = _deref(fl, loop.iter, loop)
        by_value = not f0.opaque and isinstance(it, ast.Call) and call_name(it) == 'reversed' and len(it.args) == 1 and \
            (norm(it.args[0]) in bound_apps or fl.text(it.args[0], loop) in bound_apps) and \
            norm(f0.value) in ("getattr(%s, 'render_factory', None)" % var, '%s.render_factory' % var)
        cand = norm(sets[0].value)
    if not by_value:
        return False
    for s_ in loop.orelse:
        if not (isinstance(s_, ast.Assign) and all(slot_key(t) == key for t in s_.targets) and isinstance(s_.value, ast.Constant) and s_.value.value is None):
            return False
    parent = route.parents.get(sets[0])
    body = parent.body if isinstance(parent, ast.If) and sets[0] in parent.body else None
    return body is not None and isinstance(body[-1], ast.Break) and not parent.orelse and \
        fl.text(parent.test, parent) in ('callable(%s)' % cand, 'callable(%s)' % fl.text(sets[0].value, sets[0])) and parent in loop.body and \
        len([x for x in stmts_of(loop) if isinstance(x, (ast.Break, ast.Continue, ast.Return))]) == 1


def _r10e_render(rep, app, route):
    bi = route.func('BoundRoute.__init__')
    fl = Flow(bi)
    ps = bi.params()
    flags = Flags(fl, bi)
    pr = Prop(fl, flags)
    ur_text = "getattr(%s, 'unbound_route', %s)" % (ps[1], ps[1])
    ok_ur, _ = _slot_is(fl, route, 'self.unbound_route', ur_text, 'self.unbound_route')
    if not ok_ur:
        raise AnalysisError('BoundRoute.__init__: self.unbound_route is not the original unbound route (see R10.b)')
    for k in fl.aliases('self.unbound_route'):
        fl.subst[k] = _expr(ur_text)
    ur_render = '%s.render' % ur_text
    prev_render = '%s.render' % ps[1]
    if flags.default_is('rebind_render', True) is None:
        raise AnalysisError("BoundRoute.__init__: no read of the bind keyword 'rebind_render' recognised")
    lv = fl.leaves(_expr('self.render'), 'exit')
    made = {}      # leaves that are a function object a private helper creates (followed through its returns)
    _require_followed(rep.repo, bi, lv, 'self.render', made)
    explicit = ('a', 'callable(%s)' % ur_render)
    prev_callable = ('a', 'callable(%s)' % prev_render)
    # re-binding applies when requested, or when nothing callable was bound yet
    BR = ('|', [('a', 'keyword:rebind_render'), ('a', '%s is _noop_render' % prev_render), ('n', prev_callable)])

    def text(l):
        return fl.text(l.value, l.stmt) if isinstance(l.stmt, ast.AST) else norm(l.value)
    known = [l for l in lv if not l.opaque]
    expl = [l for l in known if text(l) == ur_render]
    fac = [l for l in known if isinstance(l.value, ast.Call) and len(l.value.args) == 1 and not l.value.keywords
           and slot_key(l.value.func) is not None and fl.text(l.value.args[0], l.stmt) == ur_render]
    keep = [l for l in known if text(l) == prev_render and l not in expl]
    noop = [l for l in known if norm(l.value) == '_noop_render']
    others = [l for l in lv if l not in expl and l not in fac and l not in keep and l not in noop]
    try:
        P = dict((id(l), pr.conds(l.conds)) for l in lv)
        ok = len(expl) == 1 and pr.implies(P[id(expl[0])], explicit) and all(pr.implies(P[id(l)], ('n', explicit)) for l in lv if l is not expl[0])
        rep.check('R10.e', fkey(bi, 'explicit render wins'), ok, 'an explicit callable render always takes precedence' if ok else
                  'explicit callable renders no longer take precedence', route, bi.node)
        ok = len(fac) == 1 and pr.implies(P[id(fac[0])], ('n', explicit)) and pr.implies(P[id(fac[0])], BR)
        rep.check('R10.e', fkey(bi, 'factory branch'), ok, 'a render argument is re-interpreted by a render factory only when re-binding applies' if ok else
                  'the render-factory branch is not conditioned on bind_render', route, fac[0].stmt if fac else bi.node)
        ok = bool(keep) and bool(noop) and not others and all(pr.implies(P[id(l)], prev_callable) for l in keep) and \
            all(pr.implies(P[id(l)], ('n', prev_callable)) for l in noop)
        standin = [l for l in others if id(l) in made]
        rep.check('R10.e', fkey(bi, 'carry-through branch'), ok, 'otherwise the previously bound renderer is carried through' if ok else
                  ('when no factory has interpreted the render argument yet the binding stores %s, a function %s creates per call, but the next '
                   'binding recognises that situation by the marker "%s is _noop_render" (and by a non-callable render): writer and reader of '
                   'the sentinel disagree, so an application embedded later never gets its render factory applied to these routes -- the flat '
                   'declaration of the same routes does' % (short(standin[0].value, 40), made[id(standin[0])].qualname, prev_render)) if standin else
                  'the carry-through branch of render selection changed: %s' % [short(l.value, 40) for l in keep + noop + others], route,
                  (others or keep or noop or [None])[0].stmt if (others or keep or noop) and isinstance((others or keep or noop)[0].stmt, ast.AST) else bi.node)
        # ... and *whenever* it applies (and a factory / a render argument exist): on the carry-through paths, under the
        # other conditions of the factory branch, re-binding does not apply
        ok = len(fac) == 1
        if ok:
            br_atoms = pr.atoms(BR)
            side = [f for f in P[id(fac[0])] if not (pr.atoms(f) & br_atoms)]
            ok = bool(keep + noop) and all(pr.implies(P[id(l)] + side, ('n', BR)) for l in keep + noop)
        rep.check('R10.e', fkey(bi, 'bind_render'), ok, 're-binding applies when requested or when nothing callable was bound yet' if ok else
                  'bind_render is not "rebind_render or route.render is _noop_render or not callable(route.render)"', route, bi.node)
    except Unknown as e:
        raise AnalysisError('BoundRoute.__init__: conditions of the render selection not understood (%s)' % e)
    ok = len(fac) == 1 and _newest_factory(fl, pr, route, fac[0])
    rep.check('R10.e', fkey(bi, 'render factory'), ok, 'the render factory is that of the most recently bound (outermost) application that has one' if ok else
              'render factory selection is not first(reversed([...bound_apps...]), key=callable)', route, bi.node)
    stores = fl.defs.get('self.render', [])
    ok = bool(lv) and not any(l.opaque for l in lv) and all(d.kind == 'assign' for d in stores)
    rep.check('R10.e', fkey(bi, 'self.render'), ok, 'the selected renderer is stored and used for the chain' if ok else 'self.render is not the selected renderer', route, bi.node)


def _safe(fn):
    """A Python exception inside a rule group is an analysis gap of that group, never a crash of the check."""
    def wrapped(*a, **k):
        try:
            return fn(*a, **k)
        except AnalysisError:
            raise
        except Exception as e:      # pragma: no cover
            raise AnalysisError('internal error in rule group %s: %s: %s' % (fn.__name__, type(e).__name__, e))
    wrapped.__name__ = getattr(fn, '__name__', 'rule group')
    return wrapped


def run(rep):
    repo = rep.repo
    app, route = repo.mod(APP), repo.mod(ROUTE)
    _guard = rep.guard
    rep_guard = lambda fn, *a, **k: _guard(_safe(fn), *a, **k)
    rep.decide('R10.a every inner route re-bound in order with the prefix; R10.b prefix composition; R10.c middleware / '
               'resource precedence; R10.d outer error handling; R10.e renderer / slash plumbing')
    rep.decline('response equivalence nested vs flat (behavioural); render_factory selection as a value computation')
    rep.rule('R10.a', 'sequence rules on SubApplication.bind_all / cast_to_route_factory')
    rep.rule('R10.b', 'dataflow of the prefix')
    rep.rule('R10.c', 'merge order and layer order (shared with C03 / C02)')
    rep.rule('R10.d', 'render_error provenance')
    rep.rule('R10.e', 'kwarg-name agreement and render selection branches')

    # ---- R10.a -----------------------------------------------------------
    def bind_all_rules():
        return _r10a(rep, app, route)
    kd = rep_guard(bind_all_rules)

    def cast_rule():
        _r10a_cast(rep, app)
    rep_guard(cast_rule)

    def running_index():
        from .c06 import check_running_index
        check_running_index(rep, 'R10.a')
    rep_guard(running_index)

    def add_uses_bind_all():
        _r10a_add(rep, app)
    rep_guard(add_uses_bind_all)
    rep_guard(rep.floor, 'R10.a', 7)

    # ---- R10.b -----------------------------------------------------------
    def prefix_rules():
        _r10b(rep, app, route)

    def pattern_derived():
        _r10b_pattern_derived(rep, repo, route)
    rep_guard(prefix_rules)
    rep_guard(pattern_derived)
    rep_guard(rep.floor, 'R10.b', 6)

    # ---- R10.c -----------------------------------------------------------
    def merge_order():
        chain.check_merge_order(rep, 'R10.c')

    def request_layers():
        chain.check_request_layers(rep, 'R10.c')

    def slash_plumbing():
        from .c07 import check_slash_plumbing
        check_slash_plumbing(rep, 'R10.c')
    def chain_compiled_here():
        _r10c_chain_compiled_here(rep, route)
    rep_guard(merge_order)
    rep_guard(request_layers)
    rep_guard(slash_plumbing)
    rep_guard(chain_compiled_here)

    def dispatch_mode_of_the_route():
        _r10c_dispatch_mode_of_the_route(rep, app)
    rep_guard(dispatch_mode_of_the_route)
    rep_guard(rep.floor, 'R10.c', 25)

    # ---- R10.d -----------------------------------------------------------
    def error_handling_rules():
        _r10d(rep, app, route)
    rep_guard(error_handling_rules)
    rep_guard(rep.floor, 'R10.d', 7)

    # ---- R10.e -----------------------------------------------------------
    def kwarg_agreement():
        from .c07 import bind_kwarg_agreement
        bind_kwarg_agreement(rep, 'R10.e')

    def render_plumbing():
        _r10e_plumbing(rep, app, route, kd)

    def render_selection():
        _r10e_render(rep, app, route)
    rep_guard(kwarg_agreement)
    rep_guard(render_plumbing)
    rep_guard(render_selection)
    rep_guard(rep.floor, 'R10.e', 12)
