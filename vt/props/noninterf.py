"""Static non-interference view of the request path (shared by C08.d, C11, C12).

The set of clastic functions reachable from ``Application.__call__`` is computed on the call graph;
every heap effect in it is classified by its receiver:

  fresh          allocated in this activation (literals, constructor calls, **kwargs dicts)
  request-local  a role known to be per request: the request object, the dispatch state, the
                 response / exception being produced, parameter dicts built per call; ``self`` inside
                 methods of per-request classes (DispatchState, HTTPException family, RerouteWSGI)
  shared         everything else: ``self`` of Application / BoundRoute / Route / ErrorHandler /
                 Middleware objects, module globals (also under a local that only names one), parameters of
                 unknown role, the default object of a parameter (whatever the parameter is called), the class
                 object (``cls`` / ``x.__class__`` / ``type(x)``) whatever the lifetime of the instances; a field
                 of a per-request class that is initialised in the class body only and updated in place
                 (``field_freshness``)
"""
import ast

from ..core import AnalysisError, norm, short
from ..callgraph import CallGraph
from ..loader import ClassInfo
from .. import effects
from ..astutil import stmts_of as stmts_of_

CORE_MODS = ['clastic.application', 'clastic.route', 'clastic.sinter', 'clastic.middleware.core', 'clastic.errors',
             'clastic.utils', 'clastic._contextual_errors']

REQUEST_LOCAL_NAMES = {
    'request', 'dispatch_state', '_dispatch_state', 'ret', 'exc', '_error', 'resp', 'response', 'kwargs', 'kw',
    'injectables', 'params', 'all_kwargs', 'error_params', 'uncaught_params', 'base_params', 'path_params',
    'exc_info', 'render_ctx', 'nf_exc', 'err', 'e', 'rre', 'headers', 'frame', 'exc_tb', 'eid', 'cur', 'route_results',
    '_req', 'lines', 'environ_copy',
}
PER_REQUEST_CLASSES = {('clastic.application', 'DispatchState'), ('clastic.errors', 'HTTPException'),
                       ('clastic.application', 'RerouteWSGI')}


def core_modules(repo):
    """The modules of the framework core: the listed ones, plus every *private* module of the package (``_name.py``) a core
    module imports a function or class from -- a piece of the core that was split off into a module of its own and is
    imported back under its name (transitively).  The definitions in it are judged like those that stayed behind."""
    mods = [repo.mod(n) for n in CORE_MODS if repo.try_mod(n) is not None]
    todo = list(mods)
    while todo:
        m = todo.pop(0)
        for local, (modname, attr) in sorted(m.imports.items()):
            if attr is None or not repo.is_internal(modname) or not modname.rpartition('.')[2].startswith('_'):
                continue
            try:
                tm = repo.try_mod(modname)
            except AnalysisError:
                tm = None
            if tm is None or tm.external or tm in mods or tm.is_pkg:
                continue
            if attr in tm.functions or attr in tm.classes:
                mods.append(tm)
                todo.append(tm)
    return mods


def role_classes(repo, name):
    """The classes a role name of ``callgraph.ROLE_TABLE`` stands for, as definitions: each ``(module, class)`` entry is
    resolved in that module's namespace, so a class that moved to another module and is imported back is still meant."""
    from ..callgraph import ROLE_TABLE
    out = []
    for modname, cname in ROLE_TABLE.get(name, []):
        m = repo.try_mod(modname)
        if m is None:
            continue
        try:
            out.append(m.cls(cname))
        except AnalysisError:
            continue
    return out


class RequestPath(object):
    def __init__(self, repo):
        self.repo = repo
        self.mods = core_modules(repo)
        self.cg = CallGraph(repo, self.mods)
        app = repo.mod('clastic.application')
        self.root = app.func('Application.__call__')
        kinds = ('call', 'self', 'super', 'new', 'role', 'prop', 'classattr', 'cha', 'instance-call', 'ref')
        # dynamic dispatch the call graph cannot see, listed explicitly (each with its reason)
        self.dynamic_roots = []
        err = repo.mod('clastic.errors')
        route = repo.mod('clastic.route')
        eh = err.cls('ErrorHandler')
        fam = [eh] + repo.subclasses(eh, self.mods)
        for c in fam:
            for nm in ('render_error', 'uncaught_to_response'):
                if nm in c.methods:
                    self.dynamic_roots.append((c.methods[nm], 'inject(self.render_error) / err_handler.%s' % nm))
            for attr, v in c.class_attrs.items():
                if attr.endswith('_type') and isinstance(v, ast.Name):
                    k, m, obj = repo.resolve(c.mod, v.id)
                    if k == 'class':
                        for meth in obj.methods.values():
                            self.dynamic_roots.append((meth, '%s.%s = %s (instantiated per request)' % (c.name, attr, obj.name)))
                        for base in repo.mro(obj):
                            if isinstance(base, ClassInfo) and not base.mod.external:
                                for meth in base.methods.values():
                                    self.dynamic_roots.append((meth, 'base %s of %s' % (base.name, obj.name)))
        self.dynamic_roots.append((route.func('NullRoute.handle_sentinel_condition'), 'endpoint of the null route (run through the generated chain)'))
        roots = [self.root] + [f for f, _ in self.dynamic_roots]
        self.reach = self.cg.reachable(roots, kinds=kinds, stop=self._stop)
        self.per_request = []
        for modname, cname in PER_REQUEST_CLASSES:
            m = repo.try_mod(modname)
            if m is None:
                continue
            try:
                self.per_request.append(m.cls(cname))       # (follows the class to the module it is defined in)
            except AnalysisError:
                continue

    def _stop(self, e):
        # construction-time entry points are not part of serving a request even if a by-name edge finds them
        q = e.callee.qualname
        if q in ('Application.__init__', 'Application.add', 'Application.serve', 'Application.set_error_handler',
                 'SubApplication.bind_all', 'SubApplication.__init__', 'Route.__init__', 'BoundRoute.__init__',
                 'Route.bind', 'BoundRoute.bind', 'NullRoute.bind', 'NullRoute.__init__', 'cast_to_route_factory',
                 'create_dev_server_parser', 'Application.get_local_client'):
            return True
        return False

    def is_per_request_class(self, ci):
        if ci is None:
            return False
        for pr in self.per_request:
            if ci is pr or pr in self.repo.mro(ci):
                return True
        return False

    def classify(self, fi, eff, fresh):
        """-> ('fresh'|'request-local'|'shared', reason)"""
        root = eff.root
        if root is None:
            return 'shared', 'receiver is not rooted in a name: %s' % short(eff.target)
        # an object taken out of the caller's */** arguments is the caller's, whatever the local that names it is called (the
        # mapping / tuple itself is built per call: only what lies one level down is judged here)
        src = self.caller_supplied(fi, eff)
        if src:
            return 'shared', src
        if root in fresh:
            return 'fresh', 'allocated in this activation'
        ci = self.cg.enclosing_class(fi)
        # the class object is one per process, whatever the lifetime of the instances: ``cls.x``, ``self.__class__.x``, ``type(self).x``
        if root == 'cls' and fi.params()[:1] == ['cls']:
            return 'shared', 'the class object (cls) is shared by all requests'
        if len(eff.chain) >= 2 and eff.chain[1] == '__class__':
            return 'shared', 'the class object (%s.__class__) is shared by all requests' % root
        if root == 'type' and len(eff.chain) >= 2 and eff.chain[1] == '()' and 'type' not in fi.params():
            return 'shared', 'the class object (type(..)) is shared by all requests'
        # the default object of a parameter is evaluated once, when the function is defined (whatever the parameter is called)
        if root in fi.params() and root not in ('self', 'cls'):
            d = self._default_of(fi, root)
            if d is not None and self._mutable_default(d) and not any(not isinstance(x[1], ast.AugAssign) for x in self._assigned(fi, root)):
                return 'shared', 'default object of parameter %s (%s: evaluated once, at definition)' % (root, short(d))
        if root in ('self', 'cls'):
            if self.is_per_request_class(ci):
                return 'request-local', 'self of per-request class %s' % ci.name
            if fi.name == '__init__' and ci is not None and len(eff.chain) == 2 and eff.kind == 'store':
                return 'fresh', 'own field of the object under construction'
            return 'shared', 'self of %s' % (ci.name if ci else '?')
        params = set(fi.params())
        al = self.shared_aliases(fi)
        if root in al:
            return 'shared', 'local %s is an alias of %s (no copy)' % (root, al[root])
        if root in REQUEST_LOCAL_NAMES:
            return 'request-local', 'role of %s' % root
        if root in params:
            why = self.param_role(fi, root)
            if why:
                return 'request-local', why
            return 'shared', 'parameter %s has no per-request role' % root
        # a local that only ever holds values produced by calls in this activation (or the exception being handled)
        if self._activation_local(fi, root, params):
            return 'request-local', 'local %s holds a value produced in this activation' % root
        # module global?
        if root in fi.mod.assigns or root in fi.mod.imports:
            return 'shared', 'module-level object %s' % root
        # local of unknown provenance (e.g. alias of a parameter)
        return 'shared', 'local %s of unknown provenance' % root

    # ---- objects that belong to the caller -----------------------------------------------------------------------------
    @staticmethod
    def _star_params(fi):
        a = fi.node.args
        return (a.vararg.arg if a.vararg else None), (a.kwarg.arg if a.kwarg else None)

    def _taken_from_star(self, fi, v, depth=0):
        """``v`` evaluates to an object the *caller* put into ``*args`` / ``**kwargs``: ``kw.get(k[, d])`` / ``kw.pop(k[, d])`` /
        ``kw[k]`` / ``kw.setdefault(k, <such>)`` / ``args[i]`` / ``next(iter(args))`` -- the mapping / tuple is built per
        call, what it holds is not.  -> text, or None."""
        va, kw = self._star_params(fi)
        if va is None and kw is None:
            return None
        if isinstance(v, ast.Subscript) and isinstance(v.value, ast.Name) and v.value.id in (va, kw) and not isinstance(v.slice, ast.Slice):
            return short(v, 40)
        if isinstance(v, ast.Call) and isinstance(v.func, ast.Attribute) and isinstance(v.func.value, ast.Name) and \
                v.func.value.id == kw and kw is not None and v.func.attr in ('get', 'pop', 'setdefault', '__getitem__') and v.args:
            return short(v, 40)
        if isinstance(v, ast.BoolOp) and depth < 2:
            # ``kw.get(k) or <fresh>``: the caller's object when there is one
            for x in v.values:
                t = self._taken_from_star(fi, x, depth + 1)
                if t:
                    return t
        if isinstance(v, ast.IfExp) and depth < 2:
            for x in (v.body, v.orelse):
                t = self._taken_from_star(fi, x, depth + 1)
                if t:
                    return t
        return None

    def caller_supplied(self, fi, eff):
        """The receiver of effect ``eff`` is (or may be, on some path) an object the caller handed over inside ``*args`` /
        ``**kwargs``: updated in place it changes something this activation does not own.  Either the effect goes through
        the star parameter itself one level down (``kw[k].update(..)``, ``kw[k][j] = v``, ``args[0].append(..)``), or through
        a local one of whose definitions *reaching the statement* takes the object out of the star parameter (also through a
        plain copy of such a local).  A key this function itself stores into the mapping first is its own.  -> text, or None."""
        if isinstance(fi.node, ast.Lambda):
            return None
        va, kw = self._star_params(fi)
        if va is None and kw is None:
            return None
        ch = eff.chain or []
        root = eff.root
        if root in (va, kw) and root is not None:
            deep = (eff.kind == 'mutcall' and len(ch) >= 2) or (eff.kind in ('store', 'delete') and len(ch) >= 3)
            if not deep or ch[1] != '[]':
                return None
            # ``kw['headers'] = Headers()`` ... ``kw['headers'].add(..)``: an entry the function put there itself
            t = eff.target
            while isinstance(t, (ast.Attribute, ast.Subscript)) and not (isinstance(t, ast.Subscript) and isinstance(t.value, ast.Name)):
                t = t.value
            key = t.slice if isinstance(t, ast.Subscript) else None
            if isinstance(key, ast.Constant) and root == kw:
                for st in stmts_of_(fi.node):
                    if isinstance(st, ast.Assign):
                        for t0 in st.targets:
                            for x in effects._targets(t0):
                                if isinstance(x, ast.Subscript) and isinstance(x.value, ast.Name) and x.value.id == kw and \
                                        isinstance(x.slice, ast.Constant) and x.slice.value == key.value:
                                    return None
            return 'an element of the caller\'s %s%s (%s): the %s is built per call, what the caller put into it is not' % (
                '**' if root == kw else '*', root, short(eff.target, 40), 'mapping' if root == kw else 'tuple')
        if root is None or root in fi.params() or root in (va, kw):
            return None
        from ..astutil import stmt_of
        st = eff.node if isinstance(eff.node, ast.stmt) else stmt_of(fi.mod, eff.node)
        if st is None:
            return None
        try:
            fl = getattr(fi, '_flow', None)
            if fl is None:
                fl = fi._flow = effects.Flow(fi)
            return self._reaching_caller_object(fi, fl, root, st, 0, set())
        except AnalysisError:
            return None

    def _reaching_caller_object(self, fi, fl, name, st, depth, seen):
        if depth > 3 or name in seen:
            return None
        seen = seen | {name}
        for d in fl.reaching(name, st):
            if d.kind != 'assign':
                continue
            v, _ = fl.unpacked(d)
            if v is None:
                continue
            t = self._taken_from_star(fi, v)
            if t:
                return 'local %s may name %s here: an object the caller passed in (not a copy)' % (name, t)
            if isinstance(v, ast.Name) and v.id not in fi.params() and d.stmt is not None:
                t = self._reaching_caller_object(fi, fl, v.id, d.stmt, depth + 1, seen)
                if t:
                    return t
        return None

    @staticmethod
    def _default_of(fi, name):
        a = fi.node.args
        pos = a.posonlyargs + a.args
        out = dict(zip([x.arg for x in pos[len(pos) - len(a.defaults):]], a.defaults))
        out.update((x.arg, d) for x, d in zip(a.kwonlyargs, a.kw_defaults) if d is not None)
        return out.get(name)

    @staticmethod
    def _mutable_default(d):
        if isinstance(d, (ast.List, ast.Dict, ast.Set, ast.ListComp, ast.DictComp, ast.SetComp)):
            return True
        if isinstance(d, ast.Call):
            return not (isinstance(d.func, ast.Name) and d.func.id in ('tuple', 'frozenset', 'object', 'int', 'float', 'str', 'bytes', 'bool'))
        return False

    @staticmethod
    def _declared_field(d):
        """``attr.ib(..)`` / ``attr.attrib(..)`` / ``attrib(..)`` / ``field(..)`` / ``dataclasses.field(..)`` in a class body:
        'factory' when instances get their own object (``factory=`` / ``default_factory=`` / ``default=attr.Factory(..)``),
        the default expression when one is given, '' when there is none; None when ``d`` is not a field declaration."""
        if not isinstance(d, ast.Call):
            return None
        f = d.func
        name = f.id if isinstance(f, ast.Name) else (f.attr if isinstance(f, ast.Attribute) else None)
        if name not in ('ib', 'attrib', 'attr', 'field'):
            return None
        if isinstance(f, ast.Attribute) and not (isinstance(f.value, ast.Name) and f.value.id in ('attr', 'attrs', 'dataclasses')):
            return None
        default = d.args[0] if d.args and name != 'field' else None
        for k in d.keywords:
            if k.arg in ('factory', 'default_factory'):
                return 'factory'
            if k.arg == 'default':
                default = k.value
        if isinstance(default, ast.Call):
            g = default.func
            gname = g.id if isinstance(g, ast.Name) else (g.attr if isinstance(g, ast.Attribute) else None)
            if gname == 'Factory':
                return 'factory'
        return default if default is not None else ''

    @staticmethod
    def _assigned(fi, name):
        from ..astutil import assigned_value
        return assigned_value(fi.node, name)

    def _module_level_object(self, fi, name):
        """``name`` read in fi (where it is neither a parameter nor assigned) denotes a module-level object of the analysed
        tree -- not a function, class or module."""
        if name in fi.params() or name in ('self', 'cls', 'True', 'False', 'None'):
            return False
        for n in ast.walk(fi.node):
            if isinstance(n, ast.Name) and n.id == name and isinstance(n.ctx, (ast.Store, ast.Del)):
                return False
        parts = fi.qualname.split('.')
        for i in range(len(parts) - 1, 0, -1):
            outer = fi.mod.functions.get('.'.join(parts[:i]))
            if outer is not None and not isinstance(outer.node, ast.Lambda):
                if name in outer.params() or any(isinstance(n, ast.Name) and n.id == name and isinstance(n.ctx, ast.Store) for n in ast.walk(outer.node)):
                    return False
        try:
            kind, m, obj = self.repo.resolve(fi.mod, name)
        except Exception:
            return False
        return kind == 'value' and m is not None and not m.external

    def param_role(self, fi, name, depth=0):
        """A parameter without a role of its own takes the role of what is passed for it: when *every* call of the
        function the call graph knows hands over an object that is fresh or request-local in the caller (and the function
        is never passed around as a value, so there are no calls the graph cannot see), stores through the parameter
        stay inside the request.  -> reason text, or None."""
        from ..astutil import argn
        if depth > 3 or name in ('self', 'cls'):
            return None
        a = fi.node.args
        if (a.vararg and a.vararg.arg == name) or (a.kwarg and a.kwarg.arg == name):
            return None
        edges = self.cg.callers(fi)
        if not edges or any(e.kind not in ('call', 'self', 'classattr') for e in edges):
            return None          # no known call, or reached by reference / by-name dispatch: cannot enumerate the callers
        if any(fi is f for f, _ in self.dynamic_roots):
            return None
        pos = [x.arg for x in a.posonlyargs + a.args]
        static = any(isinstance(d, ast.Name) and d.id == 'staticmethod' for d in fi.node.decorator_list)
        callers = []
        for e in edges:
            call = e.node
            if not isinstance(call, ast.Call) or any(isinstance(x, ast.Starred) for x in call.args) or any(k.arg is None for k in call.keywords):
                return None
            idx = pos.index(name) if name in pos else None
            if idx is not None and fi.cls is not None and not static and isinstance(call.func, ast.Attribute):
                idx -= 1         # bound call: self is implicit
            arg = argn(call, name, idx if idx is None or idx >= 0 else None)
            if not isinstance(arg, ast.Name):
                return None
            caller = e.caller
            if not hasattr(caller, 'params') or isinstance(caller.node, ast.Lambda):
                return None
            fresh = effects.fresh_locals(self.repo, caller)
            cparams = set(caller.params())
            if arg.id in fresh:
                pass
            elif arg.id in self.shared_aliases(caller):
                return None
            elif arg.id in REQUEST_LOCAL_NAMES:
                pass
            elif arg.id in cparams:
                if not self.param_role(caller, arg.id, depth + 1):
                    return None
            elif not self._activation_local(caller, arg.id, cparams):
                return None
            callers.append(caller.qualname)
        return 'parameter %s: every caller (%s) passes an object of its own request' % (name, ', '.join(sorted(set(callers))))

    def _activation_local(self, fi, name, params, depth=0):
        """every assignment of the local is a call result, the exception being handled, or another such local"""
        from ..astutil import assigned_value
        if depth > 4 or name in params:
            return False
        vals = assigned_value(fi.node, name)
        if not vals:
            return False
        vals = [x for x in vals if not isinstance(x[1], ast.AugAssign)]      # ``x op= v`` keeps x's object or builds a new one
        if not vals:
            return False
        for st, v, idx in vals:
            if idx == 'exc':
                continue
            if idx == 'iter' and self._iterates_activation_container(fi, v, params, depth):
                continue     # element of a container that itself belongs to this activation
            if idx is None and isinstance(v, ast.Call):
                continue
            if idx is None and isinstance(v, ast.Name) and (v.id in REQUEST_LOCAL_NAMES or self._activation_local(fi, v.id, params, depth + 1)):
                continue
            if idx is None and isinstance(v, ast.Constant):
                continue
            if idx is None and isinstance(v, (ast.Dict, ast.List, ast.Set, ast.DictComp, ast.ListComp, ast.SetComp)):
                continue     # a display / comprehension builds its container in this activation, like a call does (the
                             # local is re-bound to a new object on that path: ``d = f(); d.update(x); d = {k: v for ..}``)
            if idx is None and isinstance(v, (ast.Attribute, ast.Subscript)) and self._part_of_request_local(fi, v, params, depth):
                continue     # names a part of a per-request object: the same judgement as for a store through the chain itself
            return False
        return True

    def _part_of_request_local(self, fi, v, params, depth):
        """``v`` is an attribute / item chain (no call) rooted at ``self`` of a per-request class, at a name with a
        per-request role, or at a local that itself belongs to this activation."""
        ch = effects.chain_of(v)
        if not ch or len(ch) < 2 or '()' in ch:
            return False
        r = ch[0]
        if r in ('self', 'cls'):
            return self.is_per_request_class(self.cg.enclosing_class(fi))
        if r in self.shared_aliases(fi):
            return False
        if r in effects.fresh_locals(self.repo, fi) or r in REQUEST_LOCAL_NAMES:
            return True
        return r not in params and self._activation_local(fi, r, params, depth + 1)

    def _iterates_activation_container(self, fi, it, params, depth):
        """``for x in <it>``: every container the iterable draws from (looking through enumerate / zip / sorted /
        reversed / list / tuple / iter and .items() / .values() / .keys()) is rooted in a local that is fresh,
        request-local by role, or itself holds only values produced in this activation.  Stores through ``x`` are then
        stores into that container's own elements -- the same judgement the classification makes for ``c[i][k] = v``."""
        todo, roots = [it], []
        while todo:
            e = todo.pop()
            if isinstance(e, ast.Call) and isinstance(e.func, ast.Name) and e.func.id in ('enumerate', 'zip', 'sorted', 'reversed', 'list', 'tuple', 'iter') \
                    and e.args and not any(isinstance(a, ast.Starred) for a in e.args):
                todo.extend(e.args[:1] if e.func.id == 'enumerate' else e.args)
                continue
            if isinstance(e, ast.Call) and isinstance(e.func, ast.Attribute) and e.func.attr in ('items', 'values', 'keys') and not e.args:
                todo.append(e.func.value)
                continue
            while isinstance(e, (ast.Attribute, ast.Subscript)):
                e = e.value
            if not isinstance(e, ast.Name):
                return False
            roots.append(e.id)
        if not roots:
            return False
        fresh = effects.fresh_locals(self.repo, fi)
        al = self.shared_aliases(fi)
        for r in roots:
            if r in ('self', 'cls') or r in al:
                return False
            if r in fresh or r in REQUEST_LOCAL_NAMES:
                continue
            if r in params or not self._activation_local(fi, r, params, depth + 1):
                return False
        return True

    def shared_aliases(self, fi):
        """{local: text} -- locals whose every assignment is a plain attribute/subscript chain (no call, no copy)
        rooted at ``self`` of a long-lived class, at a parameter without a per-request role, or at another such
        alias.  Mutating such a local mutates the shared object."""
        c = getattr(fi, '_shared_aliases', None)
        if c is not None:
            return c
        from ..astutil import assigned_value
        ci = self.cg.enclosing_class(fi)
        self_shared = ci is not None and not self.is_per_request_class(ci)
        params = set(fi.params())
        out = {}
        changed = True
        names = set()
        for n in ast.walk(fi.node):
            if isinstance(n, ast.Name) and isinstance(n.ctx, ast.Store):
                names.add(n.id)
        while changed:
            changed = False
            for name in sorted(names - set(out) - params):
                vals = assigned_value(fi.node, name)
                if not vals:
                    continue
                ok = True
                src = None
                for st, v, idx in vals:
                    if idx is not None or not isinstance(v, (ast.Attribute, ast.Subscript, ast.Name)):
                        ok = False
                        break
                    base = v
                    while isinstance(base, (ast.Attribute, ast.Subscript)):
                        base = base.value
                    if not isinstance(base, ast.Name):
                        ok = False
                        break
                    b = base.id
                    if b in ('self', 'cls') and self_shared and not isinstance(v, ast.Name):
                        src = norm(v)
                    elif b in out:
                        src = norm(v)
                    elif b in params and b not in REQUEST_LOCAL_NAMES and b not in ('self', 'cls') and not isinstance(v, ast.Name):
                        src = norm(v)
                    elif b not in names and self._module_level_object(fi, b):
                        src = 'the module-level object %s' % norm(v)      # ``memo = _MEMO`` / ``row = _TABLE[key]``
                    else:
                        ok = False
                        break
                if ok and src:
                    out[name] = src
                    changed = True
        fi._shared_aliases = out
        return out

    # ---- ownership of what a per-request object holds ------------------------------------------------------------
    def _related(self, a, b):
        """An instance can run methods of both classes: one is a base of the other, or an analysed class derives from both."""
        mro = self.repo.mro
        if a is b or a in mro(b) or b in mro(a):
            return True
        return any(a in mro(c) and b in mro(c) for c in self.cg.classes)

    def _instance_views(self, classes):
        """[(FuncInfo, root name, class)] -- the places where an instance of one of ``classes`` is at hand under a name:
        ``self`` in the methods of the class, and in every other function of the analysed modules a name whose role is
        that class (callgraph.ROLE_TABLE) or a local that is only ever assigned a constructor call of the class."""
        from ..callgraph import ROLE_TABLE
        from ..astutil import assigned_value
        views = []
        for ci in classes:
            for m in ci.methods.values():
                views.append((m, 'self', ci))
        for fi in self.cg.funcs:
            if isinstance(fi.node, ast.Lambda):
                continue
            names = set(fi.params())
            for n in ast.walk(fi.node):
                if isinstance(n, ast.Name):
                    names.add(n.id)
            for name in sorted(names - {'self', 'cls'}):
                roles = [c for c in classes if name in ROLE_TABLE and c in role_classes(self.repo, name)]
                if not roles and name not in fi.params():
                    vals = assigned_value(fi.node, name)
                    ctor = []
                    for st, v, idx in vals:
                        k = None
                        if idx is None and isinstance(v, ast.Call) and isinstance(v.func, ast.Name):
                            kind, m_, obj = self.repo.resolve(fi.mod, v.func.id)
                            k = obj if kind == 'class' and obj in classes else None
                        ctor.append(k)
                    if ctor and all(k is not None for k in ctor):
                        roles = sorted(set(ctor), key=lambda c: c.name)
                for c in roles:
                    views.append((fi, name, c))
        return views

    def field_freshness(self):
        """Ownership rule for classes instantiated per request: the object a field holds may be mutated in place
        (mutating method call, item / attribute store through the field, ``field op= v``, the same through a local
        that names the field's object) only if every value ever stored into that field is an object allocated by the
        storing activation -- otherwise the per-request object adopts (aliases) something longer-lived handed to it
        and a later in-place update rewrites that.  The field is looked at wherever an instance is at hand: ``self``
        in the methods of the class and its relatives, role-named / constructor-assigned names elsewhere.  A field
        whose only in-place updates are augmented assignments may also hold values that can only be immutable
        (``self.n = n0`` ... ``self.n += 1`` re-binds).  -> [(ClassInfo, FuncInfo, field, assign stmt, ok)]"""
        from ..astutil import assigned_value
        classes = self.per_request + [c for c in self.cg.classes if any(pr in self.repo.mro(c) for pr in self.per_request) and c not in self.per_request]
        muts, asgs = [], []          # (class, field, FuncInfo, node, hard) / (class, field, FuncInfo, stmt, value)
        seen_asg = set()
        for fi, root, ci in self._instance_views(classes):
            # locals that name the object held by a field: every assignment is ``<root>.<field>[...]`` without a call
            alias = {}
            for name in set(n.id for n in ast.walk(fi.node) if isinstance(n, ast.Name) and isinstance(n.ctx, ast.Store)):
                if name == root:
                    continue
                vals = [x for x in assigned_value(fi.node, name) if not isinstance(x[1], ast.AugAssign)]
                fields = set()
                for st, v, idx in vals:
                    ch = effects.chain_of(v) if idx is None and isinstance(v, (ast.Attribute, ast.Subscript)) else None
                    fields.add(ch[1] if ch and len(ch) >= 2 and ch[0] == root and '()' not in ch and ch[1] != '[]' else None)
                if vals and len(fields) == 1 and None not in fields:
                    alias[name] = fields.pop()
            for e in effects.effects_in(fi.node, aug_names=True):
                ch = e.chain or []
                if not ch:
                    continue
                aug = isinstance(e.node, ast.AugAssign)
                if ch[0] == root and len(ch) >= 2 and ch[1] not in ('[]', '()'):
                    if e.kind == 'mutcall' or (e.kind in ('store', 'delete') and len(ch) > 2):
                        muts.append((ci, ch[1], fi, e.node, True))
                    elif aug and e.kind == 'store' and len(ch) == 2 and not effects.aug_rebinds(e.node):
                        muts.append((ci, ch[1], fi, e.node, False))
                elif ch[0] in alias:
                    if e.kind == 'mutcall' or (e.kind in ('store', 'delete') and len(ch) >= 2):
                        muts.append((ci, alias[ch[0]], fi, e.node, True))
                    elif e.kind == 'augname' and not effects.aug_rebinds(e.node):
                        muts.append((ci, alias[ch[0]], fi, e.node, False))
            for st in stmts_of_(fi.node):
                pairs = []
                if isinstance(st, ast.Assign):
                    for t0 in st.targets:
                        if isinstance(t0, (ast.Tuple, ast.List)):
                            plain = effects._plain_unpack(st, st.value)
                            for i, t in enumerate(t0.elts):
                                tt = t.value if isinstance(t, ast.Starred) else t
                                for x in effects._targets(tt):
                                    pairs.append((x, st.value.elts[i] if plain and x is t else None))
                        else:
                            pairs.append((t0, st.value))
                elif isinstance(st, ast.AnnAssign) and st.value is not None:
                    pairs.append((st.target, st.value))
                elif isinstance(st, (ast.For, ast.AsyncFor)):
                    pairs.extend((t, None) for t in effects._targets(st.target))
                elif isinstance(st, (ast.With, ast.AsyncWith)):
                    for it in st.items:
                        if it.optional_vars is not None:
                            pairs.extend((t, None) for t in effects._targets(it.optional_vars))
                elif isinstance(st, ast.Expr) and isinstance(st.value, ast.Call) and isinstance(st.value.func, ast.Name) and \
                        st.value.func.id == 'setattr' and len(st.value.args) == 3 and isinstance(st.value.args[0], ast.Name) and \
                        isinstance(st.value.args[1], ast.Constant) and isinstance(st.value.args[1].value, str):
                    c = st.value
                    pairs.append((ast.Attribute(value=c.args[0], attr=c.args[1].value, ctx=ast.Store()), c.args[2]))
                for t, v in pairs:
                    if isinstance(t, ast.Attribute) and isinstance(t.value, ast.Name) and t.value.id == root and (id(st), t.attr) not in seen_asg:
                        seen_asg.add((id(st), t.attr))
                        asgs.append((ci, t.attr, fi, st, v))
        out = []
        for ci, field, fi, st, v in asgs:
            ms = [m for m in muts if m[1] == field and self._related(ci, m[0])]
            if not ms:
                continue
            hard = any(m[4] for m in ms)
            ok = v is not None and (self._fresh_value(fi, v, st) or (not hard and effects.known_immutable(fi, v)))
            rec = st
            if not isinstance(getattr(st, 'value', None), ast.expr) or (isinstance(st, ast.Assign) and v is not st.value):
                # report the stored value itself (element of an unpacking, argument of setattr, loop target)
                rec = ast.copy_location(ast.Assign(targets=[ast.Attribute(value=ast.Name(id='self', ctx=ast.Load()), attr=field, ctx=ast.Store())],
                                                   value=v if v is not None else ast.Name(id='<unpacked>', ctx=ast.Load())), st)
            out.append((ci, fi, field, rec, ok))
        # a field initialised in the class body only: one object for every instance, whatever the lifetime of the instances.
        # An in-place update through ``self.<field>`` then needs every construction to give the instance its own object first.
        seen_cl = set()
        for ci, field, fi, node, hard in muts:
            if (ci, field) in seen_cl:
                continue
            seen_cl.add((ci, field))
            try:
                owner, val = self.repo.class_attr(ci, field)
            except Exception:
                owner, val = None, None
            if owner is None or not isinstance(val, ast.expr) or owner.mod.external:
                continue
            decl = self._declared_field(val)
            if decl == 'factory':
                continue        # attrs / dataclass field with a factory: every instance gets an object of its own
            if decl is not None:
                if not (isinstance(decl, ast.expr) and self._mutable_default(decl)):
                    continue    # a declared field with an immutable (or no) default
            elif not self._mutable_default(val):
                continue
            init = self.repo.find_method(ci, '__init__')
            covered = False
            if init is not None and not init.mod.external:
                stores = [a[3] for a in asgs if a[1] == field and a[2] is init]
                if stores:
                    from .common import cfg_of
                    cfg = cfg_of(init)
                    nodes = cfg.nodes_of_all(stores)
                    covered = bool(nodes) and cfg.must_pass(nodes, cfg.entry, cfg.exit, normal_only=True)
            if not covered:
                rec = ast.copy_location(ast.Assign(targets=[ast.Attribute(value=ast.Name(id=owner.name, ctx=ast.Load()), attr=field, ctx=ast.Store())],
                                                   value=val), val)
                out.append((ci, init if init is not None and not init.mod.external else fi, field, rec, False))
        return out

    def _fresh_value(self, fi, v, st):
        """``v`` evaluated at statement ``st`` of fi is an object allocated in this activation: a display / comprehension /
        constant / operator result, a container-constructor or class call, an analysed function that returns a fresh
        object, or a local all of whose definitions reaching ``st`` are such."""
        fresh = effects.fresh_locals(self.repo, fi)
        if isinstance(v, ast.Name):
            if v.id in fresh:
                return True
            if v.id in fi.params():
                return False
            try:
                return effects.fresh_at(self.repo, fi, effects.Flow(fi), v.id, st)
            except AnalysisError:
                return False
        if isinstance(v, ast.Call) and isinstance(v.func, ast.Name) and self.repo.resolve(fi.mod, v.func.id)[0] == 'class':
            return True
        return effects._is_fresh_expr(self.repo, fi, v, None, fresh)

    def effects(self):
        """[(FuncInfo, Effect, class, reason, path)] for every reachable function of the core modules."""
        out = []
        for fi, path in sorted(self.reach.items(), key=lambda kv: kv[0].key):
            if fi.mod.external:
                continue
            fresh = effects.fresh_locals(self.repo, fi)
            for e in effects.effects_in(fi.node, aug_names=True):
                if e.kind == 'augname' and (effects.aug_rebinds(e.node) or effects.known_immutable(fi, e.target)):
                    continue         # re-binds a local that holds a number / string / tuple: no object is mutated
                cls, why = self.classify(fi, e, fresh)
                out.append((fi, e, cls, why, path))
        return out


def path_text(path):
    if not path:
        return 'Application.__call__'
    return ' -> '.join([path[0].caller.qualname] + [e.callee.qualname for e in path])
