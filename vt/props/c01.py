"""C01 -- Bind-time dependency check is sound and complete.

Decided (see DESIGN.md section 3, C01):
  R01.a  eager binding: Application.__init__ binds the null route and add()s every entry on every
         normal path; add() only inserts values returned by bind()/bind_all(); bind()s return
         BoundRoute(...); every normal path of BoundRoute.__init__ passes check_middlewares and
         make_middleware_chain, whose result is the only value ever stored in _execute, which is the
         callable execute() injects into; the preprovided set is url | builtins | resources; execute() offers the whole of
         self.resources and passes its call-time parameters on unfiltered (what binding counted as available is there per request);
         the names counted as provided by the URL are the keys of the table match_path fills the URL parameters from, and a
         mapping match_path returns has a value for every one of them;
         the stack handed to make_middleware_chain is every middleware of the route and of the binding application and nothing
         else: merge_middlewares loses none and builds a list of its own (the application's list is not the accumulator);
  R01.b  unresolved => NameError (three make_chain results, two 'next' tests); the NameError is what the caller gets:
         building its message cannot itself raise (every % / .format gets the number of values it takes -- a tuple
         operand of run-time length, followed through make_chain's return, is spread over the conversions);
  R01.c  exact set arithmetic of chain_argspec / make_chain (truth tables over symbolic atoms);
  R01.d  per-phase availability sets and pairing of function lists with provides lists; the generated request core hands each
         chain exactly the names make_chain derived as that chain's signature (one NAME=NAME join over the whole argument set,
         nothing written beside it), and takes exactly the names its caller computed for it;
  R01.e  all consumers of a signature enumerate the same parameters; parameter-kind table; the signature of a bound method lacks
         ``self`` whatever the state of its instance (the drop in get_fb is guarded by what f *is*, not by the truth value of
         ``f.__self__``);
  R01.f  chain_argspec and the code generator are level-aligned; make_chain hands the function list and the provides tuples on as
         declared (order-preserving copies only).
Declined: that every accepted configuration serves every request (needs CPython introspection of
arbitrary callables); the undocumented cycle check.
"""
import ast

from ..core import AnalysisError, norm, short
from ..astutil import assigned_value, argn
from ..setalg import Universe, SetInterp, Opaque, Unmodelled
from .. import effects
from . import chain
from .common import (cfg_of, fkey, conds, has_cond, stmts_of, walk_body, call_tail, call_name, returns_of, stmt_of, kwarg)

ROUTE, APP = 'clastic.route', 'clastic.application'



def check_eager_binding(rep, rule):
    repo = rep.repo
    route = repo.mod(ROUTE)
    app = repo.mod(APP)
    # --- Application.__init__
    ai = app.func('Application.__init__')
    cfg = cfg_of(ai)
    def binds_null_route(v):
        v = chain._deref(ai, v)
        if not (isinstance(v, ast.Call) and isinstance(v.func, ast.Attribute) and v.func.attr == 'bind' and v.args and norm(v.args[0]) == 'self'):
            return False
        recv = chain._deref(ai, v.func.value)
        return isinstance(recv, ast.Call) and call_name(recv) == 'NullRoute'
    nr = [s for s in stmts_of(ai.node) if isinstance(s, ast.Assign) and any(norm(t) == 'self._null_route' for t in s.targets)
          and binds_null_route(s.value)]
    ok = len(nr) == 1 and cfg.must_pass(cfg.nodes_of(nr[0]), cfg.entry, cfg.exit, normal_only=True) and norm(nr[0].targets[0]) == 'self._null_route'
    rep.check(rule, fkey(ai, 'null route bound'), ok,
              'the catch-all route is bound (with the application middlewares) on every construction path' if ok else
              'Application.__init__ does not always bind NullRoute() eagerly', app, nr[0] if nr else ai.node)
    loops = [s for s in stmts_of(ai.node) if isinstance(s, ast.For) and
             any(isinstance(c, ast.Call) and norm(c.func) == 'self.add' and c.args and norm(c.args[0]) == norm(s.target)
                 for b in s.body for c in ast.walk(b))]
    ok = len(loops) == 1 and cfg.must_pass(cfg.nodes_of(loops[0]), cfg.entry, cfg.exit, normal_only=True)
    if ok:
        rp = ai.params()[1]

        def all_routes(e, depth=0, rebinding=False, seen=None):
            """``e`` is the routes argument (every entry of it, in order), possibly defaulted to an empty list.  ``seen``: for a
            local re-bound in straight-line code, how many of its bindings lie before the point of view."""
            seen = seen or {}
            if isinstance(e, ast.Call) and call_name(e) in ('list', 'tuple', 'iter') and len(e.args) == 1 and not e.keywords:
                return all_routes(e.args[0], depth, rebinding, seen)
            if isinstance(e, ast.BoolOp) and isinstance(e.op, ast.Or) and len(e.values) == 2:
                d = e.values[1]
                return all_routes(e.values[0], depth, rebinding, seen) and ((isinstance(d, (ast.List, ast.Tuple)) and not d.elts) or
                                                                            (isinstance(d, ast.Call) and call_name(d) in ('list', 'tuple') and not d.args))
            if isinstance(e, ast.Name):
                vals = [v for st_, v, idx in assigned_value(ai.node, e.id)]
                if e.id == rp:
                    # the parameter; re-bound only from itself (routes = routes or [])
                    return rebinding or all(all_routes(v, depth + 1, True) for v in vals)
                if len(vals) > 1 or e.id in seen:
                    # re-bound in straight-line code before the loop (``r = routes`` / ``r = r or []``): the last binding counts,
                    # and what it reads of the local itself is the binding before it
                    body = ai.node.body
                    idx = [i for i, s_ in enumerate(body) if s_ is loops[0]]
                    tops = [s_ for s_ in (body[:idx[0]] if idx else []) if isinstance(s_, ast.Assign) and len(s_.targets) == 1 and
                            isinstance(s_.targets[0], ast.Name) and s_.targets[0].id == e.id]
                    n = seen.get(e.id, len(tops))
                    if len(tops) != len(vals) or n < 1 or depth >= 4:
                        return False
                    return all_routes(tops[n - 1].value, depth + 1, rebinding, dict(seen, **{e.id: n - 1}))
                return depth < 3 and len(vals) == 1 and all_routes(vals[0], depth + 1, rebinding, seen)
            return False
        ok = all_routes(loops[0].iter)
        # the add call itself is unconditional in the loop body
        lcfg_ok = all(isinstance(b, ast.Expr) for b in loops[0].body if any(isinstance(c, ast.Call) and norm(c.func) == 'self.add' for c in ast.walk(b)))
        ok = ok and lcfg_ok
    rep.check(rule, fkey(ai, 'every entry added'), ok, 'every entry of routes goes through self.add() at construction' if ok else
              'Application.__init__ does not add() every route entry eagerly', app, loops[0] if loops else ai.node)
    # --- Application.add
    ad = app.func('Application.add')
    ins = [c for c in walk_body(ad.node) if isinstance(c, ast.Call) and norm(c.func) in ('self.routes.insert', 'self.routes.append', 'self.routes.extend')]
    if not ins:
        raise AnalysisError('Application.add: no insertion into self.routes')
    for c in ins:
        val = c.args[-1]
        ok = False
        why = 'inserted value %s is not bound by bind()/bind_all()' % short(val)
        if isinstance(val, ast.Name):
            # loop variable over a list that only comes from bind / bind_all
            lst = None
            loop = [s for s in stmts_of(ad.node) if isinstance(s, ast.For) and val.id in [n.id for n in ast.walk(s.target) if isinstance(n, ast.Name)]]
            if len(loop) == 1:
                tg, itx = loop[0].target, loop[0].iter
                if isinstance(tg, ast.Name):
                    lst = itx
                elif isinstance(tg, ast.Tuple) and len(tg.elts) == 2 and norm(tg.elts[1]) == val.id and isinstance(itx, ast.Call) and \
                        call_name(itx) == 'enumerate' and itx.args:
                    lst = itx.args[0]       # for i, br in enumerate(bound_routes[, start])
            while isinstance(lst, ast.Call) and call_name(lst) in ('list', 'tuple', 'iter') and len(lst.args) == 1:
                lst = lst.args[0]

            def method_of(f, name):
                """The callee is ``<x>.<name>`` -- written out, or through a local bound to that attribute."""
                if isinstance(f, ast.Attribute):
                    return f.attr == name
                if isinstance(f, ast.Name):
                    vals = [v for st_, v, idx in assigned_value(ad.node, f.id)]
                    return len(vals) == 1 and ((isinstance(vals[0], ast.Attribute) and vals[0].attr == name) or
                                               (isinstance(vals[0], ast.Call) and call_name(vals[0]) == 'getattr' and len(vals[0].args) >= 2 and
                                                isinstance(vals[0].args[1], ast.Constant) and vals[0].args[1].value == name))
                return False

            def bound_list(v):
                if isinstance(v, ast.Call) and method_of(v.func, 'bind_all') and v.args and norm(v.args[0]) == 'self':
                    return True
                return isinstance(v, (ast.List, ast.Tuple)) and len(v.elts) == 1 and isinstance(v.elts[0], ast.Call) and \
                    method_of(v.elts[0].func, 'bind') and bool(v.elts[0].args) and norm(v.elts[0].args[0]) == 'self'
            if isinstance(lst, ast.Name):
                srcs = [v for st_, v, idx in assigned_value(ad.node, lst.id)]
                idxs = [idx for st_, v, idx in assigned_value(ad.node, lst.id)]
                ok = bool(srcs) and all(i is None for i in idxs) and all(bound_list(v) for v in srcs)
            elif lst is not None:
                ok = bound_list(lst)
        rep.check(rule, fkey(ad, c), ok, 'only freshly bound routes (bind(self)/bind_all(self)) enter the routing table' if ok else why, app, c)
    # --- SubApplication.bind_all
    ba = app.func('SubApplication.bind_all')
    rets = returns_of(ba)
    app_p = ba.params()[1]

    def rebinds(v):
        return isinstance(v, ast.Call) and isinstance(v.func, ast.Attribute) and v.func.attr == 'bind' and bool(v.args) and norm(v.args[0]) == app_p
    ok = len(rets) == 1 and isinstance(rets[0].value, (ast.Name, ast.ListComp))
    if ok and isinstance(rets[0].value, ast.ListComp):
        # return [rt.bind(app, ...) for rt in <inner routes> ...]
        ok = rebinds(rets[0].value.elt)
    elif ok:
        rv = rets[0].value.id
        apps = [c for c in walk_body(ba.node) if isinstance(c, ast.Call) and norm(c.func) in ('%s.append' % rv, '%s.extend' % rv, '%s.insert' % rv)]
        ok = bool(apps)
        for c in apps:
            v = c.args[-1]
            if isinstance(v, ast.Name):
                srcs = [s.value for s in stmts_of(ba.node) if isinstance(s, ast.Assign) and norm(s.targets[0]) == v.id]
                v = srcs[0] if len(srcs) == 1 else v
            ok = ok and rebinds(v)
        init = [s for s in stmts_of(ba.node) if isinstance(s, ast.Assign) and norm(s.targets[0]) == rv]
        if len(init) == 1 and isinstance(init[0].value, ast.ListComp) and not apps:
            ok = rebinds(init[0].value.elt)
        else:
            ok = ok and len(init) == 1 and isinstance(init[0].value, ast.List) and not init[0].value.elts
    rep.check(rule, fkey(ba, 'rebinds'), ok, 'every returned route is rt.bind(app, ...) of an inner route' if ok else
              'SubApplication.bind_all returns routes that were not re-bound to the embedding application', app, ba.node)
    # --- bind() methods
    for q in ('Route.bind', 'BoundRoute.bind'):
        f = route.func(q)
        rs = returns_of(f)
        rv = chain._deref(f, rs[0].value) if len(rs) == 1 and rs[0].value is not None else None
        ok = len(rs) == 1 and isinstance(rv, ast.Call) and call_name(rv) == 'BoundRoute' and \
            [norm(a) for a in rv.args[:2]] == ['self', f.params()[1]]
        rep.check(rule, fkey(f), ok, '%s returns BoundRoute(self, app, ...)' % q if ok else '%s does not return a new BoundRoute(self, app)' % q, route, f.node)
    nb = route.func('NullRoute.bind')
    rs = returns_of(nb)
    ok = len(rs) == 1 and isinstance(rs[0].value, ast.Call) and call_tail(rs[0].value) == 'bind' and 'super' in norm(rs[0].value.func)
    rep.check(rule, fkey(nb), ok, 'NullRoute.bind delegates to Route.bind' if ok else 'NullRoute.bind does not delegate to Route.bind', route, nb.node)
    # --- BoundRoute.__init__
    bi = route.func('BoundRoute.__init__')
    cfg = cfg_of(bi)
    cm = [stmt_of(bi.mod, c) for c in walk_body(bi.node) if isinstance(c, ast.Call) and call_name(c) == 'check_middlewares']
    mk = [s for s in stmts_of(bi.node) if isinstance(s, ast.Assign) and isinstance(s.value, ast.Call) and call_name(s.value) == 'make_middleware_chain']
    ok = bool(cm) and cfg.must_pass(cfg.nodes_of_all(cm), cfg.entry, cfg.exit, normal_only=True)
    rep.check(rule, fkey(bi, 'check_middlewares'), ok, 'check_middlewares(...) is on every normal path of binding' if ok else
              'a BoundRoute can be constructed without check_middlewares', route, cm[0] if cm else bi.node)
    def stored_in_execute(st):
        t = norm(st.targets[0])
        if t == 'self._execute':
            return True
        # chain = make_middleware_chain(...); self._execute = chain
        ex_asg = [s for s in stmts_of(bi.node) if isinstance(s, ast.Assign) and any(norm(x) == 'self._execute' for x in s.targets)]
        return isinstance(st.targets[0], ast.Name) and len(assigned_value(bi.node, t)) == 1 and len(ex_asg) == 1 and \
            norm(ex_asg[0].value) == t and cfg.must_pass(cfg.nodes_of(ex_asg[0]), cfg.nodes_of(st), cfg.exit, normal_only=True)
    ok = len(mk) == 1 and cfg.must_pass(cfg.nodes_of(mk[0]), cfg.entry, cfg.exit, normal_only=True) and stored_in_execute(mk[0])
    rep.check(rule, fkey(bi, 'make_middleware_chain'), ok,
              'the chain is built (and all NameErrors raised) on every normal path of binding; result stored in self._execute' if ok else
              'a BoundRoute can be constructed without building its chain (lazy or skipped dependency check)', route, mk[0] if mk else bi.node)
    if mk:
        c = mk[0].value
        a = [norm(x) for x in c.args]
        # the render the chain is built around is the one the route keeps (self.render): the same local, or the attribute
        stored = [norm(s.value) for s in stmts_of(bi.node) if isinstance(s, ast.Assign) and any(norm(t) == 'self.render' for t in s.targets)]
        render_ok = len(a) == 4 and (a[2] == 'self.render' or (a[2].isidentifier() and stored == [a[2]]))
        ok = len(a) == 4 and a[0] == 'self.middlewares' and a[1].endswith('.endpoint') and render_ok
        rep.check(rule, fkey(bi, 'chain inputs'), ok, 'chain is built from (merged middlewares, endpoint, selected render, provided)' if ok else
                  'make_middleware_chain arguments changed: %s' % a, route, c)
        # provided = url | builtins | resources
        if len(c.args) < 4:
            raise AnalysisError('BoundRoute.__init__: make_middleware_chain call without the preprovided argument')
        try:
            uni, got = chain.eval_bind_sources(repo, c.args[3], mk[0])
        except Unmodelled as e:
            raise AnalysisError('BoundRoute.__init__ provided set: %s' % e)
        want = uni['URL'] | uni['BUILTINS'] | uni['RES']
        rep.check(rule, fkey(bi, 'provided'), got == want, 'preprovided = URL bindings | built-ins | resources (exact)' if got == want else
                  'the preprovided set differs from url | builtins | resources: %s' % uni.diff_witness(got, want), route, c)
    # single writer of _execute, in the whole package
    writers = []
    for m in repo.all_internal_modules():
        for fi in m.functions.values():
            for e in effects.effects_in(fi.node):
                if e.chain and '_execute' in e.chain:
                    writers.append((m, fi, e))
    ok = len(writers) == 1 and writers[0][1] is bi
    rep.check(rule, 'clastic::writers of _execute', ok, 'BoundRoute.__init__ is the only writer of _execute' if ok else
              '_execute is written at: %s' % ', '.join('%s' % w[1].key for w in writers), route, bi.node)
    ex = route.func('BoundRoute.execute')
    inj = [c for c in walk_body(ex.node) if isinstance(c, ast.Call) and call_name(c) == 'inject']
    ok = len(inj) == 1 and norm(inj[0].args[0]) == 'self._execute' and \
        any(r.value is not None and chain._deref(ex, r.value) is inj[0] for r in returns_of(ex))
    rep.check(rule, fkey(ex, 'inject(self._execute)'), ok, 'execute() runs exactly the chain compiled at bind time' if ok else
              'execute() does not inject into the chain compiled at bind time', route, ex.node)
    # no code between chain construction and use rebuilds lazily: BoundRoute has no __getattr__/property named _execute
    br = route.cls('BoundRoute')
    ok = '_execute' not in br.methods and '__getattr__' not in br.methods
    rep.check(rule, '%s::BoundRoute lazy hooks' % ROUTE, ok, 'no property/__getattr__ can synthesise _execute lazily' if ok else
              'BoundRoute defines _execute/__getattr__ (lazy chain construction)', route, br.node)


def run(rep):
    rep.decide('R01.a eager binding; R01.b unresolved=>NameError; R01.c exact set arithmetic; R01.d phase availability; '
               'R01.e accessor agreement & parameter kinds; R01.f level alignment')
    rep.decline('that every accepted configuration serves every request (CPython introspection of arbitrary callables); '
                'the undocumented cycle check (either outcome allowed by the property)')
    rep.assume('boltons 23.1.1 FunctionBuilder semantics as read from the pinned source')
    rep.rule('R01.a', 'must-pass-through: every construction path binds eagerly and builds the chain')
    rep.rule('R01.b', 'error discipline: unresolved sets and misplaced next raise NameError before the function returns; the message of the NameError is built by total operations (format arity over operand shapes)')
    rep.rule('R01.c', 'truth-table equality of the set arithmetic with the specification')
    rep.rule('R01.d', 'truth-table equality of the per-phase availability sets; pairing table')
    rep.rule('R01.e', 'sibling cross-check of signature accessors; parameter-kind exhaustiveness')
    rep.rule('R01.f', 'sequence normal forms: both consumers see funcs++[final]; codegen recursion is aligned')
    g = rep.guard
    g(check_eager_binding, rep, 'R01.a')
    g(chain.check_execute_offers_provided, rep, 'R01.a')
    g(chain.check_url_source_agreement, rep, 'R01.a')
    g(chain.check_url_params_complete, rep, 'R01.a')
    g(chain.check_merge_complete, rep, 'R01.a')
    g(chain.check_unresolved_raises, rep, 'R01.b')
    g(chain.check_chain_argspec, rep, 'R01.c')
    g(chain.check_make_chain, rep, 'R01.c', 'R01.f')
    g(chain.check_phase_sets, rep, 'R01.d', rule_pair='R01.d', rule_order=None, rule_core_env='R01.d')
    g(chain.check_core_call_names, rep, 'R01.d')
    g(chain.check_accessors, rep, 'R01.e')
    g(chain.check_generated_level, rep, 'R01.f', 'R01.f', 'R01.f', 'R01.f', 'R01.f')
    if not rep.gaps:
        rep.floor('R01.a', 12)
        rep.floor('R01.b', 5)
        rep.floor('R01.c', 8)
        rep.floor('R01.d', 12)
        rep.floor('R01.e', 10)
        rep.floor('R01.f', 10)
