"""R13.c (body replaced) -- whoever replaces the body of a response it did not create keeps the old iterable's close() reachable.

The property: "returns an iterable of bytes whose close() releases any file it opened".  The file a static response owns is
reachable only through the iterable ``build_file_response`` installed as ``resp.response`` (R13.c judges that hand-over);
werkzeug's ``Response.close()`` closes the *current* ``self.response`` and then runs the ``call_on_close`` callbacks.  So a
function that gets a response from elsewhere (``next()``, a parameter, a helper) and stores a new ``.response`` / ``.data``
(or calls ``set_data``) on it must, on every path to that store, have made the old iterable's ``close`` survive:

  * through a method / property of the response that buffers the body *and registers the old close* -- which ones do is read
    from the source of the pinned werkzeug (``make_sequence`` does: ``close = getattr(self.response, 'close', None)`` ...
    ``self.call_on_close(close)``; the methods every normal path of which goes through it, or through ``self.is_sequence``
    being true -- a tuple / list has no close --, do as well: ``_ensure_sequence``, ``get_data``, the ``data`` property;
    ``freeze`` and ``calculate_content_length`` (which swallows the refusal) do not);
  * or by registering it: ``resp.call_on_close(old.close)`` for ``old = resp.response`` read before the store (also guarded
    by ``close is not None`` for ``close = getattr(old, 'close', None)``);
  * or by wrapping: the new value is werkzeug's ``ClosingIterator(new, [.. old.close ..])``.

Nothing is run: the facts about werkzeug are shapes of its source, the judgement on clastic is dominance in the CFG.
"""
import ast

from ..core import AnalysisError, norm, short
from ..astutil import assigned_value
from ..cfg import enclosing_tries
from .common import cfg_of, fkey, stmts_of, walk_body, call_name

_WZ_MODS = ('werkzeug.wrappers.base_response', 'werkzeug.wrappers.response', 'werkzeug.wrappers')


def _response_class(repo):
    for name in _WZ_MODS:
        m = repo.try_mod(name)
        if m is None:
            continue
        for ci in m.classes.values():
            if 'make_sequence' in ci.methods and 'call_on_close' in ci.methods and 'close' in ci.methods:
                return ci
    raise AnalysisError('the response class of the pinned werkzeug (make_sequence / call_on_close / close) was not found')


def _is_close_of(v, what):
    """``getattr(<what>, 'close', ..)`` or ``<what>.close``."""
    if isinstance(v, ast.Call) and isinstance(v.func, ast.Name) and v.func.id == 'getattr' and len(v.args) >= 2 and \
            norm(v.args[0]) in what and isinstance(v.args[1], ast.Constant) and v.args[1].value == 'close':
        return True
    return isinstance(v, ast.Attribute) and v.attr == 'close' and norm(v.value) in what


def _protected(fi, s):
    return any(part == 'body' and t.handlers for t, part in enclosing_tries(fi.mod, s, fi.node))


def keeping_api(repo):
    """(methods, properties) of the pinned werkzeug response class after whose normal return the old body iterable's
    ``close`` is registered with ``call_on_close`` (or there was none to lose).  Read from the source."""
    ci = _response_class(repo)
    ms = ci.methods
    # call_on_close appends to the list close() runs
    lists = set(norm(c.func.value) for c in walk_body(ms['call_on_close'].node)
                if isinstance(c, ast.Call) and isinstance(c.func, ast.Attribute) and c.func.attr == 'append' and norm(c.func.value).startswith('self.'))
    runs = set(norm(n.iter) for n in ast.walk(ms['close'].node) if isinstance(n, ast.For))
    if not (lists & runs):
        raise AnalysisError('werkzeug: close() does not run what call_on_close() registers')
    # is_sequence means tuple / list: nothing with a close()
    seq = ms.get('is_sequence')
    seq_ok = seq is not None and any(isinstance(r, ast.Return) and isinstance(r.value, ast.Call) and call_name(r.value) == 'isinstance' and
                                     len(r.value.args) == 2 and norm(r.value.args[0]) == 'self.response' for r in ast.walk(seq.node))
    keep = set()
    for n, m in ms.items():
        holders = set(s.targets[0].id for s in stmts_of(m.node) if isinstance(s, ast.Assign) and len(s.targets) == 1 and
                      isinstance(s.targets[0], ast.Name) and _is_close_of(s.value, ('self.response',)))
        stores = [s for s in stmts_of(m.node) if isinstance(s, ast.Assign) and any(norm(t) == 'self.response' for t in s.targets)]
        regs = [c for c in walk_body(m.node) if isinstance(c, ast.Call) and norm(c.func) == 'self.call_on_close' and len(c.args) == 1 and
                isinstance(c.args[0], ast.Name) and c.args[0].id in holders]
        if holders and stores and regs:
            keep.add(n)
    if not keep:
        raise AnalysisError('werkzeug: no response method found that registers the old iterable\'s close with call_on_close')
    changed = True
    while changed:
        changed = False
        for n, m in ms.items():
            if n in keep or n in ('close', 'call_on_close', '__init__'):
                continue
            cfg = cfg_of(m)
            through = set()
            for s in stmts_of(m.node):
                if hasattr(s, 'body') or _protected(m, s):
                    continue
                if any(isinstance(c, ast.Call) and isinstance(c.func, ast.Attribute) and norm(c.func.value) == 'self' and c.func.attr in keep
                       for c in ast.walk(s)):
                    through.update(cfg.nodes_of(s))
            if not through:
                continue
            if seq_ok:
                through.update(nid for nid, t, p in cfg.branches() if p and norm(t) == 'self.is_sequence')
            if cfg.must_pass(through, cfg.entry, cfg.exit):
                keep.add(n)
                changed = True
    props = set()
    for s in ci.node.body:
        if isinstance(s, ast.Assign) and isinstance(s.value, ast.Call) and call_name(s.value) == 'property' and s.value.args and \
                isinstance(s.value.args[0], ast.Name) and s.value.args[0].id in keep:
            props.update(t.id for t in s.targets if isinstance(t, ast.Name))
    for n, m in ms.items():
        if n in keep and any(isinstance(d, ast.Name) and d.id == 'property' for d in m.node.decorator_list):
            props.add(n)
            keep.discard(n)
    return keep, props


def body_stores(fi, kinds=('response',)):
    """[(statement, receiver expression, new value or None)] for the stores of a new body *iterable*, ``X.response = v``
    (with kinds=('response', 'data', 'set_data') also the stores of a new body string, ``X.data = v`` / ``X.set_data(v)``,
    which drop the old iterable in the same way -- not judged by default, see the note in check_body_replacement)."""
    out = []
    for s in stmts_of(fi.node):
        if isinstance(s, (ast.Assign, ast.AugAssign, ast.AnnAssign)):
            tgts = s.targets if isinstance(s, ast.Assign) else [s.target]
            for t in tgts:
                for e in (t.elts if isinstance(t, (ast.Tuple, ast.List)) else [t]):
                    if isinstance(e, ast.Attribute) and e.attr in ('response', 'data') and e.attr in kinds:
                        out.append((s, e.value, s.value if isinstance(s, ast.Assign) and e is t and e.attr == 'response' else None))
        elif isinstance(s, ast.Expr) and isinstance(s.value, ast.Call) and isinstance(s.value.func, ast.Attribute) and s.value.func.attr == 'set_data' and 'set_data' in kinds:
            out.append((s, s.value.func.value, None))
    return out


def _created_here(fi, name):
    """Is the local bound (only) to instances the function constructs itself?"""
    if name in fi.params():
        return False
    vals = assigned_value(fi.node, name)
    if not vals:
        return False
    for _st, v, idx in vals:
        if idx is not None or not isinstance(v, ast.Call):
            return False
        f = v.func
        if isinstance(f, ast.Name) and not assigned_value(fi.node, f.id):
            cn = f.id
            if cn in fi.params():
                # a ``response_type=Response`` parameter: a class by its default, called to make the instance
                d = _param_default(fi, cn)
                cn = d.id if isinstance(d, ast.Name) else None
            if cn is not None and fi.mod.repo.resolve(fi.mod, cn)[0] == 'class':
                continue
        return False
    return True


def _param_default(fi, name):
    a = fi.node.args
    pos = a.posonlyargs + a.args
    for x, d in list(zip(pos[len(pos) - len(a.defaults):], a.defaults)) + list(zip(a.kwonlyargs, a.kw_defaults)):
        if x.arg == name:
            return d
    return None


def _single(fi, name):
    vals = assigned_value(fi.node, name)
    if name in fi.params() or len(vals) != 1 or vals[0][2] is not None or not isinstance(vals[0][0], ast.Assign):
        return None
    return vals[0]


def close_kept(fi, st, recv, value, keep, props):
    """Is the close of the iterable that ``recv.response`` holds before statement ``st`` still reachable afterwards?"""
    cfg = cfg_of(fi)
    sn = set(cfg.nodes_of(st))
    if not sn:
        raise AnalysisError('%s: the body store is not in the control-flow graph' % fi.qualname)
    r = norm(recv)
    if len(assigned_value(fi.node, r)) > 1:
        raise AnalysisError('%s: the response %s is bound more than once' % (fi.qualname, r))

    def before(stmt):
        ns = cfg.nodes_of(stmt)
        return bool(ns) and cfg.must_pass(ns, cfg.entry, sn)

    # (1) buffered through a close-keeping method / property of the response on every path to the store
    through = set()
    for s in stmts_of(fi.node):
        if s is st or _protected(fi, s):
            continue
        hosts = [s] if not hasattr(s, 'body') else [getattr(s, f) for f in ('test', 'iter') if isinstance(getattr(s, f, None), ast.AST)]
        for h in hosts:
            for x in ast.walk(h):
                if isinstance(x, ast.Attribute) and isinstance(x.ctx, ast.Load) and norm(x.value) == r and \
                        (x.attr in props or (x.attr in keep and isinstance(fi.mod.parents.get(x), ast.Call) and fi.mod.parents.get(x).func is x)):
                    through.update(cfg.nodes_of(s))
    if through and cfg.must_pass(through, cfg.entry, sn):
        return 'buffered through the response\'s own close-keeping API'
    # the old iterable / its close under local names, read before the store
    olds, closes = {r + '.response'}, set()
    for s in stmts_of(fi.node):
        if isinstance(s, ast.Assign) and len(s.targets) == 1 and isinstance(s.targets[0], ast.Name) and _single(fi, s.targets[0].id) and before(s):
            if norm(s.value) == r + '.response':
                olds.add(s.targets[0].id)
    for s in stmts_of(fi.node):
        if isinstance(s, ast.Assign) and len(s.targets) == 1 and isinstance(s.targets[0], ast.Name) and _single(fi, s.targets[0].id) and before(s):
            if _is_close_of(s.value, olds):
                closes.add(s.targets[0].id)

    def names_old_close(e, at):
        if isinstance(e, ast.Name):
            return e.id in closes
        if isinstance(e, ast.Attribute) and e.attr == 'close':
            b = norm(e.value)
            return b in olds and (b != r + '.response' or before(at))
        return False

    # (2) registered with call_on_close
    regs = set()
    guards = set()
    for s in stmts_of(fi.node):
        if isinstance(s, ast.Expr) and isinstance(s.value, ast.Call) and isinstance(s.value.func, ast.Attribute) and \
                s.value.func.attr == 'call_on_close' and norm(s.value.func.value) == r and len(s.value.args) == 1 and \
                names_old_close(s.value.args[0], s) and not _protected(fi, s):
            regs.update(cfg.nodes_of(s))
            a = s.value.args[0]
            if isinstance(a, ast.Name):
                # ``if close is not None: resp.call_on_close(close)``: the other branch has nothing to lose
                for nid, t, p in cfg.branches():
                    if isinstance(t, ast.Name) and t.id == a.id and not p:
                        guards.add(nid)
                    if isinstance(t, ast.Compare) and len(t.ops) == 1 and norm(t.left) == a.id and isinstance(t.comparators[0], ast.Constant) and \
                            t.comparators[0].value is None:
                        if (isinstance(t.ops[0], ast.Is) and p) or (isinstance(t.ops[0], ast.IsNot) and not p):
                            guards.add(nid)
    if regs:
        thr = regs | guards
        if cfg.must_pass(thr, cfg.entry, sn) or cfg.must_pass(thr, [m for n in sn for m in cfg.succ[n]], cfg.exit):
            return 'the old iterable\'s close is registered with call_on_close'
    # (3) the new value is a ClosingIterator carrying the old close
    v = value
    if isinstance(v, ast.Name) and _single(fi, v.id):
        v = _single(fi, v.id)[1]
    if isinstance(v, ast.Call) and isinstance(v.func, ast.Name) and len(v.args) + len(v.keywords) >= 2:
        kind, _m, obj = fi.mod.repo.resolve(fi.mod, v.func.id)
        if kind == 'class' and getattr(obj, 'name', None) == 'ClosingIterator' and 'close' in obj.methods:
            cb = v.args[1] if len(v.args) > 1 else next((k.value for k in v.keywords if k.arg == 'callbacks'), None)
            if cb is not None and any(names_old_close(x, st) for x in ast.walk(cb) if isinstance(x, (ast.Name, ast.Attribute))):
                return 'the new iterable is a ClosingIterator that closes the old one'
    return None


def check_body_replacement(rep, rule='R13.c'):
    # Scope: stores of a new *iterable* (``.response = ..``), the re-wrapping role.  ``set_data`` / ``.data = ..`` on a response
    # made elsewhere drop the old iterable in the same way; on the unmodified tree that is what SimpleProfileMiddleware.request
    # does to the response ``next()`` returned (reported as an observation on clastic, not judged here).
    repo = rep.repo
    keep, props = keeping_api(repo)
    rep.ok(rule, 'werkzeug::close-keeping response API', 'read from the pinned werkzeug: %s keep the old iterable\'s close (call_on_close)'
           % sorted(keep | props))
    n = 0
    for m in repo.all_internal_modules():
        for fi in m.functions.values():
            for st, recv, value in body_stores(fi):
                if not isinstance(recv, ast.Name) or recv.id == 'self' or _created_here(fi, recv.id):
                    continue
                n += 1
                how = close_kept(fi, st, recv, value, keep, props)
                rep.check(rule, fkey(fi, st), how is not None,
                          'the body of a response made elsewhere is replaced; %s' % how if how else
                          '%s replaces the body of a response it did not create (%s) and nothing keeps the old iterable\'s close() reachable: '
                          'a file the response owns stays open after close()' % (fi.qualname, short(st)), fi.mod, st)
    rep.ok(rule, 'clastic::bodies replaced', '%d store(s) into the body of a response made elsewhere, judged one by one' % n)
