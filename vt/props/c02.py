"""C02 -- Each injected argument comes from its one declared source.

Decided:
  R02.a  keyword identity in generated code: every call emitted by build_chain_str and by the request-core
         template passes NAME=NAME built from one element, never a positional argument -- so a value bound
         to name n can only reach a parameter called n, for every request and every hash seed (the order in
         which sets are joined into parameter lists cannot matter);
  R02.b  declared-only: emitted names iterate the callee's own signature filtered by the in-scope set;
         inject() filters by fb.get_arg_names() unless the callee takes **kwargs;
  R02.c  precedence of layers: a parameter's default is below every source; execute(): built-ins <
         bound resources < call-time parameters; dispatch(): serving application's resources < built-ins <
         URL parameters; bind time: application resources < route resources; each built-in name is bound
         to the object it names;
  R02.d  identity: on dispatch -> execute -> inject the values are only moved between dicts, never passed
         through a call (copy/str/...);
  R02.e  phase isolation: endpoint-phase provides never enter the render-phase availability (R01.d).
Declined: values third-party middlewares hand to next(); URL conversion values (C05).
"""
from . import chain


def run(rep):
    rep.decide('R02.a keyword identity; R02.b declared-only; R02.c layer precedence and built-in bindings; '
               'R02.d identity not copies; R02.e phase isolation')
    rep.decline('the value a user middleware hands to next(); URL conversion values')
    rep.assume('Python keyword-argument passing binds name to same-named parameter')
    rep.rule('R02.a', 'generated calls are keyword-only NAME=NAME from one element')
    rep.rule('R02.b', 'only declared, in-scope names are passed')
    rep.rule('R02.c', 'dict-merge layer order (later wins) is a linear extension of the required precedence')
    rep.rule('R02.d', 'layer sources are plain names/attributes/literals: values are moved, not copied')
    rep.rule('R02.e', 'availability sets per phase (truth tables)')
    g = rep.guard
    g(chain.check_generated_level, rep, 'R02.a', 'R02.b', 'R02.a', 'R02.a', 'R02.b')
    g(chain.check_request_core, rep, 'R02.a', rule_kw='R02.a')
    g(chain.check_inject, rep, 'R02.b', 'R02.c')
    g(chain.check_accessors, rep, 'R02.b', kinds=False)
    g(chain.check_request_layers, rep, 'R02.c', 'R02.d')
    g(chain.check_phase_sets, rep, 'R02.e', rule_pair='R02.e', rule_core_env='R02.e')
    g(chain.check_make_chain, rep, 'R02.e', 'R02.e')
    if not rep.gaps:
        rep.floor('R02.a', 8)
        rep.floor('R02.b', 8)
        rep.floor('R02.c', 7)
        rep.floor('R02.d', 4)
        rep.floor('R02.e', 10)
